(* Generic runner for the extracted models: one case per input line
     <name> <sx>
   sx ::= x<hex2>* | u<hex6>* | ( sx* ) ; output: one sx per line. *)
open Model

let rec pos_of_int n = if n = 1 then XH else if n land 1 = 1 then XI (pos_of_int (n lsr 1)) else XO (pos_of_int (n lsr 1))
let n_of_int n = if n = 0 then N0 else Npos (pos_of_int n)
let rec int_of_pos = function XH -> 1 | XO p -> 2 * int_of_pos p | XI p -> 2 * int_of_pos p + 1
let int_of_n = function N0 -> 0 | Npos p -> int_of_pos p

let str_of_ascii s = List.init (String.length s) (fun i -> n_of_int (Char.code s.[i]))

let hexval c = match c with
  | '0'..'9' -> Char.code c - 48 | 'a'..'f' -> Char.code c - 87 | 'A'..'F' -> Char.code c - 55
  | _ -> failwith "hex"

let atom_of_token t =
  let w = if t.[0] = 'x' then 2 else if t.[0] = 'u' then 6 else failwith ("atom " ^ t) in
  let n = (String.length t - 1) / w in
  List.init n (fun i ->
    let v = ref 0 in
    for j = 0 to w - 1 do v := !v * 16 + hexval t.[1 + i * w + j] done;
    n_of_int !v)

let parse_sx tokens =
  let rec one = function
    | "(" :: rest -> let (items, rest') = many rest in (L items, rest')
    | ")" :: _ -> failwith "unexpected )"
    | t :: rest -> (A (atom_of_token t), rest)
    | [] -> failwith "eof"
  and many = function
    | ")" :: rest -> ([], rest)
    | toks -> let (x, rest) = one toks in let (xs, rest') = many rest in (x :: xs, rest')
  in
  let (x, rest) = one tokens in
  if rest <> [] then failwith "trailing"; x

let rec print_sx buf = function
  | A s ->
      let ints = List.map int_of_n s in
      if List.for_all (fun c -> c < 256) ints then begin
        Buffer.add_char buf 'x'; List.iter (fun c -> Buffer.add_string buf (Printf.sprintf "%02x" c)) ints end
      else begin
        Buffer.add_char buf 'u'; List.iter (fun c -> Buffer.add_string buf (Printf.sprintf "%06x" c)) ints end
  | L l ->
      Buffer.add_string buf "(";
      List.iteri (fun i x -> if i > 0 then Buffer.add_char buf ' '; print_sx buf x) l;
      Buffer.add_string buf ")"

let () =
  let ic = if Array.length Sys.argv > 1 then open_in Sys.argv.(1) else stdin in
  (try
    while true do
      let line = input_line ic in
      let spaced = Buffer.create (String.length line + 16) in
      String.iter (fun c -> if c = '(' || c = ')' then (Buffer.add_char spaced ' '; Buffer.add_char spaced c; Buffer.add_char spaced ' ')
                            else Buffer.add_char spaced c) line;
      let toks = List.filter (fun s -> s <> "") (String.split_on_char ' ' (Buffer.contents spaced)) in
      match toks with
      | [] -> print_newline ()
      | name :: rest ->
          let out =
            try
              let arg = parse_sx rest in
              let r = dispatch (str_of_ascii name) arg in
              let b = Buffer.create 256 in print_sx b r; Buffer.contents b
            with
            | Stack_overflow -> "(x737461636b6f766572666c6f77)"
            | Failure m -> "(x6261642d696e707574)" ^ " ; " ^ m
          in
          print_string out; print_newline ()
    done
  with End_of_file -> ())
