"""C04: no handler/upload invocation without the chain's admission (monitor Spec.C04.ok)."""
from servercheck import *

def run(tier, seed):
    res, _, _ = run_server_property(
        "C04", ["C04.ok"], tier, seed,
        nontrivial=lambda c, e, o: c["has_mw"] and any(a[0] == "mw" for acts, _ in o for a in acts),
        rule="non-trivial = distinct schedule with a middleware chain that was actually consulted")
    chain_composition_cases(res, random.Random(seed), tier)
    res.rule += (" | plus the real MiddlewareChain over scripted components (admit / refuse with a response / refuse without one / raise), "
                 "every chain of up to 3 (thorough: 4) components, Gemini and Titan requests through the real protocol")
    titan_path_agreement_cases(res)
    res.rule += " | plus Titan lines whose path contains ';' and dot segments: the path in the URL the chain is consulted with is the path the upload handler acts on"
    import tlsextra
    tmp = scratch_dir("nv-c04-")
    try:
        tlsextra.fingerprint_plumbing_cases(res, tmp)
        tlsextra.fingerprint_collision_cases(res, tmp, "C04")
    finally:
        shutil.rmtree(tmp, ignore_errors=True)
    return res


def chain_composition_cases(res, rng, tier):
    """The real MiddlewareChain in front of the real protocol.  Each component is scripted: it admits, refuses with its own
    response line, refuses without one ((False, None): the protocol answers for it), or raises.  A request is admitted exactly when
    every component admits; otherwise no handler runs and the client receives the FIRST refusing component's response (a
    non-success status when that component gave none or raised)."""
    import asyncio, itertools
    import serverdrv as sd
    from nauyaca.server.middleware import MiddlewareChain
    from nauyaca.server.protocol import GeminiServerProtocol
    from nauyaca.protocol.response import GeminiResponse
    KINDS = ["admit", "refuse53", "refuse44", "refuse-silent", "raise"]
    class Comp:
        def __init__(self, kind, log): self.kind, self.log = kind, log
        async def process_request(self, url, ip, fp=None):
            self.log.append(self.kind)
            await asyncio.sleep(0)
            if self.kind == "admit": return True, None
            if self.kind == "refuse53": return False, "53 Access denied\r\n"
            if self.kind == "refuse44": return False, "44 Rate limit exceeded. Retry after 7 seconds\r\n"
            if self.kind == "refuse-silent": return False, None
            raise RuntimeError("component failure")
    class Up:
        def __init__(self, calls): self.calls = calls
        async def handle_upload(self, request):
            self.calls.append("upload"); return GeminiResponse(20, "text/gemini", "stored")
    chains = [c for n in range(1, (4 if tier == "quick" else 5)) for c in itertools.product(KINDS, repeat=n)]
    if tier == "quick":
        chains = [c for c in chains if len(c) <= 2] + rng.sample([c for c in chains if len(c) == 3], 40)
    async def one(chain, line):
        consulted, calls, acts = [], [], []
        def handler(req): calls.append("handler"); return GeminiResponse(20, "text/plain", "content")
        p = GeminiServerProtocol(handler, MiddlewareChain([Comp(k, consulted) for k in chain]), Up(calls))
        t = sd.FakeTransport(acts, ("192.0.2.1", 5), None)
        p.connection_made(t)
        p.data_received(line)
        for i in range(400):
            if t.closed: break
            await asyncio.sleep(0 if i < 40 else 0.002)
        if p.timeout_handle: p.timeout_handle.cancel()
        wire = b"".join(a[1] for a in acts if a[0] == "w")
        return consulted, calls, wire, t.closed
    async def go():
        out = []
        for chain in chains:
            for line in (b"gemini://h.example/private/x\r\n", b"titan://h.example/up.gmi;size=5;mime=text/gemini\r\nhello"):
                out.append((chain, line, await one(chain, line)))
        return out
    for chain, line, (consulted, calls, wire, closed) in asyncio.run(go()):
        res.evaluations += 1; res.count("chain-composition:%d" % len(chain)); res.nontriv(("chain-composition", chain, line[:5]))
        first = next((k for k in chain if k != "admit"), None)
        head = wire.split(b"\r\n")[0]
        if first is None:
            ok = calls in (["handler"], ["upload"]) and head.startswith(b"20 ")
        else:
            ok = calls == [] and closed and len(head) >= 3 and head[:1] != b"2" and head[:2].isdigit()
            if first == "refuse53": ok = ok and wire == b"53 Access denied\r\n"
            if first == "refuse44": ok = ok and wire == b"44 Rate limit exceeded. Retry after 7 seconds\r\n"
            # components behind the first refusal decide nothing
            ok = ok and consulted == list(chain[:chain.index(first) + 1])
        if not ok:
            res.violations.append({"clause": "a request is admitted exactly when every component of the chain admits; the first refusing component's response is what the client receives; no handler runs otherwise",
                                   "signature": "C04:chain-composition",
                                   "case": {"components": list(chain), "request": line.decode("latin-1")},
                                   "trace": {"components_consulted": consulted, "handlers_invoked": calls, "client_received": wire[:80].decode("latin-1"), "closed": closed}})


def titan_path_agreement_cases(res):
    """ "The chain is consulted with ... the request URL": for a Titan request the chain and the upload handler must be talking about
    the same path.  Titan lines whose path contains ';' that is not the start of the parameters, with dot segments after it."""
    import asyncio, serverdrv as sd
    from urllib.parse import urlsplit
    from nauyaca.server.protocol import GeminiServerProtocol
    from nauyaca.protocol.response import GeminiResponse
    lines = [b"titan://h.example/pub;v=1/../private/plan.gmi;size=5;mime=text/gemini\r\nhello", b"titan://h.example/a;b/c;size=5\r\nhello",
             b"titan://h.example/pub;x/../../private/p;size=5;token=t\r\nhello", b"titan://h.example/private/plan.gmi;size=5;mime=text/gemini\r\nhello",
             b"titan://h.example/drafts;mime=x/../private/new.gmi;size=5\r\nhello", b"titan://h.example/p;size=5;mime=text/plain;token=a;b\r\nhello"]
    async def one(line):
        seen_chain, seen_handler, acts = [], [], []
        class MW:
            async def process_request(self, url, ip, fp=None): seen_chain.append(url); return True, None
        class UP:
            async def handle_upload(self, req): seen_handler.append(req.path); return GeminiResponse(20, "text/gemini", "stored")
        p = GeminiServerProtocol(lambda r: GeminiResponse(20, "text/plain", "x"), MW(), UP())
        t = sd.FakeTransport(acts, ("192.0.2.1", 5), None)
        p.connection_made(t); p.data_received(line)
        for i in range(60):
            if t.closed: break
            await asyncio.sleep(0 if i < 20 else 0.002)
        if p.timeout_handle: p.timeout_handle.cancel()
        return seen_chain, seen_handler, b"".join(a[1] for a in acts if a[0] == "w")
    async def go(): return [(l, await one(l)) for l in lines]
    for line, (seen_chain, seen_handler, wire) in asyncio.run(go()):
        res.evaluations += 1; res.count("titan-path-agreement"); res.nontriv(("titan-path-agreement", line))
        if not seen_handler: continue                      # refused before any handler: nothing to compare
        chain_path = urlsplit(seen_chain[0]).path.split(";", 1)[0] if seen_chain else None
        if len(seen_chain) != 1 or chain_path != seen_handler[0]:
            res.violations.append({"clause": "the chain is consulted with the request URL: the path in that URL (up to the Titan parameters) is the path the upload handler is given",
                                   "signature": "C04:titan-path-agreement", "case": {"request": line.decode("latin-1")},
                                   "trace": {"url_given_to_the_chain": seen_chain, "its_path": chain_path, "path_given_to_the_upload_handler": seen_handler, "client_received": wire[:40].decode("latin-1")}})
