"""C04: no handler/upload invocation without the chain's admission (monitor Spec.C04.ok)."""
from servercheck import *

def run(tier, seed):
    res, _, _ = run_server_property(
        "C04", ["C04.ok"], tier, seed,
        nontrivial=lambda c, e, o: c["has_mw"] and any(a[0] == "mw" for acts, _ in o for a in acts),
        rule="non-trivial = distinct schedule with a middleware chain that was actually consulted")
    import tlsextra
    tmp = scratch_dir("nv-c04-")
    try:
        tlsextra.fingerprint_plumbing_cases(res, tmp)
        tlsextra.fingerprint_collision_cases(res, tmp, "C04")
    finally:
        shutil.rmtree(tmp, ignore_errors=True)
    return res
