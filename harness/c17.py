"""C17: the reverse proxy only talks to its upstream and maps URLs faithfully.
Real ProxyHandler + real GeminiClient; only loop.create_connection is replaced by a recorder."""
import asyncio
from pathlib import Path
from common import *
import urlgen, urlimpl

class ClientTransport:
    def __init__(self): self.written = []; self.closed = False
    def write(self, b): self.written.append(bytes(b))
    def close(self): self.closed = True
    def is_closing(self): return self.closed
    def get_extra_info(self, name, default=None): return default

async def proxied(loop, handler, request, reply=b"20 text/plain\r\nhi"):
    conns = []
    async def fake_create_connection(factory, host=None, port=None, ssl=None, server_hostname=None, **kw):
        proto = factory(); tr = ClientTransport()
        conns.append({"host": host, "port": port, "sni": server_hostname, "tr": tr})
        proto.connection_made(tr)
        def finish():
            proto.data_received(reply); proto.connection_lost(None)
        loop.call_soon(finish)
        return tr, proto
    urls = []
    real_get = handler._client.get
    async def spy_get(url, follow_redirects=True):
        urls.append((url, follow_redirects))
        return await real_get(url, follow_redirects=follow_redirects)
    handler._client.get = spy_get
    loop.create_connection = fake_create_connection
    try:
        resp = await handler.handle(request)
    finally:
        del loop.create_connection
        handler._client.get = real_get
    return urls, conns, resp

def gen_proxy_cfg(rng):
    host = rng.choice(["backend", "Backend.Example", "10.0.0.5", "[::1]", "[fe80::1%25eth0]", "b-1.internal"])
    port = rng.choice(["", "", ":1965", ":1966", ":70"])
    base = rng.choice(["", "", "/", "/base", "/base/", "/a/b", "//", "/Archive/V2", "/Mixed/Case/", "/%41b"])
    up = "gemini://" + host + port + base
    if rng.random() < 0.05: up += rng.choice(["?x=1", "/p?q"])
    prefix = rng.choice(["/", "/api", "/api/", "/a", "/mirror/", "", "/api/v1", "/%41"])
    return up, prefix, rng.random() < 0.6

def wire_path_query(line):
    """path and query of the request line as the CLIENT wrote them (RFC 3986 syntax: authority ends at the first '/', '?' or '#';
    the query runs from the first '?' to '#') - not read back from the parser under test"""
    rest = line.split("://", 1)[1]
    cut = min([rest.index(c) for c in "/?#" if c in rest] or [len(rest)])
    after = rest[cut:].split("#", 1)[0]
    path, _, query = after.partition("?")
    return (path or "/"), query

def gen_request(rng, prefix):
    k = rng.random()
    host = rng.choice(["front.example", "EVIL.example:1966", "[::1]", "h"])
    if k < 0.5:
        tail = rng.choice(["", "/", "x", "/x", "key", "/../x", "//evil.example/", "/@evil.example/", ":80/", ";p=1", "%2F..%2F", "/a//b", "?"])
        path = prefix + tail
        if not path.startswith("/"): path = "/" + path
    else:
        path = urlgen.path(rng)
    q = urlgen.query(rng)
    return "gemini://" + host + path + q

def run(tier, seed):
    setup_impl()
    from nauyaca.server.proxy import ProxyHandler
    from nauyaca.protocol.request import GeminiRequest
    rng = random.Random(seed)
    res = Result()
    res.rule = ("proxy configurations (upstream with/without port, path, trailing slash, IPv4/IPv6 literal; prefix with/without trailing slash; strip on/off) x "
                "request URLs built around the prefix ('@', ':', '//', ';params', encoded slashes, dot segments, empty path, queries); "
                "non-trivial = distinct (config, request) for which the proxy opened an upstream connection; plus the same through ServerConfig.locations -> get_location_router() "
                "with 2-4 proxy locations, some sharing an upstream, differing in prefix / strip_prefix")
    n = 4000 if tier == "quick" else 60000
    cfgs = {}
    records = []
    async def go():
        loop = asyncio.get_running_loop()
        pool = [gen_proxy_cfg(rng) for _ in range(60 if tier == "quick" else 400)]
        for _ in range(n):
            up, prefix, strip = rng.choice(pool)
            key = (up, prefix, strip)
            if key not in cfgs:
                try:
                    cfgs[key] = ProxyHandler(upstream=up, prefix=prefix, strip_prefix=strip, timeout=2.0)
                except ValueError:
                    continue
            h = cfgs[key]
            line = gen_request(rng, prefix)
            import urllib.parse
            urllib.parse.clear_cache(); del urlimpl._calls[:]
            try:
                req = GeminiRequest.from_line(line)
            except ValueError:
                continue
            urls, conns, resp = await proxied(loop, h, req)
            wp, wq = wire_path_query(line)
            records.append((key, wp, wq, line, urls, conns, resp, list(urlimpl._calls)))
    asyncio.run(go())
    mcases, iobs, mon, meta = [], [], [], []
    for key, path, query, line, urls, conns, resp, calls in records:
        up, prefix, strip = key
        table = [[h, [] if m is None else [m]] for h, m in calls]
        res.evaluations += 1
        url = urls[0][0] if urls else ""
        if urls and urls[0][1] is not False:
            res.violations.append({"clause": "redirects-must-not-be-followed", "signature": "C17:follow", "case": {"cfg": key, "line": line}, "trace": {}})
        if len(conns) > 1:
            res.violations.append({"clause": "more-than-one-upstream-connection", "signature": "C17:conns", "case": {"cfg": key, "line": line},
                                   "trace": {"connections": [(c["host"], c["port"]) for c in conns]}})
        if conns:
            c = conns[0]
            sent = b"".join(c["tr"].written)
            linesent = sent[:-2].decode("utf-8", "replace") if sent.endswith(b"\r\n") else sent.decode("utf-8", "replace") + "<<no CRLF>>"
            obs = [url, ["connect", c["host"], c["port"], linesent]]
            mon.append(("C17.ok", enc([up, prefix, strip, path, query, table, c["host"], c["port"], linesent])))
            meta.append((key, line, c["host"], c["port"], linesent))
            res.nontriv((key, line))
            res.count("connected")
        else:
            obs = [url, ["refused", "x"]]
            res.count("no-connection:status%s" % resp.status)
        mcases.append(("proxy", enc([up, prefix, strip, path, query, table])))
        iobs.append(obs)
    out = run_model_parallel(mcases)
    OOM = enc(["oom"])
    for (key, path, query, line, *_), io, mo in zip(records, iobs, out):
        m = dec(mo)
        if enc(m[1]) == OOM:
            res.out_of_model += 1; continue
        mm = pretty(m)
        # error kinds of refused URLs are not compared (only that no connection is made)
        if io[1][0] == "refused" and mm[1][0] == "refused":
            same = (io[0] == m[0].text())
        else:
            same = (enc(io) == mo)
        if not same:
            res.disagreements.append({"driver": "proxy", "case": {"cfg": key, "request": line}, "model": mm, "impl": io})
    res.sample({"cfg": records[0][0], "request": records[0][3], "upstream_url": iobs[0][0], "connection": iobs[0][1]})
    res.sample({"cfg": records[-1][0], "request": records[-1][3], "upstream_url": iobs[-1][0], "connection": iobs[-1][1]})
    # ---- the same through the configuration layer: ServerConfig.locations -> get_location_router() -> Router.route.
    # Several proxy locations, some sharing one upstream (and timeout) but differing in prefix / strip_prefix: each request
    # must be forwarded by the first location whose prefix matches, with THAT location's mapping.
    from nauyaca.server.config import ServerConfig
    from nauyaca.server.location import LocationConfig, HandlerType
    import tempfile as _tf
    lrecords = []
    async def go_locations():
        loop = asyncio.get_running_loop()
        docroot = Path(scratch_dir("nv-c17-"))
        try:
            for _ in range(40 if tier == "quick" else 600):
                ups = [gen_proxy_cfg(rng)[0] for _ in range(2)]
                locs = []
                for _ in range(rng.randint(2, 4)):
                    up = rng.choice(ups)
                    prefix = rng.choice(["/api/", "/v2", "/v2/", "/mirror/", "/a", "/api/v1/", "/"])
                    strip = rng.random() < 0.6
                    try:
                        lc = LocationConfig(prefix=prefix, handler_type=HandlerType.PROXY, upstream=up, strip_prefix=strip, timeout=2.0)
                        lc._as_written = (up, prefix, strip)       # what the operator configured (the referee's view, not the object's)
                        locs.append(lc)
                    except (ValueError, TypeError):
                        pass
                if len(locs) < 2: continue
                try:
                    cfg = ServerConfig(host="127.0.0.1", port=1965, document_root=docroot, locations=locs)
                    router = cfg.get_location_router()
                except Exception as e:
                    lrecords.append(("config-error", repr(e)[:200])); continue
                for _ in range(6):
                    loc_pick = rng.choice(locs)
                    line = gen_request(rng, loc_pick.prefix)
                    try: req = GeminiRequest.from_line(line)
                    except ValueError: continue
                    wp, wq = wire_path_query(line)
                    first = next((l for l in locs if wp.startswith(l._as_written[1])), None)
                    if first is None: continue
                    conns = []
                    async def fake_cc(factory, host=None, port=None, ssl=None, server_hostname=None, **kw):
                        proto = factory(); tr = ClientTransport()
                        conns.append({"host": host, "port": port, "tr": tr})
                        proto.connection_made(tr)
                        loop.call_soon(lambda: (proto.data_received(b"20 text/plain\r\nhi"), proto.connection_lost(None)))
                        return tr, proto
                    import urllib.parse
                    urllib.parse.clear_cache(); del urlimpl._calls[:]
                    loop.create_connection = fake_cc
                    try:
                        r = router.route(req)
                        if asyncio.iscoroutine(r): r = await r
                    except Exception as e:
                        r = None
                    finally:
                        del loop.create_connection
                    lrecords.append((first._as_written, [l._as_written for l in locs], wp, wq, line, conns, list(urlimpl._calls)))
        finally:
            shutil.rmtree(docroot, ignore_errors=True)
    asyncio.run(go_locations())
    lcases, lmeta = [], []
    for rec in lrecords:
        if rec[0] == "config-error": continue
        key, locs, path, query, line, conns, calls = rec
        table = [[h, [] if m is None else [m]] for h, m in calls]
        lcases.append(("proxy", enc([key[0], key[1], key[2], path, query, table]))); lmeta.append(rec)
    lout = run_model_parallel(lcases)
    for rec, mo_ in zip(lmeta, lout):
        key, locs, path, query, line, conns, calls = rec
        m = dec(mo_)
        if enc(m[1]) == OOM: res.out_of_model += 1; continue
        res.evaluations += 1; res.count("via-location-router")
        res.nontriv(("locations", str(locs), line))
        if conns:
            c = conns[0]; sent = b"".join(c["tr"].written)
            linesent = sent[:-2].decode("utf-8", "replace") if sent.endswith(b"\r\n") else sent.decode("utf-8", "replace") + "<<no CRLF>>"
            obs = ["connect", c["host"], c["port"], linesent]
        else:
            obs = ["refused", "x"]
        want = pretty(m)[1]
        if (obs[0] == "refused") != (want[0] == "refused") or (obs[0] == "connect" and enc(obs) != enc(m[1])):
            res.violations.append({"clause": "each location forwards with its own upstream, prefix and strip_prefix (first matching location)",
                                   "signature": "C17:location-router",
                                   "case": {"locations": locs, "request": line, "first_matching_location": key},
                                   "trace": {"observed": obs, "expected": want}})
    mo = run_model_parallel(mon)
    for m, me in zip(mo, meta):
        if m != enc(True):
            res.violations.append({"clause": "confinement-and-mapping", "signature": "C17:mapping",
                                   "case": {"cfg": me[0], "request": me[1]}, "trace": {"host": me[2], "port": me[3], "line": me[4]}})
    return res
