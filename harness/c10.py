"""C10 correspondence + monitor: RateLimiter under a virtual monotonic clock on a dyadic grid
(all float operations exact), decisions compared with the exact-rational model; the window
bound (Spec.C10.ok) is evaluated on the implementation's decision log."""
import asyncio, itertools, types
from fractions import Fraction as F
from common import *

def q(x):
    x = F(x)
    return [x.numerator, x.denominator]

class Clock:
    def __init__(self): self.t = 0.0

async def run_history(cap, rate, events):
    """events: ('r', t, ip) | ('c', t). Returns decision list for requests."""
    import nauyaca.server.middleware as mw
    clock = Clock()
    real_time, real_sleep = mw.time, mw.asyncio.sleep
    mw.time = types.SimpleNamespace(monotonic=lambda: clock.t)
    try:
        rl = mw.RateLimiter(mw.RateLimitConfig(capacity=cap, refill_rate=float(rate), retry_after=7))
        out = []
        eff = []          # the events that actually happened (the given ones plus injected bursts, see below)
        async def request(t, ip):
            ok, resp = await rl.process_request("gemini://h/", ip)
            eff.append(("r", t, ip))
            if not ok and resp != "44 Rate limit exceeded. Retry after 7 seconds\r\n":
                out.append(("bad-response", resp))
            else:
                out.append(bool(ok))
        async def burst(t):
            # every address that has ever sent a request (taken from the history, not from the limiter's table: an address the
            # pass has just forgotten is exactly the one whose next request matters)
            for ip in sorted(set(x[2] for x in eff if x[0] == "r")) or ["10.0.0.1"]:
                for _ in range(cap + 1):
                    await request(t, ip)
        for e in events:
            clock.t = float(e[1])
            if e[0] == "r":
                await request(e[1], e[2])
            else:
                # one pass of _cleanup_loop: the first sleep (the 300 s period) returns, the next period stops the loop.
                # Any OTHER await inside the pass is a point where the event loop may run request handlers: a burst from
                # every known address is injected there, and again right after the pass (schedule exploration; the
                # unmodified pass has no such point, so nothing is injected)
                n = {"k": 0, "inj": 0}
                eff.append(("c", e[1]))
                async def fake_sleep(d):
                    n["k"] += 1
                    if n["k"] == 1: return
                    if d < 300 and n["inj"] < 3:
                        n["inj"] += 1
                        await burst(e[1])
                        return
                    if d < 300: return
                    raise asyncio.CancelledError()
                mw.asyncio.sleep = fake_sleep
                try:
                    await rl._cleanup_loop()
                except asyncio.CancelledError:
                    pass
                finally:
                    mw.asyncio.sleep = real_sleep
                if n["inj"]:
                    await burst(e[1])
        out = (out, eff)
        return out
    finally:
        mw.time = real_time
        mw.asyncio.sleep = real_sleep

STEPS = [F(0), F(1, 8), F(1), F(8), F(300), F(4799, 8), F(600), F(4801, 8)]
IPS = ["10.0.0.1", "::1"]

MONITOR_ONLY = set()
def histories(rng, tier):
    caps = [1, 2, 3]
    rates = [F(1, 8), F(1), F(1, 1024)]
    out = []
    # exhaustive: up to L events, each event = (time step, kind)
    L = 4
    kinds = ["r0", "r1", "c"]
    steps = [F(0), F(1, 8), F(1), F(300), F(4801, 8)] if tier == "quick" else STEPS
    def enum(steps, lens):
        for n in lens:
            for combo in itertools.product(itertools.product(range(len(steps)), kinds), repeat=n):
                t = F(0); ev = []
                for si, k in combo:
                    t += steps[si]
                    ev.append(("c", t) if k == "c" else ("r", t, IPS[int(k[1])]))
                out.append(ev)
    enum(steps, range(1, L + 1))
    if tier != "quick":
        # five events over the three steps that matter for the window / eviction boundaries (24^5 full histories would be 8M)
        enum([F(0), F(1, 8), F(4801, 8)], [5])
    exh = len(out)
    cfgs = list(itertools.product(caps, rates))
    cases = []
    for i, ev in enumerate(out):
        # every history with every (cap, rate) is too many: rotate configs, but run the boundary ones always
        cases.append((cfgs[i % len(cfgs)][0], cfgs[i % len(cfgs)][1], ev))
        if tier != "quick" or i % 7 == 0:
            cases.append((1, F(1, 1024), ev))
    # random long runs spanning several clean-up periods
    nr = 300 if tier == "quick" else 5000
    for _ in range(nr):
        cap = rng.choice([1, 2, 3, 5, 10]); rate = rng.choice([F(1, 1024), F(1, 64), F(1, 8), F(1), F(2)])
        t = F(0); ev = []
        for _ in range(rng.randint(5, 40)):
            t += rng.choice([F(0), F(1, 8), F(1, 2), F(1), F(5), F(100), F(300), F(601), F(2000)])
            if rng.random() < 0.2: ev.append(("c", t))
            else: ev.append(("r", t, rng.choice(IPS + ["192.0.2.7"])))
        cases.append((cap, rate, ev))
    # a table of many tracked addresses (a clean-up pass that works in batches has await points only beyond its batch size):
    # N addresses make one request each, stay idle until every bucket has refilled, then one clean-up pass (with the burst
    # injection at any await point inside it, see run_history) and the burst after it
    for n_addr, cap in ((2600, 1),) if tier == "quick" else ((2600, 1), (5200, 2), (1100, 3)):
        ev = [("r", F(0), "10.%d.%d.%d" % (i >> 16, (i >> 8) & 255, i & 255)) for i in range(n_addr)]
        ev.append(("c", F(4801, 8)))
        cases.append((cap, F(1, 8), ev))
    # more tracked addresses than any plausible bound on the table (a limiter that forgets an address because OTHER addresses
    # arrived hands it a fresh allowance): one address exhausts its bucket, 12000 others make a request each, the first asks again
    n_other = 12000
    ev = [("r", F(0), "10.200.0.1"), ("r", F(0), "10.200.0.1")] + [("r", F(0), "10.%d.%d.%d" % (100 + (i >> 16), (i >> 8) & 255, i & 255)) for i in range(n_other)]
    ev += [("r", F(1, 8), "10.200.0.1"), ("r", F(1, 8), "10.200.0.1")]
    cases.append((1, F(1, 1024), ev))
    MONITOR_ONLY.add(len(cases) - 1)      # judged by the monitor on the first address's own log; the model run would be quadratic
    return cases, exh

def run(tier, seed):
    setup_impl()
    rng = random.Random(seed)
    res = Result()
    MONITOR_ONLY.clear()
    cases, exh = histories(rng, tier)
    res.rule = ("all histories of <= %d events over 2 addresses x {request, clean-up pass} x time steps incl. 0, 1/8, 300, 600+1/8 s "
                "(%d histories; thorough adds all 5-event histories over the steps 0, 1/8, 600+1/8; configurations cap 1..3 x rate 1/8, 1, 1/1024 rotated, cap 1 / rate 1/1024 always), plus random long runs, plus tables of 2600 (thorough: up to 5200) tracked addresses with one clean-up pass; "
                "non-trivial = distinct history with at least one refusal and one admission") % (4, exh)
    res.exhaustive = True
    async def go():
        return [await run_history(c, r, ev) for c, r, ev in cases]
    impl = asyncio.run(go())
    mcases, iobs, mon = [], [], []
    for ci, ((cap, rate, ev0), (dec_, ev)) in enumerate(zip(cases, impl)):
        if ci not in MONITOR_ONLY:
            sev = [["r", q(e[1]), e[2]] if e[0] == "r" else ["c", q(e[1])] for e in ev]
            mcases.append(("bucket", enc([q(cap), q(rate), sev])))
            iobs.append(enc([d if isinstance(d, bool) else str(d) for d in dec_]))
        reqs = [e for e in ev if e[0] == "r"]
        log = [[q(e[1]), e[2], bool(d is True)] for e, d in zip(reqs, dec_)]
        if len(log) <= 14:
            mon.append((len(mon), ("C10.ok", enc([q(cap), q(rate), log])), (cap, rate, ev, dec_)))
        elif len(set(l[1] for l in log)) > 50:
            # many addresses: the bound is per address - judge the first, the middle and the last tracked address on their own logs
            ips_ = list(dict.fromkeys(l[1] for l in log))
            for ip in (ips_[0], ips_[len(ips_) // 2], ips_[-1]):
                sub = [l for l in log if l[1] == ip]
                sdec = [d for e, d in zip(reqs, dec_) if e[2] == ip]
                if len(sub) <= 14:
                    mon.append((len(mon), ("C10.ok", enc([q(cap), q(rate), sub])),
                                (cap, rate, [("r", l[0][0] / l[0][1] if l[0][1] != 1 else l[0][0], l[1]) for l in sub] + [("note", "one of %d addresses; clean-up pass at t=600.125 with requests at its await points" % len(ips_), "")], sdec)))
        res.evaluations += 1
        if any(d is True for d in dec_) and any(d is False for d in dec_):
            res.nontriv((cap, rate, ev))
        res.count("len:%d" % min(len(ev), 10))
        res.count("refusals:%s" % ("0" if all(d is True for d in dec_) else ">0"))
    res.sample({"cap": cases[100][0], "rate": str(cases[100][1]), "events": [[str(x) for x in e] for e in cases[100][2]], "decisions": impl[100][0]})
    res.sample({"cap": cases[-5][0], "rate": str(cases[-5][1]), "events": [[str(x) for x in e] for e in cases[-5][2]], "decisions": impl[-5][0]})
    out = run_model_parallel(mcases)
    compare(res, "bucket", [c[1] for c in mcases], iobs, out, describe=lambda a: pretty(dec(a)))
    # "refused only when the allowance is exhausted": per address the decisions are those of one ideal bucket
    ideal_cases = [("C10.ideal", m[1][1]) for m in mon]
    io_ = run_model_parallel(ideal_cases)
    for (i, _, meta), m in zip(mon, io_):
        if m != enc(True):
            cap, rate, ev, dec_ = meta
            res.violations.append({"clause": "refused-only-when-exhausted (decisions of each address = one ideal bucket)", "signature": "C10:ideal",
                                   "case": {"capacity": cap, "refill_rate": str(rate), "events": [[str(x) for x in e] for e in ev]},
                                   "trace": {"decisions": dec_}})
    mo = run_model_parallel([m[1] for m in mon])
    for (i, _, meta), m in zip(mon, mo):
        if m != enc(True):
            cap, rate, ev, dec_ = meta
            res.violations.append({"clause": "window-bound", "signature": "C10:window",
                                   "case": {"capacity": cap, "refill_rate": str(rate), "events": [[str(x) for x in e] for e in ev]},
                                   "trace": {"decisions": dec_}})
    toml_values_cases(res)
    res.rule += " | plus [rate_limit] sections with boundary values (0, 1, fractions) loaded through ServerConfig.from_toml: the limiter's configuration is the numbers written"
    # through the command line: generated configurations whose [rate_limit] section has capacity 2 / 500 / default / disabled
    import livetls
    livetls.run_config_matrix(res, tier, "C10", seed)
    res.rule += " | plus the CLI: serve --config with generated [rate_limit] sections (capacity 2 with retry_after 7, 500, default, disabled), 6 valid requests and one over-long line from 127.0.0.1"
    return res


def toml_values_cases(res):
    """ "the configured retry hint", "capacity + refill_rate x T": the numbers the limiter runs with are the numbers written in the
    configuration file - also when a number is 0 (a budget that is never refilled, an allowance of nothing, no retry hint)."""
    from pathlib import Path
    from nauyaca.server.config import ServerConfig
    tmp = scratch_dir("nv-c10t-")
    try:
        for cap, rate, retry in ((2, 0, 7), (0, 1.0, 30), (5, 0.5, 0), (1, 0.0, 0), (10, 1.0, 30), (3, 2, 1), (0, 0, 0)):
            cf = os.path.join(tmp, "rl.toml")
            open(cf, "w").write('[server]\ndocument_root = "%s"\n\n[rate_limit]\ncapacity = %r\nrefill_rate = %r\nretry_after = %r\n' % (tmp, cap, rate, retry))
            res.evaluations += 1; res.count("toml-values"); res.nontriv(("toml-values", cap, rate, retry))
            try:
                rc = ServerConfig.from_toml(Path(cf)).get_rate_limit_config()
                got = (rc.capacity, float(rc.refill_rate), rc.retry_after)
            except Exception as e:
                got = ("raise", type(e).__name__, str(e)[:80])
            if got != (cap, float(rate), retry):
                res.violations.append({"clause": "the limiter is configured with the capacity, refill rate and retry hint written in the configuration file", "signature": "C10:toml-values",
                                       "case": {"rate_limit_section": {"capacity": cap, "refill_rate": rate, "retry_after": retry}},
                                       "trace": {"configuration_handed_to_the_limiter": [str(x) for x in got]}})
    finally:
        shutil.rmtree(tmp, ignore_errors=True)
