"""Drive the real GeminiClientProtocol / TitanClientProtocol with a recording transport under the
transport contract (no data after the client closed; an exception escaping data_received aborts
the connection with that exception) and produce the matching model cases."""
import asyncio, re
from common import *

CAP = 64   # MAX_RESPONSE_BODY_SIZE is substituted by this small value inside nauyaca.client.protocol

class RecTransport:
    def __init__(self, acts): self.acts = acts; self.closed = False
    def write(self, b): self.acts.append(["w", bytes(b)])
    def close(self): self.closed = True; self.acts.append(["c"])
    def is_closing(self): return self.closed
    def get_extra_info(self, name, default=None): return default

def classify(e):
    m = str(e)
    if isinstance(e, ConnectionError) and m.startswith("Connection closed before"): return "closed_before_header"
    if isinstance(e, ValueError) and not isinstance(e, UnicodeError):
        if m.startswith("Response header too long"): return "header_too_long"
        if m.startswith("Invalid status code"): return "invalid_status"
        if m.startswith("Status code out of range"): return "out_of_range"
        if m.startswith("Invalid response header: line break"): return "bad_meta"
    if isinstance(e, UnicodeDecodeError) and getattr(e, "_from_conn", False): return "conn:UnicodeDecodeError"
    if isinstance(e, (UnicodeError, LookupError, ValueError)) and getattr(e, "_from_conn", False) is False and not isinstance(e, InjectedReset):
        if m.startswith("Response body exceeds"): return "too_large"
        return "decode"
    if isinstance(e, InjectedReset): return "conn:" + e.label
    if m.startswith("Response body exceeds"): return "too_large"
    return "other:" + type(e).__name__

class InjectedReset(ConnectionResetError):
    def __init__(self, label): super().__init__(label); self.label = label

def fut_obs(fut):
    if not fut.done(): return ["pending"]
    e = fut.exception()
    if e is not None: return ["err", classify(e)]
    r = fut.result()
    b = r.body
    body = [] if b is None else (["t", b] if isinstance(b, str) else ["b", bytes(b)])
    return ["ok", r.status, r.meta, body]

def labels_in(meta):
    """candidate charset labels (superset of what the implementation may ask the codec machinery for)"""
    out = {"utf-8"}
    for part in meta.split(";"):
        if "=" in part:
            v = part.split("=", 1)[1]
            for cand in (v, v.strip(), v.strip().strip("\"'"), v.strip("\"'")):
                out.add(cand)
    return out

def decode_table(meta, bodies):
    t = []
    for lab in labels_in(meta):
        rows = []
        for b in bodies:
            try:
                rows.append([b, [b.decode(lab)]])
            except Exception:
                rows.append([b, []])
        t.append([lab, rows])
    return t

def call_lost(p, e, acts):
    """connection_lost as the event loop calls it: an exception escaping it is logged by asyncio and swallowed - the
    future then stays pending (observed as ["pending"]: the call never ends)"""
    try:
        p.connection_lost(e)
    except Exception as ex:
        acts.append(["escape", "lost:" + type(ex).__name__])

async def replay(kind, request, decode_body, chunks, exc_label, send_on_connect=True):
    import nauyaca.client.protocol as cp
    cp.MAX_RESPONSE_BODY_SIZE = CAP
    loop = asyncio.get_running_loop()
    fut = loop.create_future()
    acts = []
    if kind == "gemini":
        p = cp.GeminiClientProtocol(request[0], fut, decode_body=decode_body, send_on_connect=send_on_connect)
    else:
        p = cp.TitanClientProtocol(request[0], request[1], fut, send_on_connect=send_on_connect)
    tr = RecTransport(acts)
    per_event = []
    def mark():
        n = len(acts); return n
    m = mark(); p.connection_made(tr); per_event.append(acts[m:])
    events = [["connected"]]
    if not send_on_connect:
        m = mark(); p.send_request(); per_event.append(acts[m:]); events.append(["send"])
    delivered = b""
    lost_with = None; done = False
    for c in chunks:
        m = mark()
        try:
            p.data_received(c); delivered += c
        except Exception as e:
            delivered += c
            e._from_conn = True
            acts.append(["escape", "header_utf8" if isinstance(e, UnicodeDecodeError) else type(e).__name__])
            per_event.append(acts[m:]); events.append(["data", c])
            call_lost(p, e, acts); events.append(["lost", [type(e).__name__]]); per_event.append([])
            done = True; break
        per_event.append(acts[m:]); events.append(["data", c])
        if tr.closed:
            call_lost(p, None, acts); events.append(["lost", []]); per_event.append([]); done = True; break
    if not done:
        if exc_label:
            call_lost(p, InjectedReset(exc_label), acts); events.append(["lost", [exc_label]])
        else:
            call_lost(p, None, acts); events.append(["lost", []])
        per_event.append([])
    return fut_obs(fut), per_event, events, delivered
