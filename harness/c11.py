"""C11: nothing is sent before the certificate is verified (same histories as C03, judged by Spec.C11.ok)."""
from common import *
import c03

def store_fault_cases(res):
    """the trust store cannot be read when the certificate is to be verified (locked, table missing, I/O error): the
    verification has not succeeded, so no request byte may leave - for a pinned-different, a pinned-same (nothing proves it)
    and an unpinned host alike the call must fail without writing"""
    import asyncio, sqlite3, types
    from pathlib import Path
    import certs as certmod, clientdrv as cd
    import nauyaca.security.tofu as tofu
    from nauyaca.client.session import GeminiClient
    from nauyaca.security.tofu import TOFUDatabase
    cs = certmod.certs()
    tmp = scratch_dir("nv-c11f-")
    class BadCursor:
        rowcount = -1
        def execute(self, *a, **k): raise sqlite3.OperationalError("database is locked")
        def fetchone(self): raise sqlite3.OperationalError("database is locked")
        def fetchall(self): raise sqlite3.OperationalError("database is locked")
    class BadConn:
        row_factory = None
        def cursor(self): return BadCursor()
        def execute(self, *a, **k): raise sqlite3.OperationalError("database is locked")
        def commit(self): raise sqlite3.OperationalError("database is locked")
        def rollback(self): pass
        def close(self): pass
        def __enter__(self): return self
        def __exit__(self, *a): return False
    bad = types.SimpleNamespace(**{k: getattr(sqlite3, k) for k in dir(sqlite3) if not k.startswith("__")})
    bad.connect = lambda *a, **k: BadConn()
    try:
        async def go():
            loop = asyncio.get_running_loop()
            out = []
            for pinned, presented in ((0, 1), (0, 0), (None, 1)):
                for op in ("get", "upload", "delete"):
                    path = Path(tmp) / ("f%s%s%s.db" % (pinned, presented, op))
                    db = TOFUDatabase(path)
                    if pinned is not None: db.trust("a.example", 1965, cs[pinned]["cert"])
                    client = GeminiClient(timeout=1.0, trust_on_first_use=True, tofu_db_path=path)
                    trace = []
                    tofu.sqlite3 = bad
                    try:
                        result = await c03.one_call(loop, client, op, "gemini://a.example/p?q=1", c03.Peer(cs[presented]["der"], [b"20 text/plain\r\nhi"], None),
                                                    trace, b"secret content", "tok3n", referee_verdict=["refused"])
                    finally:
                        tofu.sqlite3 = sqlite3
                    out.append((pinned, presented, op, result, trace))
            return out
        for pinned, presented, op, result, trace in asyncio.run(go()):
            res.evaluations += 1; res.count("store-fault-at-verification")
            res.nontriv(("store-fault", pinned, presented, op))
            writes = [e for e in trace if e[0] == "w" and e[1] != b""]
            if writes or result[0] == "result" and result[1][0] == "ok":
                res.violations.append({"clause": "no request byte leaves when the pin could not be checked (trust store unreadable)",
                                       "signature": "C11:store-fault:" + op,
                                       "case": {"operation": op, "pinned_certificate": pinned, "presented_certificate": presented,
                                                "fault": "every statement on the trust store raises sqlite3.OperationalError('database is locked')"},
                                       "trace": {"result": str(result)[:200], "bytes_written_to_the_peer": [w[1][:80].decode("latin-1") for w in writes]}})
    finally:
        tofu.sqlite3 = sqlite3
        shutil.rmtree(tmp, ignore_errors=True)

def run(tier, seed):
    res = Result()
    res.rule = ("every TOFU situation (unpinned / pinned-same / pinned-different / unreadable certificate) x get / upload (token, content) / delete; the fake peer "
                "records every byte and the position of the verification; non-trivial = distinct (store, host:port, presented, operation)")
    recs = c03.run_histories(tier, seed + 11, tofu_modes=(True, True, True, False))
    c03.judge(recs, res, "C11", ["C11.ok"])
    store_fault_cases(res)
    res.rule += " | plus pin-store faults at verification time (every statement raises sqlite3.OperationalError): whatever the call reports, nothing may be written to a peer whose certificate differs from the pin / cannot be read / was never verified"
    # over a real TLS handshake: pin certificate A, then the same host:port presents certificate B (get and upload)
    import livepair
    livepair.run_cert_change(res, tier)
    res.rule += " | plus, over real loopback TLS: a fetch pins certificate A, then a recording server presents certificate B on the same port: get and upload must fail 'changed' and the server must receive no application byte"
    return res
