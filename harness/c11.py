"""C11: nothing is sent before the certificate is verified (same histories as C03, judged by Spec.C11.ok)."""
from common import *
import c03

def run(tier, seed):
    res = Result()
    res.rule = ("every TOFU situation (unpinned / pinned-same / pinned-different / unreadable certificate) x get / upload (token, content) / delete; the fake peer "
                "records every byte and the position of the verification; non-trivial = distinct (store, host:port, presented, operation)")
    recs = c03.run_histories(tier, seed + 11, tofu_modes=(True, True, True, False))
    c03.judge(recs, res, "C11", ["C11.ok"])
    # over a real TLS handshake: pin certificate A, then the same host:port presents certificate B (get and upload)
    import livepair
    livepair.run_cert_change(res, tier)
    res.rule += " | plus, over real loopback TLS: a fetch pins certificate A, then a recording server presents certificate B on the same port: get and upload must fail 'changed' and the server must receive no application byte"
    return res
