"""C11: nothing is sent before the certificate is verified (same histories as C03, judged by Spec.C11.ok)."""
from common import *
import c03

def run(tier, seed):
    res = Result()
    res.rule = ("every TOFU situation (unpinned / pinned-same / pinned-different / unreadable certificate) x get / upload (token, content) / delete; the fake peer "
                "records every byte and the position of the verification; non-trivial = distinct (store, host:port, presented, operation)")
    recs = c03.run_histories(tier, seed + 11, tofu_modes=(True, True, True, False))
    c03.judge(recs, res, "C11", ["C11.ok"])
    return res
