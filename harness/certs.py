"""Throw-away certificates of several key types (generated once per process with `cryptography`);
fingerprints computed independently with hashlib over the DER encoding."""
import hashlib, datetime

_CERTS = None
def certs():
    """list of dicts: name, cert (cryptography object), der, fp, pem, key_pem"""
    global _CERTS
    if _CERTS is None:
        from cryptography import x509
        from cryptography.x509.oid import NameOID
        from cryptography.hazmat.primitives import hashes, serialization
        from cryptography.hazmat.primitives.asymmetric import rsa, ec, ed25519
        out = []
        for name, key in (("rsa", rsa.generate_private_key(public_exponent=65537, key_size=2048)),
                          ("ec", ec.generate_private_key(ec.SECP256R1())),
                          ("ed25519", ed25519.Ed25519PrivateKey.generate()),
                          ("rsa2", rsa.generate_private_key(public_exponent=65537, key_size=2048))):
            subj = x509.Name([x509.NameAttribute(NameOID.COMMON_NAME, "nv-" + name)])
            now = datetime.datetime.now(datetime.timezone.utc)
            b = (x509.CertificateBuilder().subject_name(subj).issuer_name(subj).public_key(key.public_key())
                 .serial_number(x509.random_serial_number()).not_valid_before(now - datetime.timedelta(days=1))
                 .not_valid_after(now + datetime.timedelta(days=30)))
            cert = b.sign(key, None if name == "ed25519" else hashes.SHA256())
            der = cert.public_bytes(serialization.Encoding.DER)
            out.append({"name": name, "cert": cert, "der": der, "fp": "sha256:" + hashlib.sha256(der).hexdigest(),
                        "pem": cert.public_bytes(serialization.Encoding.PEM),
                        "key_pem": key.private_bytes(serialization.Encoding.PEM, serialization.PrivateFormat.PKCS8, serialization.NoEncryption())})
        # two look-alikes: same issuer, subject, serial number and validity, different keys (hence different DER / fingerprints):
        # whatever caches by "issuer + serial" confuses them
        twin_name = x509.Name([x509.NameAttribute(NameOID.COMMON_NAME, "nv-twin")])
        t0 = datetime.datetime(2026, 1, 1, tzinfo=datetime.timezone.utc)
        for i in range(2):
            key = ec.generate_private_key(ec.SECP256R1())
            cert = (x509.CertificateBuilder().subject_name(twin_name).issuer_name(twin_name).public_key(key.public_key()).serial_number(4096)
                    .not_valid_before(t0).not_valid_after(t0 + datetime.timedelta(days=3650)).sign(key, hashes.SHA256()))
            der = cert.public_bytes(serialization.Encoding.DER)
            out.append({"name": "twin%d" % i, "cert": cert, "der": der, "fp": "sha256:" + hashlib.sha256(der).hexdigest(),
                        "pem": cert.public_bytes(serialization.Encoding.PEM),
                        "key_pem": key.private_bytes(serialization.Encoding.PEM, serialization.PrivateFormat.PKCS8, serialization.NoEncryption())})
        # certificates outside their validity period (expired a year ago / not valid for another year): TOFU pins the certificate,
        # not its dates - a pin mismatch is a pin mismatch whatever else is wrong with the certificate presented
        now = datetime.datetime.now(datetime.timezone.utc)
        for nm, nb, na in (("expired", now - datetime.timedelta(days=800), now - datetime.timedelta(days=365)),
                           ("notyet", now + datetime.timedelta(days=365), now + datetime.timedelta(days=800))):
            key = ec.generate_private_key(ec.SECP256R1())
            subj = x509.Name([x509.NameAttribute(NameOID.COMMON_NAME, "nv-" + nm)])
            cert = (x509.CertificateBuilder().subject_name(subj).issuer_name(subj).public_key(key.public_key()).serial_number(x509.random_serial_number())
                    .not_valid_before(nb).not_valid_after(na).sign(key, hashes.SHA256()))
            der = cert.public_bytes(serialization.Encoding.DER)
            out.append({"name": nm, "cert": cert, "der": der, "fp": "sha256:" + hashlib.sha256(der).hexdigest(),
                        "pem": cert.public_bytes(serialization.Encoding.PEM),
                        "key_pem": key.private_bytes(serialization.Encoding.PEM, serialization.PrivateFormat.PKCS8, serialization.NoEncryption())})
        _CERTS = out
    return _CERTS

# DER blobs that a TLS stack may hand over but cryptography's X.509 parser rejects
UNPARSABLE_DER = [b"\x30\x03\x01\x01\x07", b"", b"\x30\x82\x01\x00" + b"\x00" * 16, b"not der at all"]
