"""C20: (1) regenerate the TLS-context summary from the current source and re-check the Coq theorem over it;
(2) version matrix in memory: permissive peers (security level 0) offering at most TLS 1.0 / 1.1 / 1.2 / 1.3 against every
server context nauyaca builds (stdlib and PyOpenSSL, supplied and self-signed) and against its client contexts, each with a
control peer showing the old version is otherwise negotiable; (3) plaintext and random bytes sent to both TLS layers."""
import asyncio, ssl, subprocess
from common import *
import tlsmem
from OpenSSL import SSL

def pre_props():
    """called by check.py before Props/C20.v is compiled: regenerate and compile Gen/TlsConfigGen.v"""
    rc = subprocess.run(["python3", os.path.join(VERIF, "translate", "tlsconf.py"), os.path.join(VERIF, "coq", "Gen", "TlsConfigGen.v")], capture_output=True, text=True)
    if rc.returncode != 0:
        return False, "translator refused the source: " + rc.stdout[-500:] + rc.stderr[-500:]
    rc = subprocess.run("timeout 300 coqc -Q . NV Gen/TlsConfigGen.v", shell=True, cwd=os.path.join(VERIF, "coq"), capture_output=True, text=True)
    if rc.returncode != 0:
        return False, "generated file does not compile: " + (rc.stdout + rc.stderr)[-800:]
    return True, open(os.path.join(VERIF, "coq", "Gen", "TlsConfigGen.v")).read()

STD_V = {"1.0": ssl.TLSVersion.TLSv1, "1.1": ssl.TLSVersion.TLSv1_1, "1.2": ssl.TLSVersion.TLSv1_2, "1.3": ssl.TLSVersion.TLSv1_3}
PYO_V = {"1.0": SSL.TLS1_VERSION, "1.1": SSL.TLS1_1_VERSION, "1.2": SSL.TLS1_2_VERSION, "1.3": SSL.TLS1_3_VERSION}
ORDER = ["1.0", "1.1", "1.2", "1.3"]

def std_pair(server_ctx, client_ctx):
    """in-memory handshake between two stdlib contexts -> negotiated version string or None"""
    sin, sout, cin, cout = ssl.MemoryBIO(), ssl.MemoryBIO(), ssl.MemoryBIO(), ssl.MemoryBIO()
    s = server_ctx.wrap_bio(sin, sout, server_side=True)
    c = client_ctx.wrap_bio(cin, cout, server_side=False)
    sd = cd = False
    for _ in range(20):
        if not cd:
            try: c.do_handshake(); cd = True
            except ssl.SSLWantReadError: pass
            except ssl.SSLError: return None
        d = cout.read()
        if d: sin.write(d)
        if not sd:
            try: s.do_handshake(); sd = True
            except ssl.SSLWantReadError: pass
            except ssl.SSLError: return None
        d = sout.read()
        if d: cin.write(d)
        if sd and cd: return c.version()
    return None

def permissive_std(server, maxv, certfiles=None):
    ctx = ssl.SSLContext(ssl.PROTOCOL_TLS_SERVER if server else ssl.PROTOCOL_TLS_CLIENT)
    ctx.set_ciphers("ALL:@SECLEVEL=0")
    ctx.minimum_version = ssl.TLSVersion.MINIMUM_SUPPORTED
    ctx.maximum_version = STD_V[maxv]
    if server: ctx.load_cert_chain(*certfiles)
    else: ctx.check_hostname = False; ctx.verify_mode = ssl.CERT_NONE
    return ctx

def pyo_vs_client(sctx_factory, maxv):
    """PyOpenSSL server side (through nauyaca's TLSServerProtocol) against a permissive PyOpenSSL client capped at maxv"""
    from nauyaca.server.protocol import GeminiServerProtocol
    from nauyaca.protocol.response import GeminiResponse
    invoked = []
    def handler(req): invoked.append(req.raw_url); return GeminiResponse(20, "text/plain", "x")
    async def go():
        cctx = SSL.Context(SSL.TLS_CLIENT_METHOD); cctx.set_verify(SSL.VERIFY_NONE, lambda *a: True)
        cctx.set_cipher_list(b"ALL:@SECLEVEL=0"); cctx.set_min_proto_version(SSL.TLS1_VERSION); cctx.set_max_proto_version(PYO_V[maxv])
        pair = tlsmem.Pair(lambda: GeminiServerProtocol(handler), cctx=cctx) if sctx_factory is None else None
        ok = False
        try: ok = pair.handshake()
        except SSL.Error: ok = False
        ver = pair.client.get_protocol_version_name() if ok else None
        made = pair.server.inner_protocol is not None
        if made and pair.server.inner_protocol.timeout_handle: pair.server.inner_protocol.timeout_handle.cancel()
        if hasattr(pair.server, "_cancel_handshake_timer"): pair.server._cancel_handshake_timer()
        return ver, made
    return asyncio.run(go())

def run(tier, seed):
    setup_impl()
    from nauyaca.security.tls import create_server_context, create_client_context
    from nauyaca.security.certificates import generate_self_signed_cert
    import nauyaca.server.server as srv
    rng = random.Random(seed)
    res = Result()
    res.rule = ("peers capped at TLS 1.0/1.1/1.2/1.3 (cipher list ALL:@SECLEVEL=0) x {stdlib supplied cert, stdlib self-signed, PyOpenSSL} server contexts and {TOFU, CA} client contexts, "
                "each cell with a permissive control peer; plaintext request lines and random bytes into both TLS layers; non-trivial = distinct matrix cell")
    tmp = scratch_dir("nv-c20-")
    try:
        cert, key = generate_self_signed_cert(hostname="localhost", key_size=2048, valid_days=5)
        cf, kf = os.path.join(tmp, "c.pem"), os.path.join(tmp, "k.pem")
        open(cf, "wb").write(cert); open(kf, "wb").write(key)
        import io, contextlib
        _buf = io.StringIO()
        with contextlib.redirect_stdout(_buf):
            self_signed = srv._create_self_signed_context(request_client_cert=False)
        import re as _re
        for _f in _re.findall(r"(?:Certificate|Key): (\S+)", _buf.getvalue()):
            try: os.unlink(_f)
            except OSError: pass
        servers = {"stdlib-supplied": create_server_context(cf, kf), "stdlib-selfsigned": self_signed}
        clients = {"client-tofu": create_client_context(verify_mode=ssl.CERT_NONE, check_hostname=False),
                   "client-ca": create_client_context(verify_mode=ssl.CERT_REQUIRED, check_hostname=True)}
        clients["client-ca"].load_verify_locations(cf)
        # identities OpenSSL's default security level refuses (RSA-1024; SHA-1 signature): building the context must fail
        # (no service at all) - if a context comes back nevertheless, it joins the matrix like the others
        try:
            from cryptography import x509 as _x
            from cryptography.x509.oid import NameOID as _N
            from cryptography.hazmat.primitives import hashes as _h, serialization as _s
            from cryptography.hazmat.primitives.asymmetric import rsa as _rsa
            import datetime as _dt
            for label, bits, digest in (("rsa1024", 1024, _h.SHA256()), ("rsa2048-sha1", 2048, _h.SHA1())):
                k_ = _rsa.generate_private_key(public_exponent=65537, key_size=bits)
                nm_ = _x.Name([_x.NameAttribute(_N.COMMON_NAME, "localhost")])
                now_ = _dt.datetime.now(_dt.timezone.utc)
                try:
                    c_ = (_x.CertificateBuilder().subject_name(nm_).issuer_name(nm_).public_key(k_.public_key()).serial_number(_x.random_serial_number())
                          .not_valid_before(now_ - _dt.timedelta(days=1)).not_valid_after(now_ + _dt.timedelta(days=30)).sign(k_, digest))
                except Exception:
                    continue            # this cryptography build refuses to sign with that digest
                wc, wk = os.path.join(tmp, label + ".pem"), os.path.join(tmp, label + ".key")
                open(wc, "wb").write(c_.public_bytes(_s.Encoding.PEM))
                open(wk, "wb").write(k_.private_bytes(_s.Encoding.PEM, _s.PrivateFormat.TraditionalOpenSSL, _s.NoEncryption()))
                try:
                    servers["stdlib-weak-" + label] = create_server_context(wc, wk)
                    res.count("weak-identity-accepted:" + label)
                except Exception:
                    res.count("weak-identity-refused:" + label)
        except ImportError:
            pass
        def expect(maxv): return ORDER.index(maxv) >= ORDER.index("1.2")
        cells = []
        for maxv in ORDER:
            control = std_pair(permissive_std(True, "1.3", (cf, kf)), permissive_std(False, maxv))
            for name, sctx in servers.items():
                got = std_pair(sctx, permissive_std(False, maxv))
                cells.append((name, maxv, got, control))
            ver, made = pyo_vs_client(None, maxv)
            cells.append(("pyopenssl", maxv, ver, control))
            if (ver is None) == made and not (ver is None and not made):
                pass
            if ver is None and made:
                res.violations.append({"clause": "inner-protocol-without-handshake", "signature": "C20:gate", "case": {"peer_max": maxv}, "trace": {}})
            control_s = std_pair(permissive_std(True, maxv, (cf, kf)), permissive_std(False, "1.3"))
            for name, cctx in clients.items():
                sc = permissive_std(True, maxv, (cf, kf))
                sin, sout = None, None
                got = std_pair(sc, cctx) if name == "client-tofu" else std_pair_hostname(sc, cctx)
                cells.append((name, maxv, got, control_s))
        for name, maxv, got, control in cells:
            res.evaluations += 1
            res.nontriv((name, maxv))
            res.count("%s:max%s:%s" % (name, maxv, got or "refused"))
            res.count("control:max%s:%s" % (maxv, control or "not-negotiable-on-this-openssl"))
            should = expect(maxv)
            if got is not None and not should:
                res.violations.append({"clause": "handshake-below-TLS1.2-completed", "signature": "C20:%s:%s" % (name, maxv),
                                       "case": {"context": name, "peer_max_version": maxv}, "trace": {"negotiated": got, "control": control}})
            if got is None and should and not name.startswith("stdlib-weak-"):
                res.disagreements.append({"driver": "tls-matrix", "case": {"context": name, "peer_max_version": maxv}, "model": "negotiates", "impl": "refused"})
        res.sample({"matrix": [[n, m, g] for n, m, g, c in cells][:8]})
        # ---- plaintext / random bytes into the TLS layers
        from nauyaca.server.protocol import GeminiServerProtocol
        from nauyaca.protocol.response import GeminiResponse
        from asyncio import sslproto
        # (fragments shorter than a TLS record header cannot be rejected at once: the peer then stays silent until the handshake
        #  timer fires - what the timer's callback writes is part of what "bytes sent without TLS" elicit)
        inputs = [b"gemini://localhost/\r\n", b"titan://localhost/x;size=1\r\na", b"GET / HTTP/1.0\r\n\r\n", b"\x16\x03\x01\x00\x05hello", b"\x00" * 100,
                  b"", b"g", b"gem", b"gemi", b"\x16", b"\x16\x03\x01", b"\x16\x03\x01\x00", b"\x16\x03\x01\x02\x00\x01\x00"] + \
                 [bytes(rng.randrange(256) for _ in range(rng.randint(1, 300))) for _ in range(20 if tier == "quick" else 300)]
        async def plain(data, backend):
            invoked = []
            def handler(req): invoked.append(1); return GeminiResponse(20, "text/plain", "x")
            tcp = tlsmem.MemTCP()
            loop = asyncio.get_running_loop()
            errs = []
            old = loop.get_exception_handler(); loop.set_exception_handler(lambda l, c: errs.append(c))
            try:
                if backend == "pyopenssl":
                    from nauyaca.server.tls_protocol import TLSServerProtocol
                    p = TLSServerProtocol(lambda: GeminiServerProtocol(handler), tlsmem.server_ctx(True))
                    timers = []
                    real_call_later = loop.call_later
                    def spy(delay, cb, *a, **k):
                        h = real_call_later(delay, cb, *a, **k); timers.append(h); return h
                    loop.call_later = spy
                    try:
                        p.connection_made(tcp)
                        if data: p.data_received(data)
                        # the peer says nothing more: every timer the TLS layer has armed expires
                        for h in list(timers):
                            if not h.cancelled() and not tcp.closed: h._run()
                    finally:
                        del loop.call_later
                    for h in timers: h.cancel()
                    made = p.inner_protocol is not None
                    if hasattr(p, "_cancel_handshake_timer"): p._cancel_handshake_timer()
                else:
                    app = GeminiServerProtocol(handler)
                    sp = sslproto.SSLProtocol(loop, app, servers["stdlib-supplied"], loop.create_future(), server_side=True)
                    sp.connection_made(tcp)
                    buf = sp.get_buffer(len(data)); buf[: len(data)] = data; sp.buffer_updated(len(data))
                    for _ in range(5): await asyncio.sleep(0)
                    made = app.transport is not None
                    if app.timeout_handle: app.timeout_handle.cancel()
                    try: sp._abort(None)
                    except Exception: pass
            finally:
                loop.set_exception_handler(old)
            out = bytes(tcp.out)
            looks_gemini = len(out) >= 3 and out[:2].isdigit() and out[2:3] == b" "
            return made, bool(invoked), looks_gemini
        async def all_plain():
            return [(d, b, await plain(d, b)) for d in inputs for b in ("pyopenssl", "stdlib")]
        for d, b, (made, invoked, looks) in asyncio.run(all_plain()):
            res.evaluations += 1; res.count("plaintext:" + b)
            if made or invoked or looks:
                res.violations.append({"clause": "plaintext-reached-the-protocol", "signature": "C20:plaintext:" + b,
                                       "case": {"backend": b, "bytes": d.hex()[:120]}, "trace": {"inner_protocol_created": made, "handler_invoked": invoked, "gemini_like_reply": looks}})
        live_servers(res, tmp, cf, kf)
        client_session_cases(res, tmp, cf, kf)
    finally:
        shutil.rmtree(tmp, ignore_errors=True)
    import livetls
    livetls.run_unusable_certificate(res, tier)
    res.rule += " | plus start_server with a key that does not belong to the certificate (both backends): nothing may answer a plaintext request"
    return res

def client_session_cases(res, tmp, cf, kf):
    """ "the client never completes one with a server that offers less" - through GeminiClient itself, not only through a freshly
    built context: a host is visited and pinned over a modern handshake; the same host:port (same certificate) then offers at most
    TLS 1.1 / 1.0 from a permissive stack.  Every further call - same client object, and a new one on the same trust store, get and
    upload, TOFU on and off - must fail, and the old-version server must not see a completed handshake."""
    import socket, threading, time
    from pathlib import Path
    from nauyaca.client.session import GeminiClient
    class Srv(threading.Thread):
        def __init__(self, port, ctx):
            super().__init__(daemon=True)
            self.ctx = ctx; self.sock = socket.socket(); self.sock.setsockopt(socket.SOL_SOCKET, socket.SO_REUSEADDR, 1)
            self.sock.bind(("127.0.0.1", port)); self.sock.listen(8); self.sock.settimeout(0.2)
            self.versions = []; self.halt = False
        def run(self):
            while not self.halt:
                try: conn, _ = self.sock.accept()
                except socket.timeout: continue
                except OSError: break
                try:
                    conn.settimeout(1.5)
                    tls = self.ctx.wrap_socket(conn, server_side=True)
                    self.versions.append(tls.version())
                    try:
                        data = b""
                        while b"\r\n" not in data:
                            ch = tls.recv(4096)
                            if not ch: break
                            data += ch
                        if b"\r\n" in data: tls.sendall(b"20 text/plain\r\nserved")
                    except (OSError, ssl.SSLError): pass
                    try: tls.close()
                    except OSError: pass
                except (ssl.SSLError, OSError):
                    try: conn.close()
                    except OSError: pass
        def stop(self):
            self.halt = True
            try: self.sock.close()
            except OSError: pass
    def call(client, op, port):
        async def go():
            url = "gemini://localhost:%d/x" % port
            try:
                r = await (client.get(url, follow_redirects=False) if op == "get" else client.upload(url, b"data", mime_type="text/plain"))
                return ["ok", r.status]
            except Exception as e:
                return ["error", type(e).__name__]
        return asyncio.run(go())
    modern = ssl.SSLContext(ssl.PROTOCOL_TLS_SERVER); modern.load_cert_chain(cf, kf)
    for maxv in ("1.1", "1.0"):
        for tofu in (True, False):
            s = socket.socket(); s.bind(("127.0.0.1", 0)); port = s.getsockname()[1]; s.close()
            db = Path(tmp) / ("sess-%s-%s.db" % (maxv, tofu))
            client = GeminiClient(timeout=4.0, trust_on_first_use=tofu, tofu_db_path=db if tofu else None)
            s1 = Srv(port, modern); s1.start()
            first = call(client, "get", port); s1.stop(); s1.join(2); time.sleep(0.1)
            s2 = Srv(port, permissive_std(True, maxv, (cf, kf))); s2.start()
            outs = [("same client, get", call(client, "get", port)), ("same client, upload", call(client, "upload", port)), ("same client, get again", call(client, "get", port))]
            fresh = GeminiClient(timeout=4.0, trust_on_first_use=tofu, tofu_db_path=db if tofu else None)
            outs.append(("new client on the same trust store, get", call(fresh, "get", port)))
            time.sleep(0.2); s2.stop(); s2.join(2)
            res.evaluations += 1; res.count("client-session:" + maxv); res.nontriv(("client-session", maxv, tofu))
            if first != ["ok", 20] or any(o[0] == "ok" for _, o in outs) or s2.versions:
                res.violations.append({"clause": "the client never completes a handshake with a server that offers less than TLS 1.2 (through GeminiClient, host visited before)",
                                       "signature": "C20:client-session",
                                       "case": {"trust_on_first_use": tofu, "server_offers_at_most": "TLS " + maxv, "history": "one fetch over a modern handshake first (pins the host), then the same host:port and certificate offer only old versions"},
                                       "trace": {"first_fetch": first, "later_calls": [[n, o] for n, o in outs], "handshakes_completed_by_the_old_server": s2.versions}})

def live_servers(res, tmp, cf, kf):
    """start_server() itself, in its four TLS configurations, on a loopback port: a TLS client must be served, a client capped at
    TLS 1.1 (security level 0) must be refused, and plaintext must get no Gemini response"""
    import socket, io, contextlib, re
    from pathlib import Path
    from nauyaca.server.config import ServerConfig
    from nauyaca.server.server import start_server
    root = os.path.join(tmp, "docroot"); os.makedirs(root, exist_ok=True)
    open(os.path.join(root, "index.gmi"), "w").write("# live\n")
    leftovers = []
    async def probe(port):
        out = {}
        # 1. proper TLS client
        cctx = ssl.SSLContext(ssl.PROTOCOL_TLS_CLIENT); cctx.check_hostname = False; cctx.verify_mode = ssl.CERT_NONE
        try:
            r, w = await asyncio.wait_for(asyncio.open_connection("127.0.0.1", port, ssl=cctx), 5)
            w.write(b"gemini://localhost/\r\n"); await w.drain()
            data = await asyncio.wait_for(r.read(200), 5)
            out["tls"] = (w.get_extra_info("ssl_object").version(), data[:2])
            w.close()
        except Exception as e:
            out["tls"] = ("error", type(e).__name__)
        # 2. old TLS
        octx = permissive_std(False, "1.1")
        try:
            r, w = await asyncio.wait_for(asyncio.open_connection("127.0.0.1", port, ssl=octx), 5)
            out["old"] = w.get_extra_info("ssl_object").version(); w.close()
        except Exception as e:
            out["old"] = None
        # 3. plaintext
        try:
            r, w = await asyncio.wait_for(asyncio.open_connection("127.0.0.1", port), 5)
            w.write(b"gemini://localhost/\r\n"); await w.drain()
            try: data = await asyncio.wait_for(r.read(200), 1.5)
            except asyncio.TimeoutError: data = b""
            out["plain"] = data
            w.close()
        except Exception as e:
            out["plain"] = b""
        return out
    async def go():
        results = []
        for supplied in (True, False):
            for client_cert in (False, True):
                s = socket.socket(); s.bind(("127.0.0.1", 0)); port = s.getsockname()[1]; s.close()
                cfg = ServerConfig(host="127.0.0.1", port=port, document_root=root, certfile=cf if supplied else None, keyfile=kf if supplied else None,
                                   require_client_cert=client_cert)
                buf = io.StringIO()
                with contextlib.redirect_stdout(buf):
                    task = asyncio.ensure_future(start_server(cfg, enable_rate_limiting=False, log_level="CRITICAL"))
                    for _ in range(100):
                        await asyncio.sleep(0.05)
                        if task.done(): break
                        try:
                            c = socket.create_connection(("127.0.0.1", port), timeout=0.2); c.close(); break
                        except OSError: pass
                    out = await probe(port) if not task.done() else {"startup": repr(task.exception())}
                    task.cancel()
                    try: await task
                    except BaseException: pass
                leftovers.extend(re.findall(r"(?:Certificate|Key): (\S+)", buf.getvalue()))
                results.append(((supplied, client_cert), out))
        return results
    try:
        results = asyncio.run(go())
    finally:
        for f in leftovers:
            try: os.unlink(f)
            except OSError: pass
        import logging; logging.disable(logging.CRITICAL)
    for (supplied, client_cert), out in results:
        res.evaluations += 1; res.nontriv(("live", supplied, client_cert)); res.count("live:supplied=%s:clientcert=%s" % (supplied, client_cert))
        case = {"certificate": "supplied" if supplied else "auto-generated", "client_certificates_requested": client_cert}
        if "startup" in out:
            res.disagreements.append({"driver": "live-start_server", "case": case, "model": "starts", "impl": out["startup"]}); continue
        plain = out["plain"]
        if len(plain) >= 3 and plain[:2].isdigit() and plain[2:3] == b" ":
            res.violations.append({"clause": "plaintext-answered", "signature": "C20:live-plaintext", "case": case, "trace": {"reply": plain[:80].decode("latin-1")}})
        if out["old"] is not None:
            res.violations.append({"clause": "handshake-below-TLS1.2-completed", "signature": "C20:live-old", "case": case, "trace": {"negotiated": out["old"]}})
        if out["tls"][0] not in ("TLSv1.2", "TLSv1.3"):
            res.disagreements.append({"driver": "live-start_server", "case": case, "model": "serves TLS >= 1.2", "impl": str(out["tls"])})

def std_pair_hostname(server_ctx, client_ctx):
    sin, sout, cin, cout = ssl.MemoryBIO(), ssl.MemoryBIO(), ssl.MemoryBIO(), ssl.MemoryBIO()
    s = server_ctx.wrap_bio(sin, sout, server_side=True)
    c = client_ctx.wrap_bio(cin, cout, server_side=False, server_hostname="localhost")
    sd = cd = False
    for _ in range(20):
        if not cd:
            try: c.do_handshake(); cd = True
            except ssl.SSLWantReadError: pass
            except ssl.SSLError: return None
        d = cout.read()
        if d: sin.write(d)
        if not sd:
            try: s.do_handshake(); sd = True
            except ssl.SSLWantReadError: pass
            except ssl.SSLError: return None
        d = sout.read()
        if d: cin.write(d)
        if sd and cd: return c.version()
    return None
