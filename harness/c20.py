"""C20: (1) regenerate the TLS-context summary from the current source and re-check the Coq theorem over it;
(2) version matrix in memory: permissive peers (security level 0) offering at most TLS 1.0 / 1.1 / 1.2 / 1.3 against every
server context nauyaca builds (stdlib and PyOpenSSL, supplied and self-signed) and against its client contexts, each with a
control peer showing the old version is otherwise negotiable; (3) plaintext and random bytes sent to both TLS layers."""
import asyncio, ssl, subprocess
from common import *
import tlsmem
from OpenSSL import SSL

def pre_props():
    """called by check.py before Props/C20.v is compiled: regenerate and compile Gen/TlsConfigGen.v"""
    rc = subprocess.run(["python3", os.path.join(VERIF, "translate", "tlsconf.py")], capture_output=True, text=True)
    if rc.returncode != 0:
        return False, "translator refused the source: " + rc.stdout[-500:] + rc.stderr[-500:]
    rc = subprocess.run("timeout 300 coqc -Q . NV Gen/TlsConfigGen.v", shell=True, cwd=os.path.join(VERIF, "coq"), capture_output=True, text=True)
    if rc.returncode != 0:
        return False, "generated file does not compile: " + (rc.stdout + rc.stderr)[-800:]
    return True, open(os.path.join(VERIF, "coq", "Gen", "TlsConfigGen.v")).read()

STD_V = {"1.0": ssl.TLSVersion.TLSv1, "1.1": ssl.TLSVersion.TLSv1_1, "1.2": ssl.TLSVersion.TLSv1_2, "1.3": ssl.TLSVersion.TLSv1_3}
PYO_V = {"1.0": SSL.TLS1_VERSION, "1.1": SSL.TLS1_1_VERSION, "1.2": SSL.TLS1_2_VERSION, "1.3": SSL.TLS1_3_VERSION}
ORDER = ["1.0", "1.1", "1.2", "1.3"]

def std_pair(server_ctx, client_ctx):
    """in-memory handshake between two stdlib contexts -> negotiated version string or None"""
    sin, sout, cin, cout = ssl.MemoryBIO(), ssl.MemoryBIO(), ssl.MemoryBIO(), ssl.MemoryBIO()
    s = server_ctx.wrap_bio(sin, sout, server_side=True)
    c = client_ctx.wrap_bio(cin, cout, server_side=False)
    sd = cd = False
    for _ in range(20):
        if not cd:
            try: c.do_handshake(); cd = True
            except ssl.SSLWantReadError: pass
            except ssl.SSLError: return None
        d = cout.read()
        if d: sin.write(d)
        if not sd:
            try: s.do_handshake(); sd = True
            except ssl.SSLWantReadError: pass
            except ssl.SSLError: return None
        d = sout.read()
        if d: cin.write(d)
        if sd and cd: return c.version()
    return None

def permissive_std(server, maxv, certfiles=None):
    ctx = ssl.SSLContext(ssl.PROTOCOL_TLS_SERVER if server else ssl.PROTOCOL_TLS_CLIENT)
    ctx.set_ciphers("ALL:@SECLEVEL=0")
    ctx.minimum_version = ssl.TLSVersion.MINIMUM_SUPPORTED
    ctx.maximum_version = STD_V[maxv]
    if server: ctx.load_cert_chain(*certfiles)
    else: ctx.check_hostname = False; ctx.verify_mode = ssl.CERT_NONE
    return ctx

def pyo_vs_client(sctx_factory, maxv):
    """PyOpenSSL server side (through nauyaca's TLSServerProtocol) against a permissive PyOpenSSL client capped at maxv"""
    from nauyaca.server.protocol import GeminiServerProtocol
    from nauyaca.protocol.response import GeminiResponse
    invoked = []
    def handler(req): invoked.append(req.raw_url); return GeminiResponse(20, "text/plain", "x")
    async def go():
        cctx = SSL.Context(SSL.TLS_CLIENT_METHOD); cctx.set_verify(SSL.VERIFY_NONE, lambda *a: True)
        cctx.set_cipher_list(b"ALL:@SECLEVEL=0"); cctx.set_min_proto_version(SSL.TLS1_VERSION); cctx.set_max_proto_version(PYO_V[maxv])
        pair = tlsmem.Pair(lambda: GeminiServerProtocol(handler), cctx=cctx) if sctx_factory is None else None
        ok = False
        try: ok = pair.handshake()
        except SSL.Error: ok = False
        ver = pair.client.get_protocol_version_name() if ok else None
        made = pair.server.inner_protocol is not None
        if made and pair.server.inner_protocol.timeout_handle: pair.server.inner_protocol.timeout_handle.cancel()
        if hasattr(pair.server, "_cancel_handshake_timer"): pair.server._cancel_handshake_timer()
        return ver, made
    return asyncio.run(go())

def run(tier, seed):
    setup_impl()
    from nauyaca.security.tls import create_server_context, create_client_context
    from nauyaca.security.certificates import generate_self_signed_cert
    import nauyaca.server.server as srv
    rng = random.Random(seed)
    res = Result()
    res.rule = ("peers capped at TLS 1.0/1.1/1.2/1.3 (cipher list ALL:@SECLEVEL=0) x {stdlib supplied cert, stdlib self-signed, PyOpenSSL} server contexts and {TOFU, CA} client contexts, "
                "each cell with a permissive control peer; plaintext request lines and random bytes into both TLS layers; non-trivial = distinct matrix cell")
    tmp = scratch_dir("nv-c20-")
    try:
        cert, key = generate_self_signed_cert(hostname="localhost", key_size=2048, valid_days=5)
        cf, kf = os.path.join(tmp, "c.pem"), os.path.join(tmp, "k.pem")
        open(cf, "wb").write(cert); open(kf, "wb").write(key)
        import io, contextlib
        with contextlib.redirect_stdout(io.StringIO()):
            self_signed = srv._create_self_signed_context(request_client_cert=False)
        servers = {"stdlib-supplied": create_server_context(cf, kf), "stdlib-selfsigned": self_signed}
        clients = {"client-tofu": create_client_context(verify_mode=ssl.CERT_NONE, check_hostname=False),
                   "client-ca": create_client_context(verify_mode=ssl.CERT_REQUIRED, check_hostname=True)}
        clients["client-ca"].load_verify_locations(cf)
        def expect(maxv): return ORDER.index(maxv) >= ORDER.index("1.2")
        cells = []
        for maxv in ORDER:
            control = std_pair(permissive_std(True, "1.3", (cf, kf)), permissive_std(False, maxv))
            for name, sctx in servers.items():
                got = std_pair(sctx, permissive_std(False, maxv))
                cells.append((name, maxv, got, control))
            ver, made = pyo_vs_client(None, maxv)
            cells.append(("pyopenssl", maxv, ver, control))
            if (ver is None) == made and not (ver is None and not made):
                pass
            if ver is None and made:
                res.violations.append({"clause": "inner-protocol-without-handshake", "signature": "C20:gate", "case": {"peer_max": maxv}, "trace": {}})
            control_s = std_pair(permissive_std(True, maxv, (cf, kf)), permissive_std(False, "1.3"))
            for name, cctx in clients.items():
                sc = permissive_std(True, maxv, (cf, kf))
                sin, sout = None, None
                got = std_pair(sc, cctx) if name == "client-tofu" else std_pair_hostname(sc, cctx)
                cells.append((name, maxv, got, control_s))
        for name, maxv, got, control in cells:
            res.evaluations += 1
            res.nontriv((name, maxv))
            res.count("%s:max%s:%s" % (name, maxv, got or "refused"))
            res.count("control:max%s:%s" % (maxv, control or "not-negotiable-on-this-openssl"))
            should = expect(maxv)
            if got is not None and not should:
                res.violations.append({"clause": "handshake-below-TLS1.2-completed", "signature": "C20:%s:%s" % (name, maxv),
                                       "case": {"context": name, "peer_max_version": maxv}, "trace": {"negotiated": got, "control": control}})
            if got is None and should:
                res.disagreements.append({"driver": "tls-matrix", "case": {"context": name, "peer_max_version": maxv}, "model": "negotiates", "impl": "refused"})
        res.sample({"matrix": [[n, m, g] for n, m, g, c in cells][:8]})
        # ---- plaintext / random bytes into the TLS layers
        from nauyaca.server.protocol import GeminiServerProtocol
        from nauyaca.protocol.response import GeminiResponse
        from asyncio import sslproto
        inputs = [b"gemini://localhost/\r\n", b"titan://localhost/x;size=1\r\na", b"GET / HTTP/1.0\r\n\r\n", b"\x16\x03\x01\x00\x05hello", b"\x00" * 100] + \
                 [bytes(rng.randrange(256) for _ in range(rng.randint(1, 300))) for _ in range(20 if tier == "quick" else 300)]
        async def plain(data, backend):
            invoked = []
            def handler(req): invoked.append(1); return GeminiResponse(20, "text/plain", "x")
            tcp = tlsmem.MemTCP()
            loop = asyncio.get_running_loop()
            errs = []
            old = loop.get_exception_handler(); loop.set_exception_handler(lambda l, c: errs.append(c))
            try:
                if backend == "pyopenssl":
                    from nauyaca.server.tls_protocol import TLSServerProtocol
                    p = TLSServerProtocol(lambda: GeminiServerProtocol(handler), tlsmem.server_ctx(True))
                    p.connection_made(tcp); p.data_received(data)
                    made = p.inner_protocol is not None
                    if hasattr(p, "_cancel_handshake_timer"): p._cancel_handshake_timer()
                else:
                    app = GeminiServerProtocol(handler)
                    sp = sslproto.SSLProtocol(loop, app, servers["stdlib-supplied"], loop.create_future(), server_side=True)
                    sp.connection_made(tcp)
                    buf = sp.get_buffer(len(data)); buf[: len(data)] = data; sp.buffer_updated(len(data))
                    for _ in range(5): await asyncio.sleep(0)
                    made = app.transport is not None
                    if app.timeout_handle: app.timeout_handle.cancel()
                    try: sp._abort(None)
                    except Exception: pass
            finally:
                loop.set_exception_handler(old)
            out = bytes(tcp.out)
            looks_gemini = len(out) >= 3 and out[:2].isdigit() and out[2:3] == b" "
            return made, bool(invoked), looks_gemini
        async def all_plain():
            return [(d, b, await plain(d, b)) for d in inputs for b in ("pyopenssl", "stdlib")]
        for d, b, (made, invoked, looks) in asyncio.run(all_plain()):
            res.evaluations += 1; res.count("plaintext:" + b)
            if made or invoked or looks:
                res.violations.append({"clause": "plaintext-reached-the-protocol", "signature": "C20:plaintext:" + b,
                                       "case": {"backend": b, "bytes": d.hex()[:120]}, "trace": {"inner_protocol_created": made, "handler_invoked": invoked, "gemini_like_reply": looks}})
    finally:
        shutil.rmtree(tmp, ignore_errors=True)
    return res

def std_pair_hostname(server_ctx, client_ctx):
    sin, sout, cin, cout = ssl.MemoryBIO(), ssl.MemoryBIO(), ssl.MemoryBIO(), ssl.MemoryBIO()
    s = server_ctx.wrap_bio(sin, sout, server_side=True)
    c = client_ctx.wrap_bio(cin, cout, server_side=False, server_hostname="localhost")
    sd = cd = False
    for _ in range(20):
        if not cd:
            try: c.do_handshake(); cd = True
            except ssl.SSLWantReadError: pass
            except ssl.SSLError: return None
        d = cout.read()
        if d: sin.write(d)
        if not sd:
            try: s.do_handshake(); sd = True
            except ssl.SSLWantReadError: pass
            except ssl.SSLError: return None
        d = sout.read()
        if d: cin.write(d)
        if sd and cd: return c.version()
    return None
