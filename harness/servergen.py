"""Generators of (cfg, events) schedules for the server protocol: exhaustive small scopes and
seeded random schedules.  Shared by C01, C04, C07, C08, C15."""
import itertools, random
import urlgen

GOOD = (20, "text/gemini", ("t", "# hi\n"))
RESPS = [
    GOOD, (20, "application/octet-stream", ("b", b"\x00\xff\r\n20 x\r\n")), (20, "text/plain", None), (20, "", ("t", "")),
    (51, "text/gemini", ("t", "# 404 body must not be sent")), (30, "gemini://h/next", None), (10, "Prompt?", None),
    (99, "x", None), (9, "x", None), (-5, "neg", None), (100, "big", None), (0, "", None), (69, "edge", None), (70, "edge", None),
    (20, "a\r\nb", ("t", "x")), (59, "bare\nlf", None), (40, "cr\rmid", None), (20, "m" * 1024, ("t", "b")), (20, "m" * 1025, ("t", "b")),
    (44, "é" * 600, None), (20, "text/gemini", ("t", "=> /\udcff lone surrogate")), (20, "sur\udc80rogate", ("t", "x")),
    (20, "text/gemini", ("t", "世界 \U0001f600")), (29, "x/y", ("b", b"")), (20, "text/gemini", ("b", bytes(range(256)))),
]

def gen_resp(rng):
    if rng.random() < 0.7:
        return rng.choice(RESPS)
    st = rng.choice([rng.randint(-5, 120), rng.randint(10, 69), 20, 20])
    n = rng.choice([0, 1, 10, 1020, 1024, 1025, 3000]) if rng.random() < 0.2 else rng.randint(0, 30)
    meta = "".join(rng.choice("abc /;=\r\n\té世\udcff\x00") for _ in range(n))
    k = rng.random()
    body = None if k < 0.3 else (("t", "".join(rng.choice("xyz\né\udc80") for _ in range(rng.randint(0, 20)))) if k < 0.7
                                 else ("b", bytes(rng.randrange(256) for _ in range(rng.randint(0, 20)))))
    return (st, meta, body)

def gen_hres(rng):
    k = rng.random()
    if k < 0.45: return ("value", gen_resp(rng))
    if k < 0.6: return ("raise", rng.choice(["boom", "", "x\ny", "é", "e" * 1100]))
    return ("async",)

def outcome_for(rng, kind):
    if kind == "mw":
        k = rng.random()
        if k < 0.5: return ("mw", True, None)
        if k < 0.8: return ("mw", False, rng.choice(["53 Access denied\r\n", "44 Rate limit exceeded. Retry after 30 seconds\r\n",
                                                      "60 Client certificate required\r\n", "61 Certificate not authorized\r\n",
                                                      None, "", "garbage", "7 x\r\n", "20 text/plain\r\n", "53", "53 a\nb\r\n", "\r\n", " 53 x\r\n", "053 lead\r\n"]))
        if k < 0.9: return ("raise", "mw failed")
        return ("malformed",)
    k = rng.random()
    if k < 0.75: return ("resp", gen_resp(rng))
    return ("raise", rng.choice(["boom", "x\r\ny", ""]))

REQUESTS = [
    b"gemini://h/\r\n", b"gemini://H.example:1965/a%20b?q=1\r\n", b"gemini://h/x\r\nTRAILING", b"foo\nbar\r\n",
    b"http://h/\r\n", b"gemini://u@h/\r\n", b"gemini://h/#f\r\n", b"\xff\xfe\r\n", b"\r\n", b"gemini://[::1]:1966/\r\n",
    b"titan://h/f;size=3\r\nabc", b"titan://h/f;size=3\r\nabcXYZ", b"titan://h/f;size=0\r\n", b"titan://h/f;size=0;token=t\r\nXX",
    b"titan://h/f;size=x\r\n", b"titan://h/f\r\n", b"titan://h/f;size=5;mime=text/plain;token=s3\r\nhello", b"titan://h/f;size=-1\r\n",
    b"titan://h/f;size=3;size=2\r\nabc", b"titan://h/f; size = 4 \r\nabcd", b"TITAN://h/f;size=1\r\nx",
]

def segmentations(data, maxcuts):
    n = len(data)
    for k in range(0, maxcuts + 1):
        for cuts in itertools.combinations(range(1, n), k):
            pts = [0] + list(cuts) + [n]
            yield [data[a:b] for a, b in zip(pts, pts[1:])]

def random_chunks(rng, data):
    if not data: return []
    k = rng.choice([0, 1, 1, 2, 3, 6])
    cuts = sorted(set(rng.randrange(1, len(data)) for _ in range(k))) if len(data) > 1 else []
    pts = [0] + cuts + [len(data)]
    return [data[a:b] for a, b in zip(pts, pts[1:]) if b > a]

def group_reads(rng, chunks):
    """group consecutive chunks into outer reads (slices of one read)"""
    evs, i = [], 0
    while i < len(chunks):
        k = 1 if rng.random() < 0.8 else rng.randint(2, 3)
        evs.append(("read", chunks[i:i + k])); i += k
    return evs

def gen_request_bytes(rng):
    k = rng.random()
    if k < 0.25: return rng.choice(REQUESTS)
    if k < 0.6:
        u = urlgen.mixed_url(rng)
        try:
            b = u.encode("utf-8")
        except UnicodeEncodeError:
            b = u.encode("utf-8", "replace")
        return b + b"\r\n" + (b"" if rng.random() < 0.7 else b"extra\r\nmore")
    if k < 0.75:  # titan
        size = rng.choice([0, 1, 3, 10])
        content = bytes(rng.randrange(256) for _ in range(rng.choice([size, size, max(0, size - 1), size + 4])))
        params = ";size=%d" % size
        if rng.random() < 0.4: params += ";mime=" + rng.choice(["text/plain", "image/png", " text/gemini "])
        if rng.random() < 0.4: params += ";token=" + rng.choice(["s3cret", "a b", "", "t;x=1"])
        if rng.random() < 0.2: params = rng.choice([";size=", ";size=1_0", ";size=+2", ";SIZE=3", ";size=3;size=1", "", ";mime=x"])
        return ("titan://" + urlgen.reg_name_strict(rng) + urlgen.path_strict(rng) + params).encode() + b"\r\n" + content
    if k < 0.9:  # length boundaries
        n = rng.choice([1019, 1020, 1021, 1022, 1023, 1024, 1025, 1030, 2048])
        base = b"gemini://h/"
        line = base + b"a" * max(0, n - len(base))
        return line + (b"\r\n" if rng.random() < 0.7 else b"") + (b"" if rng.random() < 0.8 else b"z" * 50)
    return bytes(rng.choice(b"gemini:/\r\n\x00\xffab;=") for _ in range(rng.randint(0, 40)))

UP_SYNC_MSGS = ["boom", "", "x\ny", "é", "e" * 1100, "the upload handler failed before returning an awaitable", "bad\r\n20 text/gemini", "世界"]

def gen_up_sync(rng):
    """what the upload handler's CALL does: usually it returns a coroutine (None); sometimes it raises before any awaitable
    exists, or hands back a response object instead of an awaitable"""
    k = rng.random()
    if k < 0.78: return None
    if k < 0.93: return ("raise", rng.choice(UP_SYNC_MSGS))
    return "value"

def gen_cfg(rng):
    cfg = {"has_mw": rng.random() < 0.5, "has_upload": rng.random() < 0.6,
           "peer_ip": rng.choice(["192.0.2.1", "::1", "10.1.2.3", None]), "fp": rng.random() < 0.3, "hres": gen_hres(rng)}
    u = gen_up_sync(rng)
    if u is not None and cfg["has_upload"]: cfg["up_sync"] = u
    return cfg

def task_kind(cfg, i, titan):
    """kind of the task with id i in a connection (at most: mw then handler/upload)"""
    if cfg["has_mw"]:
        return "mw" if i == 0 else "h"
    return "h"

def random_schedule(rng, valid_only=False):
    cfg = gen_cfg(rng)
    data = gen_request_bytes(rng)
    evs = group_reads(rng, random_chunks(rng, data))
    extra = []
    for _ in range(rng.choice([0, 1, 2, 3, 4])):
        k = rng.random()
        if k < 0.55:
            i = rng.choice([0, 0, 1, 1, 2])
            extra.append(("done", i, outcome_for(rng, task_kind(cfg, i, data.startswith(b"titan")))))
        elif k < 0.75: extra.append(("timer",))
        elif k < 0.85: extra.append(("lost",))
        else: extra.append(("read", [bytes(rng.choice(b"xyz\r\n") for _ in range(rng.randint(1, 5)))]))
    # completions tend to come after the reads; other events anywhere
    for e in extra:
        pos = len(evs) if (e[0] == "done" and rng.random() < 0.7) else rng.randint(0, len(evs))
        evs.insert(pos, e)
    if rng.random() < 0.6:
        # make sure tasks usually complete: append completions for ids 0 and 1
        for i in (0, 1):
            evs.append(("done", i, outcome_for(rng, task_kind(cfg, i, data.startswith(b"titan")))))
    return cfg, evs

def exhaustive_small(tier):
    """Deterministic small scope: representative requests x all segmentations (<=2 cuts; all cuts for short
    requests) x interleavings of {timer, completion, loss} at every position."""
    cfgs = []
    for has_mw, has_up in itertools.product([False, True], repeat=2):
        for hres in [("value", GOOD), ("value", (51, "text/gemini", ("t", "body"))), ("raise", "boom"), ("async",)]:
            cfgs.append({"has_mw": has_mw, "has_upload": has_up, "peer_ip": "192.0.2.1", "fp": False, "hres": hres})
    # upload handlers whose call fails before an awaitable exists (Titan requests only; the request handler is irrelevant there)
    for has_mw in (False, True):
        for up_sync in (("raise", "boom"), "value"):
            cfgs.append({"has_mw": has_mw, "has_upload": True, "peer_ip": "192.0.2.1", "fp": False, "hres": ("value", GOOD), "up_sync": up_sync})
    reqs = [b"gemini://h/\r\n", b"gemini://h/x\r\nZZ", b"foo\nbar\r\n", b"titan://h/f;size=3\r\nabc", b"titan://h/f;size=2\r\nabXY",
            b"titan://h/f;size=0\r\n"]
    outcomes_mw = [("mw", True, None), ("mw", False, "53 Access denied\r\n"), ("mw", False, None), ("raise", "x")]
    outcomes_h = [("resp", GOOD), ("resp", (20, "a\nb", ("t", "\udcff"))), ("raise", "boom")]
    cases = []
    maxcuts = 1 if tier == "quick" else 2
    for cfg in cfgs:
        for req in reqs:
            if cfg.get("up_sync") and not req.startswith(b"titan"): continue
            segs = list(segmentations(req, maxcuts)) if len(req) > 14 else list(segmentations(req, 13 if tier != "quick" else 2))
            cap_n = 12 if tier == "quick" else 36
            segs = segs[:: max(1, len(segs) // cap_n)]
            for chunks in segs:
                reads = [("read", [c]) for c in chunks]
                first = outcomes_mw if cfg["has_mw"] else outcomes_h
                for o0 in first:
                    base = reads + [("done", 0, o0)]
                    tails = [[]]
                    if cfg["has_mw"] and o0 == ("mw", True, None):
                        tails = [[("done", 1, o)] for o in outcomes_h]
                    for tail in tails:
                        sched = base + tail
                        cases.append((cfg, sched))
                        # one disturbing event at every position
                        for ev in (("timer",), ("lost",), ("read", [b"zz"])):
                            for pos in range(len(sched) + 1):
                                if tier == "quick" and (pos + len(sched)) % 3:
                                    continue
                                cases.append((cfg, sched[:pos] + [ev] + sched[pos:]))
    return cases
