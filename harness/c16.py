"""C16 correspondence + monitor: redirect following (GeminiClient.get / _get_with_redirects)
with _get_single replaced by a table-driven stub that still runs the real parse_url."""
import asyncio, itertools
from common import *
import urlimpl

class Unscripted(Exception):
    pass

def classify_exc(e):
    m = str(e)
    if isinstance(e, Unscripted): return "unscripted"
    if isinstance(e, ValueError):
        if m.startswith("Redirect loop detected"): return "loop"
        if m.startswith("Maximum redirects"): return "too_many"
        if m.startswith("Redirect response missing URL"): return "missing_url"
        return "bad_url"
    return "exc:" + type(e).__name__

_client = None
async def run_case(follow, mx, url, table):
    global _client
    from nauyaca.client.session import GeminiClient
    from nauyaca.protocol.response import GeminiResponse
    from nauyaca.utils.url import parse_url
    # constructing a client builds an SSL context (slow): one client per max_redirects value, built through the
    # constructor (the value must survive __init__: 0 is a legitimate bound)
    if _client is None: _client = {}
    if mx not in _client:
        _client[mx] = GeminiClient(trust_on_first_use=False, max_redirects=mx)
    c = _client[mx]
    log = []
    async def single(u):
        log.append(u)
        parse_url(u)               # first statement of the real _get_single
        if u not in table:
            raise Unscripted(u)
        st, meta, body = table[u]
        return GeminiResponse(status=st, meta=meta, body=body, url=u)
    c._get_single = single
    try:
        # get() validates the URL first; the model's `get` starts after validation, so do that here
        from nauyaca.utils.url import validate_url
        try:
            validate_url(url); validate_url(parse_url(url).normalized); public = True
        except ValueError:
            public = False
        if public:
            r = await c.get(url, follow_redirects=follow)          # the public entry point, bound taken from the constructor
        else:
            r = await (c._get_with_redirects(url, max_redirects=mx) if follow else c._get_single(url))
        out = ["final", r.status, r.meta, r.body or ""]
    except Exception as e:
        out = ["fail", classify_exc(e)]
    return out, log

def targets(urls):
    t = [("20", (20, "text/gemini", "body"))]
    for u in urls:
        t.append(("30>" + u, (30, u, "")))
        t.append(("31>" + u, (31, u, "")))
    t += [("30>rel", (30, "/x", "")), ("30>http", (30, "http://h/", "")), ("30>empty", (30, "", "")),
          ("30>nohost", (30, "gemini://", "")), ("30>frag", (30, urls[0] + "#f", "")),
          ("30>GEMINI", (30, "GEMINI://h/0", "")), ("51", (51, "Not found", "")), ("39>", (39, urls[-1], ""))]
    return t

def redirect_pin_cases(res):
    """'verifies the certificate pin on every hop': the real GeminiClient with its trust store on, only create_connection
    replaced; the hops of a redirect chain are different ports of one host (or another host) presenting chosen certificates"""
    import asyncio, certs as certmod, clientdrv as cd
    from pathlib import Path
    from nauyaca.client.session import GeminiClient
    from nauyaca.security.tofu import TOFUDatabase, CertificateChangedError
    cs = certmod.certs()
    tmp = scratch_dir("nv-c16p-")
    def rows(path):
        import sqlite3
        con = sqlite3.connect(str(path))
        try: return sorted((h, p, fp) for h, p, fp in con.execute("SELECT hostname, port, fingerprint FROM known_hosts"))
        finally: con.close()
    async def fetch(path, peers, start):
        """peers: {(host, port): (certificate index, reply bytes)} -> (outcome, bytes received per peer)"""
        loop = asyncio.get_running_loop()
        received = {}
        async def fake_cc(factory, host=None, port=None, ssl=None, server_hostname=None, **kw):
            ci, reply = peers[(host.lower(), port)]          # host names are case-insensitive: whatever the spelling, the same peer answers
            proto = factory()
            log = received.setdefault((host, port), [])
            class T(cd.RecTransport):
                def write(self_, b): log.append(bytes(b)); cd.RecTransport.write(self_, b)
                def get_extra_info(self_, name, default=None):
                    if name == "ssl_object":
                        class S:
                            def getpeercert(self, binary_form=False): return cs[ci]["der"]
                        return S()
                    return default
            tr = T([])
            proto.connection_made(tr)
            def feed():
                if not tr.closed:
                    proto.data_received(reply)
                proto.connection_lost(None)
            loop.call_soon(feed)
            return tr, proto
        client = GeminiClient(timeout=1.0, trust_on_first_use=True, tofu_db_path=path, max_redirects=3)
        loop.create_connection = fake_cc
        try:
            r = await client.get(start)
            out = ["ok", r.status]
        except CertificateChangedError:
            out = ["changed"]
        except Exception as e:
            out = ["error", type(e).__name__]
        finally:
            del loop.create_connection
        return out, {k: b"".join(v) for k, v in received.items()}
    try:
        scen = []
        for second in (("a.example", 1966), ("b.example", 1965)):
            hop2 = "gemini://%s%s/final" % (second[0], "" if second[1] == 1965 else ":%d" % second[1])
            peers = {("a.example", 1965): (0, ("30 %s\r\n" % hop2).encode()), second: (0, b"20 text/plain\r\nfinal")}
            # (1) the second hop is pinned to ANOTHER certificate than the one it presents (which the first hop already showed)
            p1 = Path(tmp) / ("s1-%s-%d.db" % second); TOFUDatabase(p1).trust(second[0], second[1], cs[1]["cert"])
            scen.append(("second hop pinned to a different certificate", second, p1, peers, "changed"))
            # (1a) the same, the redirect spelling the second hop's host in upper case: the pin is the host's, not the spelling's
            hop2u = "gemini://%s%s/final" % (second[0].upper(), "" if second[1] == 1965 else ":%d" % second[1])
            peers_u = {("a.example", 1965): (0, ("30 %s\r\n" % hop2u).encode()), second: (0, b"20 text/plain\r\nfinal")}
            pu = Path(tmp) / ("s1u-%s-%d.db" % second); TOFUDatabase(pu).trust(second[0], second[1], cs[1]["cert"])
            scen.append(("second hop pinned to a different certificate; the redirect spells its host in upper case", second, pu, peers_u, "changed"))
            # (1b) the same, but what the second hop presents is outside its validity period (expired / not yet valid): still a pin
            # mismatch, still refused before anything is sent
            for nm in ("expired", "notyet"):
                ci = next(i for i, c in enumerate(cs) if c["name"] == nm)
                peers_b = {("a.example", 1965): (0, ("30 %s\r\n" % hop2).encode()), second: (ci, b"20 text/plain\r\nfinal")}
                pb = Path(tmp) / ("s1%s-%s-%d.db" % ((nm,) + second)); TOFUDatabase(pb).trust(second[0], second[1], cs[1]["cert"])
                scen.append(("second hop pinned to a different certificate; it presents one that is %s" % nm, second, pb, peers_b, "changed"))
            # (2) nothing pinned: both hops must be pinned afterwards
            p2 = Path(tmp) / ("s2-%s-%d.db" % second); TOFUDatabase(p2)
            scen.append(("nothing pinned", second, p2, peers, "ok"))
        for label, second, path, peers, want in scen:
            out, received = asyncio.run(fetch(path, peers, "gemini://a.example/start"))
            res.evaluations += 1; res.count("redirect-pin"); res.nontriv(("redirect-pin", label, second))
            bad = []
            if want == "changed":
                if out != ["changed"]: bad.append("the fetch did not fail with the certificate-changed error: %s" % out)
                if received.get(second): bad.append("the mis-pinned hop received %r" % received[second][:60])
            else:
                if out != ["ok", 20]: bad.append("the fetch did not reach the final response: %s" % out)
                pins = rows(path)
                wantpins = sorted([("a.example", 1965, cs[0]["fp"]), (second[0], second[1], cs[0]["fp"])])
                if pins != wantpins: bad.append("pins afterwards %s, expected %s" % (pins, wantpins))
            if bad:
                res.violations.append({"clause": "the certificate pin is verified (and a first use recorded) on every hop of a redirect chain",
                                       "signature": "C16:hop-pin", "case": {"scenario": label, "second_hop": list(second),
                                                                            "both hops present": "the same certificate"},
                                       "trace": {"problems": bad}})
    finally:
        shutil.rmtree(tmp, ignore_errors=True)

def run(tier, seed):
    setup_impl()
    rng = random.Random(seed)
    res = Result()
    nurl = 3 if tier == "quick" else 4
    # some of the targets carry ";" parameters and "?a=1;b=2" queries: a redirect target is the WHOLE meta
    urls = ["gemini://h/%d" % i if i % 2 == 0 else ("gemini://h/%d;rev=%d" % (i // 2, i) if i % 4 == 1 else "gemini://h/%d?a=1;b=%d" % (i // 2, i)) for i in range(nurl)]
    opts = targets(urls)
    res.rule = ("exhaustive: every redirect graph over %d URLs (each answering one of %d scripted responses) x max_redirects 0..6 x follow on/off, "
                "plus random graphs over up to 10 URLs; non-trivial = distinct (graph,max) whose walk follows at least one redirect" % (nurl, len(opts)))
    cases = []
    for combo in itertools.product(range(len(opts)), repeat=nurl):
        table = {u: opts[i][1] for u, i in zip(urls, combo)}
        for mx in range(0, 7):
            cases.append((True, mx, urls[0], table))
        cases.append((False, 5, urls[0], table))
    # the same resource under different spellings (no trailing slash, upper-case host, explicit default port): every graph over them
    sp = ["gemini://h", "gemini://H/", "gemini://h:1965/"]
    spopts = [("20", (20, "text/gemini", "body"))] + [("30>" + u, (30, u, "")) for u in sp]
    for combo in itertools.product(range(len(spopts)), repeat=3):
        table = {u: spopts[i][1] for u, i in zip(sp, combo)}
        for mx in (0, 1, 2, 5):
            for start in sp:
                cases.append((True, mx, start, table))
    res.exhaustive = True
    nrand = 2000 if tier == "quick" else 40000
    for _ in range(nrand):
        k = rng.randint(1, 10)
        us = [rng.choice(["gemini://h%d.example/%d", "gemini://H%d.Example/%d", "gemini://h%d.example:1965/%d"]) % (rng.randint(0, 2), i) for i in range(k)]
        if rng.random() < 0.3: us[0] = "gemini://h0.example"
        o = targets(us)
        table = {}
        for u in us:
            if rng.random() < 0.9:
                # bias towards long chains
                if rng.random() < 0.7:
                    table[u] = (rng.choice([30, 31]), rng.choice(us), "")
                else:
                    table[u] = rng.choice(o)[1]
        cases.append((rng.random() < 0.9, rng.randint(0, 8), us[0], table))

    async def all_cases():
        return [await run_case(*c) for c in cases]
    impl = asyncio.run(all_cases())

    mcases, iobs, mon = [], [], []
    for (follow, mx, url, table), (out, log) in zip(cases, impl):
        trows = [[u, [st, meta, body]] for u, (st, meta, body) in table.items()]
        # ip6 oracle: hosts here are reg-names; no bracket queries occur
        mcases.append(("follow", enc([follow, mx, url, trows, []])))
        iobs.append(enc([out, log]))
        mon.append(("C16.ok", enc([follow, mx, url, trows, [], out, log])))
        res.evaluations += 1
        res.count("outcome:" + (out[0] if out[0] == "final" else "fail:" + out[1]))
        res.count("connections:%d" % len(log))
        if len(log) > 1:
            res.nontriv((sorted(table.items()), mx, follow))
    res.sample({"follow": cases[5][0], "max": cases[5][1], "url": cases[5][2], "table": cases[5][3], "impl": impl[5]})
    res.sample({"follow": cases[-1][0], "max": cases[-1][1], "url": cases[-1][2], "table": cases[-1][3], "impl": impl[-1]})
    out = run_model_parallel(mcases)
    compare(res, "follow", [c[1] for c in mcases], iobs, out, describe=lambda a: pretty(dec(a)))
    mo = run_model_parallel(mon)
    for c, (o, log), m in zip(cases, impl, mo):
        if m != enc(True):
            res.violations.append({"clause": "C16.ok", "signature": "C16:" + (o[0] if o[0] == "final" else o[1]) + ":conn%d" % len(log),
                                   "case": {"follow": c[0], "max_redirects": c[1], "url": c[2], "table": c[3]},
                                   "trace": {"outcome": o, "connections": log}})
    redirect_pin_cases(res)
    import cliclient
    cliclient.run_get(res, tier)
    res.rule += " | plus, with the trust store on: a redirect to another port of the same host / to another host presenting the same certificate, with that hop pinned differently or not at all"
    return res
