"""C14: FileUploadHandler on real temp trees: every request is bracketed by recursive snapshots of the
upload directory AND its surroundings; storage faults are injected into the write and the rename."""
import asyncio, types, errno, builtins
from common import *
from pathlib import Path
import fstree

MAXSZ = 16

class FaultyFile:
    def __init__(self, f, k): self.f, self.k = f, k
    def write(self, b):
        self.f.write(b[: self.k]); self.f.flush()
        raise OSError(errno.ENOSPC, "No space left on device")
    def __enter__(self): return self
    def __exit__(self, *a): self.f.close(); return False

def tmp_name(name, tok):
    """the name FileUploadHandler gives its temporary file for a target called `name`"""
    return ".%s.%s.tmp" % (name, tok)

def gen_req(rng, nodes, tok):
    """-> (path, size, mime, token, content, extra): extra = nodes added to the tree for this request only"""
    inside = [rel[len("root/"):] for rel, k, p in nodes if rel.startswith("root/")]
    real_dirs = [""] + [rel[len("root/"):] + "/" for rel, k, p in nodes if rel.startswith("root/") and k == "d"]
    extra = []
    k = rng.random()
    if k < 0.08:
        # (a) the target's name is 230..256 bytes long: from 234 on the temporary name ".<name>.<16 hex>.tmp" exceeds NAME_MAX
        n = rng.choice([230, 232, 233, 234, 235, 240, 254, 255, 256])
        name = rng.choice(["n" * n, "é" * (n // 2) + "x" * (n % 2), "m" * (n - 4) + ".gmi"])
        path = "/" + rng.choice(real_dirs + ["", "newdir/"]) + name
    elif k < 0.14:
        # (b) an over-long last component below directories that do not exist yet (they are created before the failure)
        path = "/" + rng.choice(real_dirs) + rng.choice(["p/q/", "p/", "a/b/c/", ""]) + "n" * rng.choice([256, 300])
    elif k < 0.24:
        # (c) something already carries the temporary name: it must survive and the upload must fail
        d = rng.choice(real_dirs)
        name = rng.choice(["new.txt", "a", "b.gmi", "noext", "é.txt"])
        path = "/" + d + name
        kind = rng.random()
        rel = "root/" + d + tmp_name(name, tok)
        if kind < 0.7: extra = [(rel, "f", b"SENTINEL-TMPNAME-in-the-way")]
        elif kind < 0.85: extra = [(rel, "d", None)]
        else: extra = [(rel, "l", "missing-target")]
        if rng.random() < 0.3: extra.append(("root/" + d + name, "f", b"SENTINEL-old-content"))
    elif inside and k < 0.62:
        path = rng.choice(fstree.spellings(rng, rng.choice(inside)))
    elif k < 0.84:
        path = "/" + "/".join(rng.choice(["new.txt", "d/new.gmi", "a/b/c.txt", "sub/x", "é.txt", "sp ace.txt", "up%20load.txt", "..", ".", ""]) for _ in range(rng.randint(1, 2)))
    else:
        path = rng.choice(["/cache/titan://example.org/page.gmi", "/titan://h/x", "/a/gemini://b/c.txt", "/", "", "/../rootx/planted.txt", "/../outside/planted.txt", "/%2e%2e/outside/p.txt", "/..%2Foutside%2Fp.txt", "//etc/passwd", "/\x00x", "/" + "n" * 300])
    used = set(rel for rel, kk, pp in nodes)
    extra = [e for e in extra if e[0] not in used]
    size = rng.choice([0, 0, 1, 3, MAXSZ - 1, MAXSZ, MAXSZ + 1])
    if extra or k < 0.14: size = rng.choice([1, 3, MAXSZ, 0])
    content = bytes(rng.randrange(256) for _ in range(size))
    token = rng.choice(["good", "good", "good", "good", None, "bad", ""])
    mime = rng.choice(["text/gemini", "text/plain", "image/png"])
    return path, size, mime, token, content, extra

def protocol_level_cases(res, tier):
    """the same uploads through GeminiServerProtocol (with and without a middleware chain in front of the real
    FileUploadHandler): the body split over reads, and bytes beyond the declared size arriving with the end of the body, in
    the next slice of the same read, or in a later read - the stored file must be exactly the declared bytes"""
    import asyncio, serverdrv as sd
    from nauyaca.server.protocol import GeminiServerProtocol
    from nauyaca.server.handler import FileUploadHandler
    from nauyaca.server.middleware import MiddlewareChain, RateLimiter, RateLimitConfig
    from nauyaca.protocol.response import GeminiResponse
    body = b"declared body: exactly these bytes\n"
    trail = b"<<< bytes beyond the declared size >>>"
    line = ("titan://h/notes/up.txt;size=%d;mime=text/plain\r\n" % len(body)).encode()
    feeds = [("one read", [[line + body]]),
             ("trailing with the body", [[line + body + trail]]),
             ("trailing in the next slice", [[line + body, trail]]),
             ("trailing in a later read", [[line + body], [trail]]),
             ("body split, trailing later", [[line + body[:7]], [body[7:]], [trail]]),
             ("line split, trailing slices", [[line[:9], line[9:] + body, trail, trail]])]
    tmp = scratch_dir("nv-c14p-")
    async def one(with_chain, reads, updir):
        chain = MiddlewareChain([RateLimiter(RateLimitConfig(capacity=100, refill_rate=10.0))]) if with_chain else None
        acts = []
        p = GeminiServerProtocol(lambda r: GeminiResponse(20, "text/plain", "x"), chain, FileUploadHandler(updir))
        t = sd.FakeTransport(acts, ("192.0.2.1", 5), None)
        p.connection_made(t)
        for slices in reads:
            for sl in slices:
                p.data_received(sl)
            await asyncio.sleep(0)
        for _ in range(30):
            await asyncio.sleep(0)
            if t.closed: break
        if p.timeout_handle: p.timeout_handle.cancel()
        return b"".join(a[1] for a in acts if a[0] == "w"), t.closed
    try:
        for with_chain in (False, True):
            for label, reads in feeds:
                updir = os.path.join(tmp, "u%d-%d" % (with_chain, res.evaluations)); os.makedirs(updir)
                wire, closed = asyncio.run(one(with_chain, reads, updir))
                stored = {}
                for d_, _dirs, files_ in os.walk(updir):
                    for f_ in files_:
                        stored[os.path.relpath(os.path.join(d_, f_), updir)] = open(os.path.join(d_, f_), "rb").read()
                res.evaluations += 1; res.count("through-the-protocol"); res.nontriv(("protocol", with_chain, label))
                if not wire.startswith(b"20 ") or stored != {"notes/up.txt": body}:
                    res.violations.append({"clause": "the stored content is exactly the declared number of bytes that followed the request line (through the protocol)",
                                           "signature": "C14:protocol-content",
                                           "case": {"middleware_chain": with_chain, "delivery": label},
                                           "trace": {"response": wire[:40].decode("latin-1"), "stored": {k: v[:90].decode("latin-1") for k, v in stored.items()}}})
    finally:
        shutil.rmtree(tmp, ignore_errors=True)

def handler_history_cases(res):
    """One long-lived FileUploadHandler (as a running server has) receives the SAME request paths again after the layout of the upload
    directory has changed between the requests (a directory replaced by a symbolic link leading outside): every request is judged
    against the layout at the time it is made."""
    import nauyaca.server.handler as hm
    from nauyaca.protocol.request import TitanRequest
    tmp = os.path.realpath(scratch_dir("nv-c14h-"))
    try:
        up, outside = os.path.join(tmp, "up"), os.path.join(tmp, "outside")
        os.makedirs(os.path.join(up, "docs")); os.makedirs(outside)
        open(os.path.join(outside, "old.txt"), "wb").write(b"outside file that must survive")
        open(os.path.join(outside, "note.txt"), "wb").write(b"outside note that must not be replaced")
        open(os.path.join(up, "docs", "keep.txt"), "wb").write(b"kept")
        h = hm.FileUploadHandler(up, enable_delete=True)
        def req(path, content):
            r = TitanRequest.from_line("titan://h%s;size=%d;mime=text/plain" % (path, len(content))); r.content = content; return r
        def send(path, content):
            try: return asyncio.run(h.handle_upload(req(path, content))).status
            except Exception as e: return "raise:" + type(e).__name__
        steps = []
        # while `docs` is an ordinary directory: an upload, a deletion of something that is not there, an overwrite
        steps.append(("docs is a directory", "/docs/note.txt", b"first", send("/docs/note.txt", b"first")))
        steps.append(("docs is a directory", "/docs/old.txt", b"", send("/docs/old.txt", b"")))
        steps.append(("docs is a directory", "/docs/keep.txt", b"again", send("/docs/keep.txt", b"again")))
        # the layout changes between requests: `docs` becomes a link to a directory outside the upload directory
        shutil.move(os.path.join(up, "docs"), os.path.join(tmp, "docs-moved"))
        os.symlink(outside, os.path.join(up, "docs"))
        before = fstree.snapshot(outside)
        later = [("docs is a link to an outside directory", p_, c_, send(p_, c_)) for p_, c_ in
                 (("/docs/note.txt", b"second"), ("/docs/old.txt", b""), ("/docs/keep.txt", b"third"), ("/docs/note.txt", b"second"))]
        after = fstree.snapshot(outside)
        res.evaluations += len(steps) + len(later); res.count("handler-history", len(steps) + len(later)); res.nontriv(("handler-history", 1))
        bad = [st_ for st_ in later if st_[3] == 20]
        if steps[0][3] != 20 or bad or before != after:
            res.violations.append({"clause": "a request is judged against the layout of the upload directory at the time it is made (one long-lived handler, the same paths before and after a change of layout)",
                                   "signature": "C14:handler-history",
                                   "case": {"history": [[a, b, c.decode(), str(d)] for a, b, c, d in steps + later]},
                                   "trace": {"answered_20_through_the_outside_link": [[b, str(d)] for a, b, c, d in bad],
                                             "outside_directory_before": [[e[0][-1], e[1][0]] for e in before],
                                             "outside_directory_after": [[e[0][-1], e[1][0], (e[1][1][:40].decode("latin-1") if len(e[1]) > 1 and isinstance(e[1][1], bytes) else "")] for e in after]}})
    finally:
        shutil.rmtree(tmp, ignore_errors=True)

def run(tier, seed):
    setup_impl()
    import nauyaca.server.handler as hm
    from nauyaca.protocol.request import TitanRequest
    from urllib.parse import unquote
    rng = random.Random(seed)
    res = Result()
    res.rule = ("generated upload trees (symlinks to outside, prefix-sharing sibling, loops, over-long link targets, existing directories and files) x upload paths (traversal "
                "spellings, the root itself, directory names, names of 230..256 and 300 bytes with and without missing parent directories, NUL, a file / directory / dangling link "
                "that already carries the temporary file's name) x sizes around the limit x token none/good/bad/empty x media-type lists x delete on/off x injected faults (ENOSPC "
                "after k bytes of the write, failing rename); secrets.token_hex is replaced by a known value per case and given to the model; non-trivial = distinct (tree, request, "
                "configuration, fault); the handler is built directly or through a [titan] section of a TOML file (ServerConfig.from_toml -> get_upload_handler), half each")
    tmp = scratch_dir("nv-c14-")
    ntrees = 50 if tier == "quick" else 800
    per_tree = 25 if tier == "quick" else 40
    mcases, meta = [], []
    # the random part of the temporary file's name: the handler module's `secrets` is replaced by a stand-in whose token_hex
    # returns the value chosen for the case (the model takes the same value as its `tok` argument)
    cur_tok = [None]
    real_secrets = hm.secrets
    def known_token_hex(n=None):
        assert n == 8, "the handler asks for token_hex(%r), the model assumes 8 bytes" % (n,)
        return cur_tok[0]
    hm.secrets = types.SimpleNamespace(token_hex=known_token_hex)
    try:
        real_tmp = os.path.realpath(tmp)
        for ti in range(ntrees):
            tree_nodes = fstree.gen_tree(rng, max_nodes=8)
            for ri in range(per_tree):
                tok = "%016x" % rng.getrandbits(64)
                cur_tok[0] = tok
                path, size, mime, token, content, extra = gen_req(rng, tree_nodes, tok)
                nodes = tree_nodes + extra
                fstree.clear(real_tmp); fstree.build(real_tmp, nodes)
                up = os.path.join(real_tmp, "root")
                tokens = rng.choice([None, ["good"], ["good", "other"]])
                types_ = rng.choice([None, None, ["text/gemini", "text/plain"]])
                delete = rng.random() < 0.6
                if rng.random() < 0.5:
                    h = hm.FileUploadHandler(up, max_size=MAXSZ, allowed_types=types_, auth_tokens=set(tokens) if tokens else None, enable_delete=delete)
                else:
                    # the same configuration as a [titan] section of a TOML file: ServerConfig.from_toml(...).get_upload_handler()
                    # (the snapshot "before" is taken afterwards: whatever loading the configuration does to the tree is not the request's doing)
                    import json as _json
                    cfgdir = os.path.join(os.path.dirname(real_tmp), os.path.basename(real_tmp) + "-cfg"); os.makedirs(cfgdir, exist_ok=True)
                    toml = '[server]\ndocument_root = %s\n\n[titan]\nenabled = true\nupload_dir = %s\nmax_upload_size = %d\nenable_delete = %s\n' % (
                        _json.dumps(cfgdir), _json.dumps(up), MAXSZ, "true" if delete else "false")
                    if types_ is not None: toml += "allowed_mime_types = %s\n" % _json.dumps(types_)
                    if tokens is not None: toml += "auth_tokens = %s\n" % _json.dumps(tokens)
                    cf = os.path.join(cfgdir, "titan.toml"); open(cf, "w").write(toml)
                    from nauyaca.server.config import ServerConfig
                    h = ServerConfig.from_toml(Path(cf)).get_upload_handler()
                    res.count("handler-from-toml")
                req = None
                try:
                    line = "titan://h" + path + ";size=%d;mime=%s" % (size, mime) + (";token=" + token if token is not None else "")
                    req = TitanRequest.from_line(line)
                    req.content = content
                except ValueError:
                    continue
                fault = rng.choice([None, None, None, ("write", rng.choice([0, 1, max(0, size - 1)])), ("replace",),
                                    ("rlimit", rng.choice([0, 1, max(0, size - 1)]))])
                before = fstree.snapshot(real_tmp)
                # install the fault at the level of the OS-facing calls (whatever code path the handler uses)
                import io
                real_open, real_replace, real_rename = builtins.open, os.replace, os.rename
                if fault and fault[0] == "write":
                    k = fault[1]
                    def fake_open(file, mode="r", *a, **kw):
                        f = real_open(file, mode, *a, **kw)
                        if isinstance(mode, str) and ("x" in mode or "w" in mode) and "b" in mode and str(file).startswith(real_tmp):
                            return FaultyFile(f, k)
                        return f
                    builtins.open = fake_open; io.open = fake_open
                elif fault and fault[0] == "replace":
                    def bad_replace(a, b, *x, **y): raise OSError(errno.EIO, "Input/output error")
                    os.replace = bad_replace; os.rename = bad_replace
                elif fault and fault[0] == "rlimit":
                    # a real OS-level fault: the file-size limit makes the kernel refuse everything beyond k bytes (EFBIG), which a
                    # buffered writer only learns when it flushes - possibly as late as close()
                    import resource, signal
                    old_lim = resource.getrlimit(resource.RLIMIT_FSIZE)
                    old_sig = signal.signal(signal.SIGXFSZ, signal.SIG_IGN)
                    resource.setrlimit(resource.RLIMIT_FSIZE, (fault[1], old_lim[1]))
                try:
                    try:
                        r = asyncio.run(h.handle_upload(req)); obs = ["resp", r.status]
                    except Exception as e:
                        obs = ["raise", "oserror" if isinstance(e, OSError) else type(e).__name__]
                finally:
                    builtins.open = real_open; io.open = real_open; os.replace = real_replace; os.rename = real_rename
                    if fault and fault[0] == "rlimit":
                        resource.setrlimit(resource.RLIMIT_FSIZE, old_lim); signal.signal(signal.SIGXFSZ, old_sig)
                after = fstree.snapshot(real_tmp)
                # what the path denotes: dot segments are removed as URL syntax (RFC 3986 5.2.4: lexically, ".." above the
                # root denotes nothing here), then the operating system resolves the symbolic links.  (Resolving ".."
                # physically, after following a symlinked directory, is not what a URL path means: it made this referee
                # disagree with a correct upload to /pub/<link>/x/../../new/file - a false alarm of the thorough tier.)
                try:
                    # the path the CLIENT sent (not what from_line made of it: the parser is under test too)
                    # (Titan: "titan://" authority path-abempty *( ";" param ): the path ends at the first ";", "?" or "#")
                    rest_ = line[len("titan://"):]
                    cut_ = min([rest_.index(ch_) for ch_ in "/?#;" if ch_ in rest_] or [len(rest_)])
                    after_ = rest_[cut_:]
                    for ch_ in ";?#":
                        after_ = after_.split(ch_, 1)[0]
                    wire_path = after_ or "/"
                    dec_path = unquote(wire_path)
                    segs, climbs = [], False
                    for sg_ in dec_path.split("/"):
                        if sg_ in ("", "."): continue
                        if sg_ == "..":
                            if segs: segs.pop()
                            else: climbs = True; break
                        else: segs.append(sg_)
                    if "\x00" in dec_path or climbs: target = []
                    else:
                        t1 = os.path.realpath(os.path.join(up, *segs))
                        target = [fstree.comps(t1)] if os.path.realpath(t1) == t1 else []
                except (OSError, ValueError):
                    target = []
                cfg = [fstree.comps(up), MAXSZ, [types_] if types_ else [], tokens or [], delete]
                mreq = [wire_path, req.size, req.mime_type, [req.token] if req.token is not None else [], content]
                if req.path != wire_path:
                    res.violations.append({"clause": "the handler receives the path that was sent", "signature": "C14:path-altered",
                                           "case": {"request_line": line[:200]}, "trace": {"path_on_the_wire": wire_path, "request.path": req.path}})
                base = fstree.comps(real_tmp)
                ancestors = [[base[:i], ["d"]] for i in range(1, len(base) + 1)]
                effective_fault = bool(fault) and not (fault[0] == "rlimit" and fault[1] >= len(content))
                mcases.append(("upload", enc([cfg, ancestors + before, mreq, [1] if effective_fault else [], tok])))
                status = obs[1] if obs[0] == "resp" else 40
                meta.append((nodes, cfg, mreq, fault, obs, before, after, status, target, line))
                res.evaluations += 1
                res.count("status:%s" % (obs[1]))
                res.count("fault:%s" % (fault[0] if fault else "none"))
                if extra: res.count("tmpname-taken:%s" % (obs[1],))
                res.nontriv((ti, ri))
    finally:
        hm.secrets = real_secrets
        shutil.rmtree(tmp, ignore_errors=True); shutil.rmtree(os.path.realpath(tmp) + "-cfg", ignore_errors=True)
    handler_history_cases(res)
    out = run_model_parallel(mcases)
    for (nodes, cfg, mreq, fault, obs, before, after, status, target, line), mo in zip(meta, out):
        m = dec(mo)
        if m[0][0].text() == "oom":
            res.out_of_model += 1; continue
        mobs = ["resp", m[0][1].int()] if m[0][0].text() == "resp" else ["raise", m[0][1].text()]
        nb = len(cfg[0]) - 1      # components of the temp directory: entries at or above it are scaffolding
        mfs = sorted([[[c.text() for c in e[0]], ([e[1][0].text()] + ([bytes(e[1][1])] if e[1][0].text() == "f" else ([e[1][1].text()] if e[1][0].text() == "l" else [])))] for e in m[1]
                      if len(e[0]) > nb], key=lambda e: e[0])
        ifs = [[e[0], [e[1][0]] + ([e[1][1]] if len(e[1]) > 1 else [])] for e in after]
        if mobs != obs or mfs != ifs:
            diff = [e for e in mfs if e not in ifs][:3] + [e for e in ifs if e not in mfs][:3]
            res.disagreements.append({"driver": "upload", "case": {"request": line[:300], "cfg": str(cfg)[:300], "fault": fault,
                                                                    "tree": [[a, b, (c.decode("utf-8", "replace") if isinstance(c, bytes) else c)] for a, b, c in nodes]},
                                      "model": {"response": mobs, "fs_diff_sample": str(diff)[:400]}, "impl": {"response": obs}})
    mo = run_model_parallel([("C14.ok", enc([cfg, mreq, status, target, before, after])) for (nodes, cfg, mreq, fault, obs, before, after, status, target, line) in meta])
    for me, m in zip(meta, mo):
        if m != enc(True):
            changed = [e for e in me[6] if e not in me[5]] + [["REMOVED"] + e for e in me[5] if e not in me[6]]
            res.violations.append({"clause": "only-the-authorised-target-changes", "signature": "C14:status%s:%s" % (me[7], me[3][0] if me[3] else "nofault"),
                                   "case": {"request": me[9][:300], "cfg": str(me[1])[:300], "fault": me[3]},
                                   "trace": {"status": me[4], "changes": str(changed)[:600]}})
    if meta:
        res.sample({"request": meta[0][9][:200], "response": meta[0][4]}); res.sample({"request": meta[-1][9][:200], "response": meta[-1][4]})
    protocol_level_cases(res, tier)
    res.rule += " | plus through GeminiServerProtocol (with / without a rate-limiter chain): body split over reads, bytes beyond the declared size with the body, in the next slice, in a later read"
    return res
