"""Shared runner for the server-protocol properties: generate schedules, replay them on the real
GeminiServerProtocol, compare with the extracted ServerProto model, run the Coq monitors on the
implementation's traces."""
from common import *
import serverdrv as sd, servergen as sg

def describe(cfg, evs):
    def ev(e):
        if e[0] == "read": return ["read", [{"hex": b.hex()} if not b.isascii() else b.decode() for b in e[1]]]
        return list(map(str, e))
    c = dict(cfg); c["hres"] = str(c["hres"])[:200]
    return {"cfg": c, "events": [ev(e) for e in evs][:40]}

def run_server_property(pid, monitors, tier, seed, extra_cases=None, n_random=None, nontrivial=None, rule=""):
    setup_impl()
    rng = random.Random(seed)
    res = Result()
    cases = sg.exhaustive_small(tier)
    nexh = len(cases)
    n = n_random if n_random is not None else (4000 if tier == "quick" else 60000)
    cases += [sg.random_schedule(rng) for _ in range(n)]
    if extra_cases:
        cases += extra_cases(rng, tier)
    res.rule = rule + (" | schedules: %d from the deterministic small scope (representative requests x segmentations x completions x one disturbing event "
                       "at every position) + %d seeded random schedules" % (nexh, len(cases) - nexh))
    impl = sd.run_cases(cases)
    mcases = [sd.model_case(c, e, tb) for (c, e), (o, d, tb, *_) in zip(cases, impl)]
    out = run_model_parallel(mcases)
    OOM = enc(["oom"])
    comparable = []
    for idx, ((c, e), (o, d, tb, *_), m) in enumerate(zip(cases, impl, out)):
        res.evaluations += 1
        if d != 30.0:
            res.disagreements.append({"driver": "server:timer-delay", "case": describe(c, e), "model": 30.0, "impl": d})
        if m == OOM:
            res.out_of_model += 1
            continue
        comparable.append(idx)
        io = sd.enc_obs(o)
        if io != m:
            res.disagreements.append({"driver": "server", "case": describe(c, e), "model": pretty(dec(m)), "impl": pretty(dec(io))})
        flat = [a for acts, _ in o for a in acts]
        kinds = sorted(set(a[0] for a in flat))
        res.count("actions:" + "+".join(kinds))
        if nontrivial is None or nontrivial(c, e, o):
            res.nontriv((str(c), str(e)))
    for i in (0, len(cases) // 2, len(cases) - 1):
        res.sample({"case": describe(*cases[i]), "impl": pretty(dec(sd.enc_obs(impl[i][0])))})
    # monitors on implementation traces
    # the transport contract (DESIGN 3.2): no new outer read is delivered after a close; schedules that
    # break it are still compared with the model above, but the property is not judged on them
    def valid(idx):
        c, e = cases[idx]; o = impl[idx][0]
        closed = False
        for ev, (acts, _) in zip(e, o):
            if ev[0] == "read" and closed:
                return False
            if any(a[0] == "c" for a in acts):
                closed = True
        return True
    judged = [i for i in comparable if valid(i)]
    res.count("schedules-judged", len(judged)); res.count("schedules-read-after-close(not judged)", len(comparable) - len(judged))
    comparable = judged
    for mname in monitors:
        mc = []
        for idx in comparable:
            c, e = cases[idx]; o, d, tb, seen = impl[idx]
            mc.append((mname, enc([sd.enc_cfg(c, tb), [sd.enc_event(x) for x in e], [[a, ar] for a, ar in o], seen])))
        mo = run_model_parallel(mc)
        for idx, m in zip(comparable, mo):
            if m != enc(True):
                c, e = cases[idx]
                res.violations.append({"clause": mname, "signature": "%s:%s" % (pid, mname),
                                       "case": describe(c, e), "trace": pretty(dec(sd.enc_obs(impl[idx][0])))})
    return res, cases, impl
