"""C18: real ProxyHandler + real GeminiClient behind a real GeminiServerProtocol; the upstream is a
scripted peer (bytes in chunks, close / reset / refuse / stall).  Downstream bytes are compared with
Model.Session.relay and judged by Spec.C18.ok."""
from pathlib import Path
import asyncio, itertools
from common import *
import clientdrv as cd, serverdrv as sd

def gen_upstream(rng):
    k = rng.random()
    if k < 0.04: return ("connfail",)
    if k < 0.07: return ("timeout",)
    status = rng.choice(["20"] * 12 + ["10", "11", "30", "31", "40", "44", "51", "53", "59", "60", "69"] * 2 + ["09", "70", "2", "+2", "200", "ab"])
    metas = ["text/gemini", "text/plain; charset=iso-8859-1", "text/plain; charset=shift_jis", "text/plain;charset=utf-16", "application/octet-stream",
             "image/png", "text/gemini; lang=fr", "gemini://elsewhere.example/x", "Not found é世界", "", "a\nb", "a\rb", "m" * 1024, "m" * 1025,
             "text/plain; charset=bogus",
             # characters that str.splitlines() / str.isspace() treat as line or space boundaries but that are ordinary meta bytes
             "Enter your name\x0c(second page)", "text/plain; charset=utf-8\u0085", "gemini://elsewhere.example/a\u2028b", "tab\there\x0bvt", "x\x1c\x1d\x1ey",
             "trailing space ", "  two leading spaces", "para\u2029graph", "nbsp\u00a0inside", "\ufeffbom first"]
    meta = rng.choice(metas[:9]) if rng.random() < 0.7 else rng.choice(metas)
    bodies = [b"", b"hello\n", "café".encode("latin-1"), "日本語".encode("shift_jis"), "hi".encode("utf-16"), bytes(range(256))[: rng.randint(0, 64)],
              b"x" * rng.choice([63, 64, 65, 90]), b"20 fake\r\nsecond header\r\n"]
    body = rng.choice(bodies) if status.startswith("2") or rng.random() < 0.15 else b""
    data = status.encode() + (b" " if rng.random() < 0.97 else b"") + meta.encode("utf-8") + rng.choice([b"\r\n"] * 8 + [b"\n", b""]) + body
    if rng.random() < 0.04: data = data[:3] + b"\xff" + data[3:]
    cut = rng.random()
    exc = None
    if cut < 0.12: data = data[: rng.randint(0, len(data))]          # closes early
    elif cut < 0.2: data = data[: rng.randint(0, len(data))]; exc = "ConnectionResetError"
    return ("stream", data, exc)

async def relay_once(loop, handler, up, chunker):
    from nauyaca.server.protocol import GeminiServerProtocol
    import nauyaca.client.protocol as cp
    cp.MAX_RESPONSE_BODY_SIZE = cd.CAP
    conns = []
    async def fake_cc(factory, host=None, port=None, ssl=None, server_hostname=None, **kw):
        conns.append((host, port))
        if up[0] == "connfail":
            raise ConnectionRefusedError(111, "Connection refused")
        proto = factory(); tr = cd.RecTransport([]); proto.connection_made(tr)
        if up[0] == "timeout":
            return tr, proto          # never answers
        def feed():
            try:
                for c in chunker(up[1]):
                    if tr.closed: break
                    proto.data_received(c)
                    if tr.closed:
                        proto.connection_lost(None); return
                proto.connection_lost(cd.InjectedReset(up[2]) if up[2] else None)
            except Exception as e:
                proto.connection_lost(e)
        loop.call_soon(feed)
        return tr, proto
    loop.create_connection = fake_cc
    acts = []
    try:
        p = GeminiServerProtocol(handler.handle)
        t = sd.FakeTransport(acts, ("192.0.2.1", 5), None)
        p.connection_made(t)
        p.data_received(b"gemini://front.example/x\r\n")
        for _ in range(400):
            await asyncio.sleep(0 if up[0] != "timeout" else 0.01)
            if t.closed: break
        if p.timeout_handle: p.timeout_handle.cancel()
    finally:
        del loop.create_connection
    wire = b"".join(a[1] for a in acts[: next((i for i, a in enumerate(acts) if a[0] == "c"), len(acts))] if a[0] == "w")
    return wire, t.closed, conns

def run(tier, seed):
    setup_impl()
    from nauyaca.server.proxy import ProxyHandler
    rng = random.Random(seed)
    res = Result()
    res.rule = ("upstream behaviours: every status class, metas with declared charsets (UTF-8, latin-1, Shift_JIS, UTF-16, unknown), binary bodies, sizes around the "
                "(substituted, %d-byte) cap, malformed headers (bare LF/CR in meta, +2, 3-digit, non-UTF-8, 1025-byte meta), early close and reset at random offsets, "
                "connection refused, stall beyond the location timeout; random segmentation; non-trivial = distinct upstream behaviour" % cd.CAP)
    n = 500 if tier == "quick" else 8000
    ups = [("stream", b"20 text/plain; charset=iso-8859-1\r\ncaf\xe9", None), ("stream", b"20 text/plain\nX: 1\r\nbody", None),
           ("stream", b"+20 text/plain\r\nbody", None), ("stream", b"31 gemini://other/\r\n", None), ("connfail",), ("timeout",)]
    # header-length boundary with the read boundary at every position around the CRLF (incl. between CR and LF)
    for mlen in (1023, 1024, 1025):
        data = b"20 " + b"m" * mlen + b"\r\nBODY"
        for cut in range(len(data) - 8, len(data)):
            ups.append(("stream", data, None, [cut]))
    for data in (b"20 text/plain\r\nhello", b"51 gone\r\n"):
        for cut in range(1, len(data)):
            ups.append(("stream", data, None, [cut]))
    # every media-type shape (empty = text/gemini by default, text with and without a charset, unknown / odd charset labels, binary)
    # with bodies that are not UTF-8: a relay has nothing to decode
    for meta in (b"", b" ", b"text/gemini", b"text/plain", b"TEXT/PLAIN", b"text/plain; charset=utf-8", b"text/plain; charset=bogus", b"text/plain; charset=utf-8\x00",
                 b"; charset=utf-16", b"application/octet-stream", b"text/x; charset="):
        for body in (b"\xff\xfe\x00raw \xe9\xe8 bytes\x80\n", b"\x80", b"caf\xe9"):
            ups.append(("stream", b"20 " + meta + b"\r\n" + body, None))
            ups.append(("stream", (b"20" if meta == b"" else b"21 " + meta) + b"\r\n" + body, None))
    for st in (b"10", b"20", b"31", b"51"):
        for m_ in ("Enter your name\x0c(second page)", "text/plain; charset=utf-8\u0085", "a\u2028b", "x\x1c\x1d\x1ey", "v\x0bt", "para\u2029graph", "trailing "):
            ups.append(("stream", st + b" " + m_.encode("utf-8") + b"\r\n" + (b"body stays\n" if st == b"20" else b""), None))
    ups += [gen_upstream(rng) for _ in range(n)]
    forced = {}
    def chunker(data):
        if id(data) in forced:
            pts = [0] + forced[id(data)] + [len(data)]
            return [data[a:b] for a, b in zip(pts, pts[1:])]
        if not data: return []
        k = rng.choice([0, 0, 1, 2, 4])
        cuts = sorted(set(rng.randrange(1, len(data)) for _ in range(k))) if len(data) > 1 else []
        pts = [0] + cuts + [len(data)]
        return [data[a:b] for a, b in zip(pts, pts[1:])]
    async def go():
        loop = asyncio.get_running_loop()
        h = ProxyHandler("gemini://up.example:1965", prefix="/", strip_prefix=False, timeout=0.15)
        out = []
        for up in ups:
            if len(up) > 3: forced[id(up[1])] = up[3]
            out.append(await relay_once(loop, h, up, chunker))
            forced.clear()
        return out
    impl = asyncio.run(go())
    # ---- an upstream slower than the front connection's own request timer (scaled: REQUEST_TIMEOUT 0.2 s, location timeout
    # 1.0 s): the request is complete, so that timer must not answer for the proxy - a slow upstream is relayed, a stalled one
    # gets 43 from the location timeout
    async def slow():
        import nauyaca.server.protocol as sp
        from nauyaca.server.protocol import GeminiServerProtocol
        loop = asyncio.get_running_loop()
        h = ProxyHandler("gemini://up.example:1965", prefix="/", strip_prefix=False, timeout=1.0)
        real = sp.REQUEST_TIMEOUT
        sp.REQUEST_TIMEOUT = 0.2
        outs = []
        try:
            for delay, reply in ((0.5, b"20 text/plain\r\nslow but fine"), (None, None)):
                async def fake_cc(factory, host=None, port=None, ssl=None, server_hostname=None, **kw):
                    proto = factory(); tr = cd.RecTransport([]); proto.connection_made(tr)
                    if delay is not None:
                        loop.call_later(delay, lambda: (proto.data_received(reply), proto.connection_lost(None)))
                    return tr, proto
                loop.create_connection = fake_cc
                acts = []
                try:
                    p = GeminiServerProtocol(h.handle)
                    t = sd.FakeTransport(acts, ("192.0.2.1", 5), None)
                    p.connection_made(t)
                    p.data_received(b"gemini://front.example/x\r\n")
                    t0 = loop.time()
                    while not t.closed and loop.time() - t0 < 2.5:
                        await asyncio.sleep(0.02)
                    if p.timeout_handle: p.timeout_handle.cancel()
                finally:
                    del loop.create_connection
                wire = b"".join(a[1] for a in acts[: next((i for i, a in enumerate(acts) if a[0] == "c"), len(acts))] if a[0] == "w")
                outs.append((delay, reply, wire, t.closed))
        finally:
            sp.REQUEST_TIMEOUT = real
        return outs
    for delay, reply, wire, closed in asyncio.run(slow()):
        res.evaluations += 1; res.count("slow-upstream")
        res.nontriv(("slow-upstream", delay))
        good = (wire == reply) if delay is not None else wire.startswith(b"43 ")
        if not good or not closed:
            res.violations.append({"clause": "a slow upstream is relayed / a stalled one answered 43 - not by the front connection's request timer",
                                   "signature": "C18:slow-upstream",
                                   "case": {"upstream_answers_after_s": delay, "request_timeout_s": 0.2, "location_timeout_s": 1.0},
                                   "trace": {"downstream": wire[:80].decode("latin-1"), "closed": closed}})
    # ---- through the configuration layer (TOML [[locations]] -> ServerConfig.from_toml -> get_location_router): several proxy
    # locations, some fronting the SAME upstream with DIFFERENT timeouts; an upstream that answers after d seconds is relayed by a
    # location whose timeout exceeds d and answered 43 by one whose timeout is shorter - each location's own timeout
    async def location_timeouts():
        from nauyaca.server.config import ServerConfig
        from nauyaca.protocol.request import GeminiRequest
        loop = asyncio.get_running_loop()
        tmp = scratch_dir("nv-c18-")
        outs = []
        try:
            layouts = [[("/archive/", "gemini://up.example:1965", 1.2), ("/live/", "gemini://up.example:1965", 0.25)],
                       [("/live/", "gemini://up.example:1965", 0.25), ("/archive/", "gemini://up.example:1965", 1.2)],
                       [("/a/", "gemini://up.example:1965", 0.25), ("/b/", "gemini://other.example:1965", 1.2), ("/c/", "gemini://up.example:1965", 1.2)]]
            if tier != "quick":
                layouts.append([("/x/", "gemini://up.example", 1.2), ("/y/", "gemini://up.example", 1.2), ("/z/", "gemini://up.example", 0.25)])
            delay, reply = 0.6, b"20 text/plain\r\nlate but complete"
            for li, layout in enumerate(layouts):
                toml = '[server]\nhost = "127.0.0.1"\nport = 1965\ndocument_root = "%s"\n' % tmp
                for prefix, up, to in layout:
                    toml += '\n[[locations]]\nprefix = "%s"\nhandler = "proxy"\nupstream = "%s"\ntimeout = %s\n' % (prefix, up, to)
                cf = os.path.join(tmp, "loc%d.toml" % li); open(cf, "w").write(toml)
                router = ServerConfig.from_toml(Path(cf)).get_location_router()
                async def one(prefix, to):
                    async def fake_cc(factory, host=None, port=None, ssl=None, server_hostname=None, **kw):
                        proto = factory(); tr = cd.RecTransport([]); proto.connection_made(tr)
                        loop.call_later(delay, lambda: None if tr.closed else (proto.data_received(reply), proto.connection_lost(None)))
                        return tr, proto
                    loop.create_connection = fake_cc
                    t0 = loop.time()
                    try:
                        r = router.route(GeminiRequest.from_line("gemini://front.example%sfeed" % prefix))
                        if asyncio.iscoroutine(r): r = await asyncio.wait_for(r, 3.0)
                        got = (r.status, r.meta, r.body if isinstance(r.body, (bytes, type(None))) else r.body.encode())
                    except Exception as e:
                        got = ("exception", type(e).__name__, None)
                    finally:
                        del loop.create_connection
                    return got, loop.time() - t0
                for prefix, up, to in layout:
                    got, took = await one(prefix, to)
                    outs.append((toml, prefix, to, got, took))
        finally:
            shutil.rmtree(tmp, ignore_errors=True)
        return outs
    for toml, prefix, to, got, took in asyncio.run(location_timeouts()):
        res.evaluations += 1; res.count("location-timeout")
        res.nontriv(("location-timeout", toml, prefix))
        # (no bound on the wall time: a location that waited for the upstream's answer relays it and is told apart by the status)
        good = (got == (20, "text/plain", b"late but complete")) if to > 0.6 else (got[0] == 43)
        if not good:
            res.violations.append({"clause": "status 43 when the upstream stalls beyond the LOCATION's timeout (and a slower-than-another-location's answer is relayed), for locations configured in a TOML file",
                                   "signature": "C18:location-timeout",
                                   "case": {"toml": toml, "request_path": prefix + "feed", "location_timeout_s": to, "upstream_answers_after_s": 0.6},
                                   "trace": {"response": [str(x)[:80] for x in got], "answered_after_s": round(took, 2)}})
    def enc_up(up):
        if up[0] == "stream": return ["stream", up[1], [up[2]] if up[2] else []]
        return [up[0]]
    mo = run_model_parallel([("relay", enc([cd.CAP, enc_up(u)])) for u in ups])
    mon = run_model_parallel([("C18.ok", enc([cd.CAP, enc_up(u), w, c])) for u, (w, c, conns) in zip(ups, impl)])
    for u, (w, closed, conns), m, ok in zip(ups, impl, mo, mon):
        res.evaluations += 1
        res.nontriv(u)
        model_wire = bytes(dec(m))
        res.count("downstream:" + (w[:2].decode("latin-1") if w[:3] != b"43 " else "43"))
        if len(conns) != 1:
            res.violations.append({"clause": "exactly-one-upstream-connection", "signature": "C18:conns", "case": {"upstream": str(u)[:300]}, "trace": {"connections": conns}})
        # error texts of 43 responses are not compared (only that it is a 43); everything else byte for byte
        if model_wire.startswith(b"43 "):
            same = w.startswith(b"43 ")
        else:
            same = (w == model_wire)
        if not same:
            res.disagreements.append({"driver": "relay", "case": {"upstream": str(u)[:400]}, "model": {"hex": model_wire.hex()}, "impl": {"hex": w.hex()}})
        if ok != enc(True):
            res.violations.append({"clause": "relay-verbatim-or-43", "signature": "C18:" + (w[:2].decode("latin-1") or "none"),
                                   "case": {"upstream": [u[0]] + [x.hex() if isinstance(x, bytes) else x for x in u[1:]]},
                                   "trace": {"downstream": {"hex": w.hex()}, "closed": closed}})
    res.sample({"upstream": str(ups[0]), "downstream": impl[0][0].hex()})
    res.sample({"upstream": str(ups[-1])[:300], "downstream": impl[-1][0].hex()[:300]})
    return res
