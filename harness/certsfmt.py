"""Correspondence for the fingerprint STRING (Model/Certs.v `fingerprint`, Dispatch entry certs.fingerprint_of_digest):
the real get_certificate_fingerprint(cert, alg) of /repo's working tree against the model applied to hashlib's digest of
the certificate's DER bytes - byte for byte, for the certificates of harness/certs.py (incl. the look-alike twins) plus
freshly generated ones (nauyaca.security.certificates.generate_self_signed_cert), both supported algorithms, the default
argument, get_certificate_fingerprint_from_path, and names the code must refuse.

What the model cannot say by itself (the oracles `der`, `sha256`, `sha1` of Proofs/Certs_format.v) is supplied here by
an independent route: DER = base64 body of the PEM text (ssl.PEM_cert_to_DER_cert, not cryptography's public_bytes),
digest = hashlib.  So a run also pins "the bytes that are hashed are the DER encoding" on the sampled certificates.

    run_format(res, tier)   adds to res.evaluations / res.count / res.nontriv / res.disagreements (common.Result)"""
import hashlib, os, ssl, shutil
from common import *
import certs as certmod

SUPPORTED = ("sha256", "sha1")
REFUSED = ("md5", "SHA256", "sha-256", "sha256 ", "", "sha512", "sha256:", "Sha1")

def _observe(f, *a):
    try:
        return enc(["ok", f(*a)])
    except Exception as e:          # the model names the class and the text
        return enc(["err", type(e).__name__, str(e)])

def run_format(res, tier):
    setup_impl()
    from pathlib import Path
    from cryptography import x509
    from nauyaca.security import certificates as C
    pool = [(c["name"], c["cert"], ssl.PEM_cert_to_DER_cert(c["pem"].decode()), c["pem"]) for c in certmod.certs()]
    for c in certmod.certs():
        if c["der"] != ssl.PEM_cert_to_DER_cert(c["pem"].decode()):
            res.disagreements.append({"driver": "certs.format", "case": {"cert": c["name"]}, "model": "DER = body of the PEM", "impl": "public_bytes(DER) differs"})
    n_fresh = 50 if tier == "quick" else 400
    for i in range(n_fresh):
        pem, _key = C.generate_self_signed_cert("nv-fmt-%d.example" % i, key_size=1024 if i % 5 else 2048, valid_days=1 + i)
        pool.append(("fresh%d" % i, x509.load_pem_x509_certificate(pem), ssl.PEM_cert_to_DER_cert(pem.decode()), pem))
    cases, impl, desc = [], [], []
    tmp = scratch_dir("nv-certsfmt-")
    try:
        for name, cert, der, pem in pool:
            for alg in SUPPORTED + REFUSED[:3]:
                digest = hashlib.new(alg, der).digest() if alg in SUPPORTED else b""
                cases.append(("certs.fingerprint_of_digest", enc([alg, digest])))
                impl.append(_observe(C.get_certificate_fingerprint, cert, alg))
                desc.append({"cert": name, "algorithm": alg, "call": "get_certificate_fingerprint(cert, algorithm)"})
                res.count("alg:" + (alg if alg in SUPPORTED else "refused"))
                res.nontriv(("fmt", der, alg))
            # the default argument (what every caller outside certificates.py uses) and the path variant
            cases.append(("certs.fingerprint_of_digest", enc(["sha256", hashlib.sha256(der).digest()])))
            impl.append(_observe(C.get_certificate_fingerprint, cert))
            desc.append({"cert": name, "algorithm": "(default)", "call": "get_certificate_fingerprint(cert)"})
            res.count("alg:default"); res.nontriv(("fmt-default", der))
            if name.startswith("fresh") and int(name[5:]) % 5 == 0 or not name.startswith("fresh"):
                p = os.path.join(tmp, name + ".pem")
                with open(p, "wb") as f: f.write(pem)
                for alg in (None, "sha1"):
                    cases.append(("certs.fingerprint_of_digest", enc([alg or "sha256", hashlib.new(alg or "sha256", der).digest()])))
                    impl.append(_observe(C.get_certificate_fingerprint_from_path, Path(p), *([alg] if alg else [])))
                    desc.append({"cert": name, "algorithm": alg or "(default)", "call": "get_certificate_fingerprint_from_path"})
                    res.count("from_path"); res.nontriv(("fmt-path", der, alg))
        for alg in REFUSED:
            name, cert, der, pem = pool[0]
            cases.append(("certs.fingerprint_of_digest", enc([alg, b""])))
            impl.append(_observe(C.get_certificate_fingerprint, cert, alg))
            desc.append({"cert": name, "algorithm": alg, "call": "get_certificate_fingerprint(cert, algorithm)"})
            res.count("alg:refused"); res.nontriv(("fmt-refused", alg))
    finally:
        shutil.rmtree(tmp, ignore_errors=True)
    out = run_model(cases)
    res.evaluations += len(cases)
    by = {id(c): d for c, d in zip(cases, desc)}
    compare(res, "certs.format", cases, impl, out, describe=lambda c: by.get(id(c), c), oom_ok=False)
    return res
