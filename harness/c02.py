"""C02: StaticFileHandler on real temp trees (symlink topologies, prefix-sharing sibling) x path
spellings, compared with Model/Static.v; containment judged with the operating system as referee."""
from pathlib import Path
from common import *
import fstree, urlimpl

def canon_impl(resp_or_exc):
    if isinstance(resp_or_exc, Exception):
        e = resp_or_exc
        if isinstance(e, ValueError) and "null" in str(e): return ["raise", "null-byte"]
        if isinstance(e, RuntimeError) and "Symlink loop" in str(e): return ["raise", "symlink-loop"]
        if isinstance(e, OSError): return ["raise", "oserror"]
        return ["raise", type(e).__name__]
    r = resp_or_exc
    if r.status == 20:
        body = r.body if isinstance(r.body, str) else (r.body or b"").decode("utf-8", "replace")
        if body.startswith("# Index of "):
            n = sum(1 for l in body.split("\n") if l.startswith("=> ") and not l.endswith(" .."))
            return ["listing", n]
        return ["serve", r.meta, body]
    meta = r.meta
    if meta.startswith("Error generating directory listing"): meta = "Error generating directory listing"
    return ["status", r.status, meta] + (["BODY"] if r.body else [])

def run(tier, seed):
    setup_impl()
    from nauyaca.server.handler import StaticFileHandler
    from nauyaca.protocol.request import GeminiRequest
    rng = random.Random(seed)
    res = Result()
    res.rule = ("generated document roots (nested directories, file/dir symlinks inside->inside, inside->outside, absolute, dangling, self-loops, targets that continue after a non-directory; a prefix-sharing sibling "
                "'rootx'; index files incl. symlinked ones and links to names of more than 255 bytes; default and configured index names (with slashes, absolute, over-long, NUL); "
                "undecodable and empty files) x spellings of every node (literal, percent-encoded, dot segments, //, %2e%2e, %2F, "
                "NUL, backslash, ;params, traversal to the sibling/outside) with listing on/off; non-trivial = distinct (tree, spelling, listing); "
                "every listing body byte for byte against Model/Listing.v; _format_file_size and str(Path(s).parent) on their own")
    tmp = scratch_dir("nv-c02-")
    ntrees = 60 if tier == "quick" else 1200
    mcases, iobs, meta, bodies = [], [], [], []
    indices_of = {}
    try:
        real_tmp = os.path.realpath(tmp)
        for ti in range(ntrees):
            fstree.clear(real_tmp)
            nodes = fstree.gen_tree(rng, odd_links=True)
            fstree.build(real_tmp, nodes)
            fsm = fstree.model_fs(real_tmp, nodes)
            root = os.path.join(real_tmp, "root")
            sentinels = {}
            for rel, kind, payload in nodes:
                if kind == "f" and b"SENTINEL" in payload[:12]:
                    tm = fstree.text_mode(payload)
                    sentinels[tm if tm is not None else payload.decode("utf-8", "replace")] = os.path.join(real_tmp, rel)
            for listing in (False, True):
                # index file names: the default pair, or a configured list (pathlib joins each name to the directory: slashes
                # separate components, an absolute name replaces the directory; an over-long name makes is_file() raise)
                indices = ["index.gmi", "index.gemini"]
                if rng.random() < 0.3:
                    indices = rng.choice([
                        ["L" * 300, "index.gmi"], ["index.gmi", "L" * 256], ["sub/index.gmi", "index.gemini"], ["sub/" + "L" * 300, "index.gmi"],
                        [os.path.join(real_tmp, "root", "a"), "index.gmi"], [os.path.join(real_tmp, "outside", "secret.txt"), "index.gmi"],
                        [os.path.join(real_tmp, "rootx", "sib.gmi")], ["nul\x00name", "index.gmi"], ["../rootx/sib.gmi", "index.gemini"], ["..", "index.gmi"],
                        ["./index.gmi"], ["sub/", "b.gmi"], ["a", "b.gmi", "c.gemini"], ["missing", "sub/../index.gmi"]])
                indices_of[(ti, listing)] = indices
                h = StaticFileHandler(root, default_indices=list(indices), enable_directory_listing=listing, max_file_size=64)
                rels = [""] + [rel[len("root/"):] for rel, k, p in nodes if rel.startswith("root/")]
                paths = []
                for rel in rels:
                    paths += fstree.spellings(rng, rel)
                # one link spelled "through" another (a loop in front of a link defeats non-strict resolve())
                links = [rel[len("root/"):] for rel, k, p in nodes if rel.startswith("root/") and k == "l"]
                for a in links[-6:]:
                    paths += ["/%s/secret.txt" % a, "/%s/" % a, "/%s/sib.gmi" % a]
                for a in links[:4]:
                    for b in links[:4]:
                        up_n = "/".join([".."] * (a.count("/") + 1))
                        paths += ["/%s/%s/%s/secret.txt" % (a, up_n, b), "/%s/%s/%s" % (a, up_n, b), "/%s/x/../%s/%s" % (a, up_n, b)]
                # reachability, judged directly: a regular, decodable, small file reached through real directories only is served -
                # with its OWN content - when requested by its own path, every byte of every name percent-encoded
                kinds = {rel: k for rel, k, p in nodes}
                for rel, kind, payload in nodes:
                    if kind != "f" or not rel.startswith("root/"): continue
                    segs_ = fstree.comps(rel)[1:]
                    anc = ["root/" + "/".join(segs_[:i]) for i in range(1, len(segs_))]
                    if any(kinds.get(a) != "d" for a in anc) or len(payload) > 64 or fstree.text_mode(payload) is None: continue
                    if any(len(x.encode("utf-8")) > 255 for x in segs_): continue
                    own = "/" + "/".join(fstree.pct(x, full=True) for x in segs_)
                    try:
                        r_ = h.handle(GeminiRequest.from_line("gemini://h" + own))
                        got_ = (r_.status, r_.body if isinstance(r_.body, str) else (r_.body or b"").decode("utf-8", "replace"))
                    except Exception as e_:
                        got_ = ("raise", type(e_).__name__)
                    res.evaluations += 1; res.count("reachability")
                    if got_ != (20, fstree.text_mode(payload)):
                        res.violations.append({"clause": "every regular file inside the root is served when requested by its own path (percent-encoded)", "signature": "C02:reachability",
                                               "case": {"file": rel, "request_path": own, "tree": [[a, b_, (c.decode("utf-8", "replace") if isinstance(c, bytes) else c)] for a, b_, c in nodes][:40]},
                                               "trace": {"expected": [20, fstree.text_mode(payload)], "received": [str(got_[0]), str(got_[1])[:120]]}})
                for up in paths:
                    try:
                        req = GeminiRequest.from_line("gemini://h" + up)
                    except ValueError:
                        continue
                    try:
                        out = h.handle(req)
                    except Exception as e:
                        out = e
                    ci = canon_impl(out)
                    cfg = [fstree.comps(root), indices, listing, 64]
                    mcases.append(("static", enc([cfg, fsm, req.path])))
                    iobs.append(ci)
                    # a listing body is compared byte for byte with Model/Listing.v (driver "listing_text")
                    bodies.append((fsm, req.path, out.body if ci[0] == "listing" and isinstance(out.body, str) else None))
                    # OS-refereed facts for the monitor
                    served, leaks = [], False
                    if ci[0] == "serve":
                        key = ci[2]
                        if key in sentinels: served = [fstree.comps(os.path.realpath(sentinels[key]))]
                        elif key == "": served = [fstree.comps(root)]     # an empty file: attributed to the root (cannot leak)
                    elif ci[0] == "listing":
                        # the directory shown is identified by the marker file name that only it contains
                        body = out.body if isinstance(out.body, str) else ""
                        for rel, kind, payload in nodes:
                            if kind == "f" and "/zz-dirid-" in rel and (" " + os.path.basename(rel) + " ") in body:
                                served = [fstree.comps(os.path.realpath(os.path.dirname(os.path.join(real_tmp, rel))))]
                                break
                        # a listing shows names and sizes: any file CONTENT in it (of a file inside or outside the root) is a leak
                        shown = [s_ for s_ in sentinels if s_.lstrip("# ") and s_.lstrip("# ") in body]
                        if shown:
                            res.violations.append({"clause": "a directory listing reveals no content of any file", "signature": "C02:listing-content",
                                                   "case": {"path": up, "listing": listing, "tree": [[a, b_, (c.decode("utf-8", "replace") if isinstance(c, bytes) else c)] for a, b_, c in nodes][:40]},
                                                   "trace": {"content_found_in_the_listing": shown[:3], "of_file": [sentinels[x] for x in shown[:3]]}})
                    else:
                        text = str(out) if isinstance(out, Exception) else (out.meta + (out.body or "" if isinstance(out.body, str) else ""))
                        leaks = any(s in text for s in sentinels)
                    status = 20 if ci[0] in ("serve", "listing") else (ci[1] if ci[0] == "status" else 40)
                    meta.append((ti, listing, up, ci, fstree.comps(root), status, served, leaks, nodes))
                    res.evaluations += 1
                    res.count("impl:" + ci[0] + (":%s" % ci[1] if ci[0] in ("status", "raise") else ""))
                    res.nontriv((ti, up, listing))
    finally:
        shutil.rmtree(tmp, ignore_errors=True)
    out = run_model_parallel(mcases)
    OOM = enc(["oom"])
    for (ti, listing, up, ci, root, status, served, leaks, nodes), mo in zip(meta, out):
        if mo == OOM:
            res.out_of_model += 1; continue
        m = dec(mo)
        tag = m[0].text()
        if tag == "serve": mm = ["serve", m[2].text(), m[3].text()]
        elif tag == "listing": mm = ["listing", m[2].int()]
        elif tag == "status": mm = ["status", m[1].int(), m[2].text()]
        else: mm = ["raise", m[1].text()]
        if mm != ci:
            res.disagreements.append({"driver": "static", "case": {"tree": [[a, b, (c.decode("utf-8", "replace") if isinstance(c, bytes) else c)] for a, b, c in nodes],
                                                                    "listing": listing, "path": up, "indices": [i[:80] for i in indices_of[(ti, listing)]]}, "model": mm, "impl": ci})
    # the TEXT of every listing the real handler produced: generate_directory_listing(d, request.path) against
    # Listing.listing_text on the directory d the model's handle() lists
    lcases, lmeta = [], []
    for i, ((ti, listing, up, ci, root, status, served, leaks, nodes), mo_) in enumerate(zip(meta, out)):
        fsm, rpath, body = bodies[i]
        if body is None or mo_ == OOM: continue
        m = dec(mo_)
        if m[0].text() != "listing": continue          # already reported by the driver "static"
        lcases.append(("static.listing_text", enc([fsm, [a.text() for a in m[1]], rpath])))
        lmeta.append((ti, listing, up, nodes, body))
    for (ti, listing, up, nodes, body), lo in zip(lmeta, run_model_parallel(lcases)):
        m = dec(lo)
        mt = m[1].text() if m[0].text() == "ok" else None
        res.evaluations += 1
        res.count("listing_text:compared")
        if mt != body:
            res.disagreements.append({"driver": "listing_text", "case": {"tree": [[a, b, (c.decode("utf-8", "replace") if isinstance(c, bytes) else c)] for a, b, c in nodes],
                                                                          "listing": listing, "path": up}, "model": mt, "impl": body})
    # the two pure functions of content/gemtext.py on their own: _format_file_size around every threshold (and beyond 2^53,
    # where the int is rounded to a float), str(Path(s).parent) on slash / dot patterns
    from nauyaca.content.gemtext import _format_file_size
    sizes = set()
    for k in (0, 10, 20, 30, 40, 50, 53, 54, 60, 63, 70):
        for mul in (1, 10, 1000, 1023, 1024):
            for dlt in (-2, -1, 0, 1, 2, 51, 52, 102, 103, 512):
                v = mul * 2 ** k + dlt
                if v >= 0: sizes.add(v)
    for _ in range(300 if tier == "quick" else 5000):
        sizes.add(rng.getrandbits(rng.choice([8, 12, 16, 21, 26, 33, 41, 47, 55, 64])))
    sizes = sorted(sizes)
    for v, lo in zip(sizes, run_model_parallel([("gemtext.size", enc(v)) for v in sizes])):
        res.evaluations += 1
        res.count("format_file_size:compared")
        if dec(lo).text() != _format_file_size(v):
            res.disagreements.append({"driver": "format_file_size", "case": {"size": v}, "model": dec(lo).text(), "impl": _format_file_size(v)})
    pstrs = ["", "/", "//", "///", "/a", "/a/", "//a", "//a/", "///a/b/", "a/", "a/b/", "./", "/./", "/a/./", "/a/../", "/../", "/a//b//", "/%2e%2e/", "/a b/", "/\u00e9/x/", ".", "..", "../", "/a/.", "//a//b/./"]
    for _ in range(200 if tier == "quick" else 3000):
        pstrs.append("".join(rng.choice(["/", "/", "a", ".", "..", "b c", "%2F"]) for _ in range(rng.randint(0, 7))))
    for v, lo in zip(pstrs, run_model_parallel([("gemtext.parent", enc(v)) for v in pstrs])):
        res.evaluations += 1
        res.count("path_parent:compared")
        if dec(lo).text() != str(Path(v).parent):
            res.disagreements.append({"driver": "path_parent", "case": {"base": v}, "model": dec(lo).text(), "impl": str(Path(v).parent)})
    mo = run_model_parallel([("C02.ok", enc([root, status, served, leaks])) for (ti, listing, up, ci, root, status, served, leaks, nodes) in meta])
    for me, m in zip(meta, mo):
        if m != enc(True):
            res.violations.append({"clause": "containment", "signature": "C02:" + me[3][0],
                                   "case": {"tree": [[a, b, (c.decode("utf-8", "replace") if isinstance(c, bytes) else c)] for a, b, c in me[8]], "listing": me[1], "path": me[2]},
                                   "trace": {"response": me[3], "resolved_location_of_delivered_content": me[6]}})
    # reachability: every regular, decodable, small file reached through real directories is served by its literal and its percent-encoded path
    # (checked on the fly above through the literal/percent spellings: a model/implementation agreement on OServe)
    if meta:
        res.sample({"path": meta[0][2], "response": meta[0][3]}); res.sample({"path": meta[-1][2], "response": meta[-1][3]})
    return res

def urlimpl_unquote(p):
    from urllib.parse import unquote
    return unquote(p)
