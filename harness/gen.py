"""Regeneration of coq/Gen/PyGen.v from /repo's working tree (translate/py2coq.py) and re-checking of the
Gen = Model lemmas (Proofs/Equiv_proofs.v, Equiv/Equiv.v).  Called by check.py before the Props file of a
property whose tie theorem refers to them is compiled."""
import os, subprocess, fcntl, hashlib
VERIF = os.path.dirname(os.path.dirname(os.path.abspath(__file__)))
COQ = os.path.join(VERIF, "coq")
import json
TRANSLATORS = {k: (v["script"], v["gen"], v["chain"], set(v["pids"]))
               for k, v in json.load(open(os.path.join(VERIF, "translate", "chains.json"))).items()}
def translators_for(pid):
    return [k for k, v in TRANSLATORS.items() if pid in v[3]]

def _fresh(v):
    vo = os.path.join(COQ, v[:-2] + ".vo")
    return os.path.exists(vo) and os.path.getmtime(vo) >= os.path.getmtime(os.path.join(COQ, v))

def regen_py2coq():
    return regen("py2coq")

def regen(which, force=False):
    """-> (ok, message, info)"""
    script, genfile, CHAIN, _ = TRANSLATORS[which]
    lock = open(os.path.join(VERIF, ".build.lock2"), "w")
    fcntl.flock(lock, fcntl.LOCK_EX)
    try:
        out = os.path.join(COQ, genfile)
        tmp = out + ".new"
        rc = subprocess.run(["python3", os.path.join(VERIF, "translate", script), tmp], capture_output=True, text=True)
        if rc.returncode != 0:
            try: os.unlink(tmp)
            except OSError: pass
            return False, script + " refused the source (outside the translated subset): " + (rc.stdout + rc.stderr)[-1200:], {}
        new = open(tmp).read()
        old = open(out).read() if os.path.exists(out) else None
        info = {"generated_file": genfile, "generated_sha1": hashlib.sha1(new.encode()).hexdigest(), "changed": new != old}
        if new != old:
            os.replace(tmp, out)
        else:
            os.unlink(tmp)
        rebuild = (new != old) or force
        for v in CHAIN:
            if rebuild or not _fresh(v):
                rebuild = True
                vo = os.path.join(COQ, v[:-2] + ".vo")
                if os.path.exists(vo): os.unlink(vo)
                rc = subprocess.run("timeout 600 coqc -Q . NV " + v, shell=True, cwd=COQ, capture_output=True, text=True)
                if rc.returncode != 0:
                    return False, "%s no longer checks against the definitions regenerated from the source:\n%s" % (v, (rc.stdout + rc.stderr)[-1500:]), info
        return True, "", info
    finally:
        fcntl.flock(lock, fcntl.LOCK_UN); lock.close()
