"""Regeneration of coq/Gen/PyGen.v from /repo's working tree (translate/py2coq.py) and re-checking of the
Gen = Model lemmas (Proofs/Equiv_proofs.v, Equiv/Equiv.v).  Called by check.py before the Props file of a
property whose tie theorem refers to them is compiled."""
import os, subprocess, fcntl, hashlib
VERIF = os.path.dirname(os.path.dirname(os.path.abspath(__file__)))
COQ = os.path.join(VERIF, "coq")
import json
TRANSLATORS = {k: (v["script"], v["gen"], v["chain"], set(v["pids"]))
               for k, v in json.load(open(os.path.join(VERIF, "translate", "chains.json"))).items()}
def translators_for(pid):
    return [k for k, v in TRANSLATORS.items() if pid in v[3]]

import re
def _deps(v):
    """the NV modules a file requires, as paths relative to coq/ (only those whose source exists)"""
    try: src = open(os.path.join(COQ, v)).read()
    except OSError: return []
    out = []
    for m in re.finditer(r"From\s+NV\s+Require\s+(?:Import\s+|Export\s+)?(.*?)\.(?=\s)", src + "\n", re.S):
        for name in m.group(1).split():
            f = name.replace(".", "/") + ".v"
            if os.path.exists(os.path.join(COQ, f)): out.append(f)
    for m in re.finditer(r"Require\s+(?:Import\s+|Export\s+)?((?:NV\.\S+\s*)+)\.(?=\s)", src + "\n"):
        for name in m.group(1).split():
            f = name[3:].replace(".", "/") + ".v"
            if os.path.exists(os.path.join(COQ, f)): out.append(f)
    return out

def _fresh(v):
    """compiled, not older than its source, and not older than the compiled form of anything it requires (a file of another
    chain may have been recompiled since: loading both would fail with "inconsistent assumptions")"""
    vo = os.path.join(COQ, v[:-2] + ".vo")
    if not (os.path.exists(vo) and os.path.getmtime(vo) >= os.path.getmtime(os.path.join(COQ, v))): return False
    t = os.path.getmtime(vo)
    for d in _deps(v):
        dvo = os.path.join(COQ, d[:-2] + ".vo")
        if not os.path.exists(dvo) or os.path.getmtime(dvo) > t: return False
    return True

def _chain_of(v):
    for k, t in TRANSLATORS.items():
        if v in t[2]: return k
    return None

def regen_py2coq():
    return regen("py2coq")

def regen(which, force=False, _seen=None):
    """-> (ok, message, info)"""
    script, genfile, CHAIN, _ = TRANSLATORS[which]
    # chains whose files this chain requires come first (e.g. wiring -> mw, cliclient -> session, gemtext -> static)
    _seen = (_seen or set()) | {which}
    for v in CHAIN:
        for d in _deps(v):
            k = _chain_of(d)
            if k and k not in _seen:
                _seen.add(k)
                ok, msg, _i = regen(k, force, _seen)
                if not ok: return False, "(prerequisite chain %s) %s" % (k, msg), {}
    lock = open(os.path.join(VERIF, ".build.lock2"), "w")
    fcntl.flock(lock, fcntl.LOCK_EX)
    try:
        out = os.path.join(COQ, genfile)
        tmp = out + ".new"
        rc = subprocess.run(["python3", os.path.join(VERIF, "translate", script), tmp], capture_output=True, text=True)
        if rc.returncode != 0:
            try: os.unlink(tmp)
            except OSError: pass
            return False, script + " refused the source (outside the translated subset): " + (rc.stdout + rc.stderr)[-1200:], {}
        new = open(tmp).read()
        old = open(out).read() if os.path.exists(out) else None
        info = {"generated_file": genfile, "generated_sha1": hashlib.sha1(new.encode()).hexdigest(), "changed": new != old}
        if new != old:
            os.replace(tmp, out)
        else:
            os.unlink(tmp)
        rebuild = (new != old) or force
        for v in CHAIN:
            if rebuild or not _fresh(v):
                rebuild = True
                vo = os.path.join(COQ, v[:-2] + ".vo")
                if os.path.exists(vo): os.unlink(vo)
                rc = subprocess.run("timeout 600 coqc -Q . NV " + v, shell=True, cwd=COQ, capture_output=True, text=True)
                if rc.returncode != 0 and "inconsistent assumptions" in (rc.stdout + rc.stderr) and not force:
                    # a stale compiled file somewhere below: rebuild this chain and its prerequisites from their generated files
                    fcntl.flock(lock, fcntl.LOCK_UN)
                    return regen(which, True)
                if rc.returncode != 0:
                    return False, "%s no longer checks against the definitions regenerated from the source:\n%s" % (v, (rc.stdout + rc.stderr)[-1500:]), info
        return True, "", info
    finally:
        fcntl.flock(lock, fcntl.LOCK_UN); lock.close()
