"""In-memory TLS: a PyOpenSSL client connection talking to nauyaca's TLSServerProtocol through a
fake TCP transport (no sockets).  Used by C06 (large bodies), C07 (ciphertext segmentation),
C15 (handshake stalls) and C20."""
import os, tempfile, shutil
from OpenSSL import SSL, crypto

_CTX = {}
def server_ctx(request_client_cert=True):
    key = ("srv", request_client_cert)
    if key not in _CTX:
        from nauyaca.security.certificates import generate_self_signed_cert
        from nauyaca.security.pyopenssl_tls import create_pyopenssl_server_context
        d = tempfile.mkdtemp(prefix="nv-tls-", dir="/var/tmp")
        try:
            cert, k = generate_self_signed_cert(hostname="localhost", key_size=2048, valid_days=5)
            open(os.path.join(d, "c.pem"), "wb").write(cert); open(os.path.join(d, "k.pem"), "wb").write(k)
            _CTX[key] = create_pyopenssl_server_context(os.path.join(d, "c.pem"), os.path.join(d, "k.pem"), request_client_cert=request_client_cert)
        finally:
            shutil.rmtree(d, ignore_errors=True)
    return _CTX[key]

def client_ctx(min_version=None, max_version=None):
    ctx = SSL.Context(SSL.TLS_CLIENT_METHOD)
    ctx.set_verify(SSL.VERIFY_NONE, lambda *a: True)
    if min_version is not None: ctx.set_min_proto_version(min_version)
    if max_version is not None: ctx.set_max_proto_version(max_version)
    return ctx

class MemTCP:
    """Fake TCP transport.  With flow=True it behaves like an asyncio transport with write flow control: it calls the protocol's
    pause_writing() when more than HIGH bytes are buffered and resume_writing() once the reader has drained it below LOW."""
    HIGH, LOW = 65536, 16384
    def __init__(self, peer=("192.0.2.9", 4000), flow=False):
        self.out = bytearray(); self.closed = False; self.peer = peer; self.writes = []
        self.flow = flow; self.proto = None; self.paused = False; self.pauses = 0
    def write(self, b):
        if not self.closed:
            self.out += b; self.writes.append(len(b))
            if self.flow and self.proto is not None and not self.paused and len(self.out) > self.HIGH:
                self.paused = True; self.pauses += 1; self.proto.pause_writing()
    def drained(self):
        if self.flow and self.proto is not None and self.paused and len(self.out) <= self.LOW:
            self.paused = False; self.proto.resume_writing()
    def close(self): self.closed = True
    def abort(self): self.closed = True
    def _force_close(self, exc): self.closed = True
    def is_closing(self): return self.closed
    def get_extra_info(self, name, default=None): return self.peer if name == "peername" else default

class Pair:
    """client <-> TLSServerProtocol(inner_factory).  Everything is synchronous."""
    def __init__(self, inner_factory, request_client_cert=True, cctx=None, flow=False):
        from nauyaca.server.tls_protocol import TLSServerProtocol
        self.tcp = MemTCP(flow=flow)
        self.server = TLSServerProtocol(inner_factory, server_ctx(request_client_cert))
        self.tcp.proto = self.server
        self.server.connection_made(self.tcp)
        self.client = SSL.Connection(cctx or client_ctx(), None)
        self.client.set_connect_state()
        self.plain = bytearray()      # application bytes the client has read
        self.eof = False
        self.handshaken = False
    def to_server(self, cut=None):
        """move pending client ciphertext to the server, optionally in pieces (list of sizes)"""
        try:
            data = self.client.bio_read(1 << 20)
        except SSL.WantReadError:
            return 0
        if cut:
            i = 0
            for n in cut:
                if i >= len(data): break
                self.server.data_received(data[i:i + n]); i += n
            if i < len(data): self.server.data_received(data[i:])
        else:
            self.server.data_received(data)
        return len(data)
    def to_client(self):
        if self.tcp.out:
            self.client.bio_write(bytes(self.tcp.out)); del self.tcp.out[:]
            return True
        return False
    def handshake(self, rounds=10):
        for _ in range(rounds):
            try:
                self.client.do_handshake(); self.handshaken = True
            except SSL.WantReadError:
                pass
            moved = self.to_server()
            moved2 = self.to_client()
            if self.handshaken and not moved and not moved2:
                break
        return self.handshaken
    def client_send(self, data):
        self.client.sendall(data)
    async def client_read_slowly(self, burst=40000):
        """a slow / bursty reader: takes `burst` bytes of ciphertext at a time and lets the event loop run in between; the
        transport resumes the protocol when its buffer has drained"""
        import asyncio
        for _ in range(100000):
            if not self.tcp.out:
                await asyncio.sleep(0)
                if not self.tcp.out:
                    break
            n = min(burst, len(self.tcp.out))
            self.client.bio_write(bytes(self.tcp.out[:n])); del self.tcp.out[:n]
            self.tcp.drained()
            await asyncio.sleep(0)
            while True:
                try:
                    chunk = self.client.recv(65536)
                    if not chunk: break
                    self.plain += chunk
                except SSL.WantReadError:
                    break
                except SSL.ZeroReturnError:
                    self.eof = True; break
                except SSL.Error:
                    break
        return bytes(self.plain)
    def client_read_all(self):
        self.to_client()
        while True:
            try:
                chunk = self.client.recv(65536)
                if not chunk: break
                self.plain += chunk
            except SSL.WantReadError:
                break
            except SSL.ZeroReturnError:
                self.eof = True; break
            except SSL.Error:
                break
        return bytes(self.plain)
