"""Run the real nauyaca.utils.url functions and observe them in the model's vocabulary."""
import urllib.parse, ipaddress
from common import enc

_orig_check = urllib.parse._check_bracketed_host
_calls = []

def _recording_check(hostname):
    if hostname.startswith("v"):
        return _orig_check(hostname)
    try:
        _orig_check(hostname)
    except ValueError as e:
        _calls.append((hostname, str(e)))
        raise
    _calls.append((hostname, None))

urllib.parse._check_bracketed_host = _recording_check

PREFIX_KIND = [
    ("URL cannot be empty", "empty"), ("URL missing scheme: ", "no_scheme"), ("Invalid scheme '", "bad_scheme"),
    ("URL missing hostname: ", "no_host"), ("URL must not contain userinfo", "userinfo"),
    ("URL must not contain fragment", "fragment"), ("Port could not be cast to integer value", "port"),
    ("Port out of range 0-65535", "port"), ("URL too long", "too_long"),
]

def classify(msg):
    for p, k in PREFIX_KIND:
        if msg.startswith(p):
            return k, msg
    return "urlsplit", msg

def lower_host(h):
    a, p, z = h.partition("%")
    return a.lower() + p + z

def oracle_assumptions_hold(table):
    """The two hypotheses the C19 theorem puts on the ip6 oracle, checked on every recorded call."""
    bad = []
    for h, msg in table:
        if msg is None:
            try:
                ipaddress.ip_address(lower_host(h))
            except ValueError:
                bad.append(("lower_host not accepted", h))
            pre = h.partition("%")[0]
            if not all(c in "0123456789abcdefABCDEF:." for c in pre):
                bad.append(("non hex/colon/dot char accepted", h))
    return bad

def observe_parse(u, fn=None):
    """Returns (obs_python, oracle_table). obs: ("ok", host, port, path, query, norm) | ("err", kind, msg)."""
    from nauyaca.utils.url import parse_url
    urllib.parse.clear_cache()
    del _calls[:]
    try:
        p = (fn or parse_url)(u)
        obs = ["ok", p.hostname, p.port, p.path, p.query, p.normalized]
    except ValueError as e:
        k, m = classify(str(e))
        obs = ["err", k, m]
    table = [[h, [] if m is None else [m]] for h, m in _calls]
    return obs, table, list(_calls)
