"""C12: trust-store operations on real SQLite files, interrupted after every mutating statement
(abandoned transaction in-process; a sample by killing a subprocess), import files with the defect at
every position in merge and replace mode, export/import round trips - against Model/Tofu.v."""
import sqlite3 as real_sqlite3, subprocess, itertools, types
from pathlib import Path
from common import *
import certs as certmod

class Crash(BaseException):
    pass

class CountingCursor:
    def __init__(self, cur, ctl): self._c, self._ctl = cur, ctl
    def execute(self, sql, params=()):
        if sql.strip().split()[0].upper() in ("INSERT", "UPDATE", "DELETE"):
            self._ctl.tick()
        return self._c.execute(sql, params)
    def fetchone(self): return self._c.fetchone()
    def fetchall(self): return self._c.fetchall()
    @property
    def rowcount(self): return self._c.rowcount

class CountingConn:
    def __init__(self, conn, ctl): self._conn, self._ctl = conn, ctl
    def cursor(self): return CountingCursor(self._conn.cursor(), self._ctl)
    def commit(self):
        self._ctl.tick(); return self._conn.commit()
    def close(self): return self._conn.close()
    @property
    def row_factory(self): return self._conn.row_factory
    @row_factory.setter
    def row_factory(self, v): self._conn.row_factory = v

class Ctl:
    """interrupt before the (k+1)-th mutating statement: mode 'abandon' (BaseException), 'error' (sqlite error), 'kill'"""
    def __init__(self, k, mode): self.k, self.mode, self.n = k, mode, 0
    def tick(self):
        if self.k is not None and self.n == self.k:
            if self.mode == "kill": os._exit(77)
            if self.mode == "error": raise real_sqlite3.OperationalError("injected I/O error")
            raise Crash()
        self.n += 1

def patched_sqlite(ctl):
    m = types.SimpleNamespace(**{k: getattr(real_sqlite3, k) for k in dir(real_sqlite3) if not k.startswith("__")})
    m.connect = lambda *a, **kw: CountingConn(real_sqlite3.connect(*a, **kw), ctl)
    return m

HOSTS = ["example.com", "Example.COM", "2001:DB8::1", "2001:db8::1", "a.b", "[::1]", "::1", "host:with:colons", 'q"uote', "üñí.example", "dotted.name.example.org", "key = 'x'", "tab\tname", "a#b", "x]y[z", "multi\nline",
         # names that are SQL LIKE / GLOB patterns of one another (a zone identifier, an underscore, a star) and case variants
         "fe80::1%eth0", "fe80::1a%eth0", "fe80::1:2%eth0", "my_host.example", "my-host.example", "myxhost.example", "%", "_", "a*b", "a.b*", "A.B"]

def read_rows(path, known_first):
    con = real_sqlite3.connect(str(path))
    try:
        rows = con.execute("SELECT hostname, port, fingerprint, first_seen FROM known_hosts").fetchall()
    finally:
        con.close()
    return sorted([[h, p, fp, fs if fs in known_first else "NOW"] for h, p, fp, fs in rows], key=lambda r: (r[0], r[1]))

def seed_db(path, rows):
    import nauyaca.security.tofu as tofu
    tofu.sqlite3 = real_sqlite3
    db = tofu.TOFUDatabase(Path(path))
    con = real_sqlite3.connect(str(path))
    for h, p, fp, fs in rows:
        con.execute("INSERT INTO known_hosts VALUES (?,?,?,?,?)", (h, p, fp, fs, "LS"))
    con.commit(); con.close()
    return db

def toml_for(entries, tmp, name):
    import tomli_w
    hosts = {}
    for i, e in enumerate(entries):
        d = {}
        if e["complete"]:
            d = {"hostname": e["host"], "port": e["port"], "fingerprint": e["fp"], "first_seen": e["first"], "last_seen": "LS"}
        else:
            d = {"hostname": e["host"], "port": e["port"], "fingerprint": e["fp"], "last_seen": "LS"}   # first_seen missing
        hosts["k%d:%s" % (i, e["host"])] = d
    p = Path(tmp) / name
    with open(p, "wb") as f:
        tomli_w.dump({"_metadata": {"version": "1.0"}, "hosts": hosts}, f)
    return p

def apply_op(db, op, cs, tmp):
    """run the real operation; returns None or raises"""
    kind = op[0]
    if kind == "trust": return db.trust(op[1], op[2], cs[op[3]]["cert"])
    if kind == "verify": return db.verify(op[1], op[2], cs[op[3]]["cert"])
    if kind == "revoke": return db.revoke(op[1], op[2])
    if kind == "revoke_host": return db.revoke_by_hostname(op[1])
    if kind == "clear": return db.clear()
    if kind == "import":
        cbk = {"none": None, "update": lambda *a: True, "skip": lambda *a: False, "raise": lambda *a: (_ for _ in ()).throw(RuntimeError("cb"))}[op[3]]
        return db.import_toml(toml_for(op[2], tmp, "imp.toml"), merge=op[1], on_conflict=cbk)
    raise ValueError(kind)

def enc_op(op, cs):
    kind = op[0]
    if kind == "trust": return ["trust", op[1], op[2], cs[op[3]]["fp"], "NOW"]
    if kind == "verify": return ["verify", op[1], op[2], cs[op[3]]["fp"]]
    if kind in ("revoke",): return ["revoke", op[1], op[2]]
    if kind == "revoke_host": return ["revoke_host", op[1]]
    if kind == "clear": return ["clear"]
    if kind == "import":
        es = [[e["host"], e["port"] if isinstance(e["port"], int) else 0, isinstance(e["port"], int) and not isinstance(e["port"], bool),
               e["fp"], e["first"], e["complete"]] for e in op[2]]
        return ["import", op[1], es, op[3]]

FAMILIES = [["fe80::1%eth0", "fe80::1a%eth0", "fe80::1:2%eth0"], ["my_host.example", "my-host.example", "myxhost.example"],
            ["%", "_", "a.b", "A.B"], ["a*b", "a.b*", "a.b", "axb"], ["example.com", "Example.COM", "EXAMPLE.com"]]
def gen_store(rng, cs):
    if rng.random() < 0.25:
        # a family of names that are patterns / case variants of one another, all on one port
        fam = rng.choice(FAMILIES); port = rng.choice([1965, 1966])
        return [[h, port, rng.choice(cs)["fp"], "F%d" % i] for i, h in enumerate(fam)]
    n = rng.randint(0, 4)
    keys = set(); rows = []
    for _ in range(n):
        h, p = rng.choice(HOSTS), rng.choice([1965, 1966, 1, 65535])
        if (h, p) in keys: continue
        keys.add((h, p))
        rows.append([h, p, rng.choice(cs)["fp"], "F%d" % len(rows)])
    return rows

def gen_entries(rng, cs, store):
    es = []
    for _ in range(rng.randint(1, 4)):
        k = rng.random()
        if store and k < 0.4:
            r = rng.choice(store); h, p = r[0], r[1]
        else:
            h, p = rng.choice(HOSTS), rng.choice([1965, 1966, 70])
        es.append({"host": h, "port": p, "fp": rng.choice(cs)["fp"], "first": "I%d" % len(es), "complete": True})
    if rng.random() < 0.6:        # one defect at a random position
        e = rng.choice(es)
        d = rng.choice(["missing", "port0", "port70000", "portstr", "badfp", "upperfp", "dup", "fp_lf", "fp_lf2", "fp_short", "fp_space"])
        if d == "missing": e["complete"] = False
        elif d == "port0": e["port"] = 0
        elif d == "port70000": e["port"] = 70000
        elif d == "portstr": e["port"] = "1965"
        elif d == "badfp": e["fp"] = "sha256:xyz"
        elif d == "upperfp": e["fp"] = e["fp"].upper()
        elif d == "fp_lf": e["fp"] = e["fp"] + "\n"          # accepted: `$` of re.match also matches before a final line feed
        elif d == "fp_lf2": e["fp"] = e["fp"] + "\n\n"
        elif d == "fp_short": e["fp"] = e["fp"][:-1]
        elif d == "fp_space": e["fp"] = e["fp"] + " "
        elif d == "dup": es.append(dict(es[0], first="DUP", fp=rng.choice(cs)["fp"]))
    return es

def gen_op(rng, cs, store):
    k = rng.random()
    def key():
        if store and rng.random() < 0.7:
            r = rng.choice(store); return r[0], r[1]
        return rng.choice(HOSTS), rng.choice([1965, 1966])
    if k < 0.2: h, p = key(); return ("trust", h, p, rng.randrange(len(cs)))
    if k < 0.3: h, p = key(); return ("verify", h, p, rng.randrange(len(cs)))
    if k < 0.4: h, p = key(); return ("revoke", h, p)
    if k < 0.45: return ("revoke_host", key()[0])
    if k < 0.5: return ("clear",)
    return ("import", rng.random() < 0.5, gen_entries(rng, cs, store), rng.choice(["none", "update", "skip", "raise"]))

KILL_SCRIPT = r'''
import sys, pickle, os
sys.path.insert(0, __import__("os").path.join(__import__("os").environ.get("NV_REPO", "/repo"), "src")); sys.path.insert(0, %r)
import logging; logging.disable(logging.CRITICAL)
import nauyaca.protocol
import c12, certs as certmod
import nauyaca.security.tofu as tofu
from pathlib import Path
path, op, k, tmp = pickle.load(open(sys.argv[1], "rb"))
cs = pickle.load(open(sys.argv[2], "rb"))
from cryptography import x509
for c in cs: c["cert"] = x509.load_der_x509_certificate(c["der"])
tofu.sqlite3 = c12.real_sqlite3
db = tofu.TOFUDatabase(Path(path))
tofu.sqlite3 = c12.patched_sqlite(c12.Ctl(k, "kill"))
try:
    c12.apply_op(db, op, cs, tmp)
except BaseException:
    pass
os._exit(0)
'''

def run(tier, seed):
    setup_impl()
    import nauyaca.security.tofu as tofu
    rng = random.Random(seed)
    res = Result()
    cs = certmod.certs()
    tmp = scratch_dir("nv-c12-")
    res.rule = ("random stores (0..4 pins; host names with IPv6 literals, colons, quotes, non-ASCII, TOML metacharacters) x operations trust / verify / revoke / "
                "revoke_by_hostname / clear / import (merge and replace, defects at random positions, conflict callback none/update/skip/raise), each interrupted "
                "before every mutating statement (abandoned transaction and injected sqlite error; a sample by killing a subprocess) and run to completion; "
                "histories of three operations on one long-lived store object, observed after each step through a fresh connection and through the object; "
                "export -> import-into-empty round trips; non-trivial = distinct (store, operation, interruption point)")
    try:
        nops = 150 if tier == "quick" else 2500
        nkill = 25 if tier == "quick" else 300
        scen = []
        # one host name pinned on several ports, revoked as a whole (and cleared, and replaced by an import): an operation over
        # several rows is one transaction - interrupted anywhere, the store is as before or as after
        for h in ("multi.example", "fe80::1%eth0", "A.B"):
            st = [[h, 1965 + j, cs[j % len(cs)]["fp"], "M%d" % j] for j in range(3)] + [["other.example", 1965, cs[0]["fp"], "O"]]
            scen.append((st, ("revoke_host", h)))
            scen.append((st, ("clear",)))
            scen.append((st, ("revoke", h, 1966)))
        for _ in range(nops):
            st = gen_store(rng, cs)
            scen.append((st, gen_op(rng, cs, st)))
        # model predictions first (number of statements, states after each prefix, completion)
        mo = run_model_parallel([("tofu_op", enc([st, enc_op(op, cs)])) for st, op in scen])
        killed = 0
        for (st, op), m in zip(scen, mo):
            md = dec(m)
            completes = md[0].text() == "1"
            states = [sorted([[r[0].text(), r[1].int(), r[2].text(), r[3].text()] for r in s], key=lambda r: (r[0], r[1])) for s in md[1]]
            final = sorted([[r[0].text(), r[1].int(), r[2].text(), r[3].text()] for r in md[2]], key=lambda r: (r[0], r[1]))
            known_first = set(r[3] for r in st) | set(e["first"] for e in (op[2] if op[0] == "import" else []))
            nst = len(states) - 1
            before = sorted(st, key=lambda r: (r[0], r[1]))
            points = [(None, "complete")] + [(k, mode) for k in range(nst + 1) for mode in ("abandon", "error")]
            if killed < nkill and nst > 0:
                points.append((rng.randrange(nst + 1), "kill")); killed += 1
            for k, mode in points:
                # a fresh file per case: an implementation that keeps a connection open must not see (or damage) the next
                # case's store through a stale handle
                case_no = res.evaluations
                path = Path(tmp) / ("t%d.db" % case_no)
                for old_db in Path(tmp).glob("t*.db*"):
                    try: os.unlink(str(old_db))
                    except OSError: pass
                db = seed_db(path, st)
                failed = None
                if mode == "kill":
                    import pickle
                    pickle.dump((str(path), op, k, tmp), open(Path(tmp) / "case.pkl", "wb"))
                    pickle.dump([{kk: c[kk] for kk in ("name", "der", "fp")} for c in cs], open(Path(tmp) / "certs.pkl", "wb"))
                    open(Path(tmp) / "kill.py", "w").write(KILL_SCRIPT % os.path.dirname(os.path.abspath(__file__)))
                    subprocess.run(["/venv/bin/python", str(Path(tmp) / "kill.py"), str(Path(tmp) / "case.pkl"), str(Path(tmp) / "certs.pkl")],
                                   env=dict(os.environ, PYTHONHASHSEED="0"), timeout=60, capture_output=True)
                    failed = False
                else:
                    tofu.sqlite3 = patched_sqlite(Ctl(k, mode))
                    try:
                        apply_op(db, op, cs, tmp); failed = False
                    except Crash:
                        failed = False          # like a crash: nothing to say about the call's own outcome
                    except Exception:
                        failed = True
                    finally:
                        tofu.sqlite3 = real_sqlite3
                observed = read_rows(path, known_first)
                # prediction of the model
                if k is None:
                    expected = final
                    if failed != (not completes):
                        res.disagreements.append({"driver": "tofu_op:completion", "case": {"store": st, "op": str(op)[:400]}, "model": completes, "impl": not failed})
                else:
                    expected = states[k] if k < len(states) else states[-1]
                res.evaluations += 1
                res.nontriv((str(st), str(op), k, mode))
                res.count("%s:%s" % (op[0], mode))
                if observed != expected:
                    res.disagreements.append({"driver": "tofu_op", "case": {"store": st, "op": str(op)[:600], "interrupt_before_statement": k, "mode": mode},
                                              "model": expected, "impl": observed})
                # the property itself: all or nothing
                ok_atomic = (observed == before) or (observed == final and completes)
                if failed and observed != before: ok_atomic = False
                if not ok_atomic:
                    res.violations.append({"clause": "all-or-nothing", "signature": "C12:%s:%s" % (op[0], mode),
                                           "case": {"store": st, "op": str(op)[:600], "interrupt_before_statement": k, "mode": mode},
                                           "trace": {"before": before, "after_complete": final, "observed": observed}})
        res.sample({"store": scen[0][0], "op": str(scen[0][1])[:300]})
        res.sample({"store": scen[-1][0], "op": str(scen[-1][1])[:300]})
        # ---- histories: several operations on ONE long-lived TOFUDatabase object (as a client session holds it); after
        # each operation the store is read both through a fresh connection (what is durable) and through the object
        # itself (what later operations of the session will see): both must be the state the model predicts - in
        # particular exactly the state before a failed operation
        nh = 60 if tier == "quick" else 800
        def parse_rows(sx): return sorted([[r[0].text(), r[1].int(), r[2].text(), r[3].text()] for r in sx], key=lambda r: (r[0], r[1]))
        hist = []
        for i in range(nh):
            st = gen_store(rng, cs)
            ops = [gen_op(rng, cs, st) for _ in range(3)]
            if rng.random() < 0.7:      # make failed imports frequent: they are what leaves transactions behind
                ops[rng.randrange(2)] = ("import", rng.random() < 0.5, gen_entries(rng, cs, st), rng.choice(["none", "update", "skip", "raise"]))
            path = Path(tmp) / ("h%d.db" % i)
            known_first = set(r[3] for r in st)
            for op in ops:
                if op[0] == "import": known_first |= set(e["first"] for e in op[2])
            hist.append({"st": st, "ops": ops, "path": path, "db": seed_db(path, st), "exp": sorted(st, key=lambda r: (r[0], r[1])), "kf": known_first, "bad": False})
        for j in range(3):
            mo = run_model_parallel([("tofu_op", enc([h["exp"], enc_op(h["ops"][j], cs)])) for h in hist])
            for h, m in zip(hist, mo):
                if h["bad"]: continue
                md = dec(m)
                completes = md[0].text() == "1"
                final = parse_rows(md[2])
                op = h["ops"][j]
                try:
                    apply_op(h["db"], op, cs, tmp); failed = False
                except Exception:
                    failed = True
                expected = final if completes else h["exp"]
                durable = read_rows(h["path"], h["kf"])
                try:
                    via_obj = sorted([[r["hostname"], r["port"], r["fingerprint"], r["first_seen"] if r["first_seen"] in h["kf"] else "NOW"] for r in h["db"].list_hosts()], key=lambda r: (r[0], r[1]))
                except Exception as e:
                    via_obj = "exception: %r" % e
                res.evaluations += 1
                res.nontriv(("history", str(h["st"]), str(h["ops"][: j + 1])))
                res.count("history-step:%s:%s" % (op[0], "failed" if failed else "ok"))
                if failed != (not completes):
                    res.disagreements.append({"driver": "tofu_history:completion", "case": {"store": h["st"], "ops": str(h["ops"][: j + 1])[:900]}, "model": completes, "impl": not failed})
                if durable != expected or via_obj != expected:
                    h["bad"] = True
                    res.violations.append({"clause": "all-or-nothing (history on one store object)", "signature": "C12:history:%s" % op[0],
                                           "case": {"store": h["st"], "ops": str(h["ops"][: j + 1])[:1200]},
                                           "trace": {"expected": expected, "durable": durable, "seen_through_the_object": via_obj, "operation_failed": failed}})
                h["exp"] = expected
        # ---- export / import round trip
        for i in range(40 if tier == "quick" else 600):
            st = gen_store(rng, cs) + [[h, 1965 + j, rng.choice(cs)["fp"], "X%d" % j] for j, h in enumerate(rng.sample(HOSTS, rng.randint(0, 5)))]
            seen = set(); st2 = []
            for r in st:
                if (r[0], r[1]) not in seen: seen.add((r[0], r[1])); st2.append(r)
            p1, p2 = Path(tmp) / "a.db", Path(tmp) / "b.db"
            for p in (p1, p2):
                if p.exists(): p.unlink()
            a = seed_db(p1, st2); b = seed_db(p2, [])
            try:
                a.export_toml(Path(tmp) / "exp.toml"); b.import_toml(Path(tmp) / "exp.toml")
                got = read_rows(p2, set(r[3] for r in st2))
            except Exception as e:
                got = "exception: %r" % e
            res.evaluations += 1; res.count("roundtrip")
            want = sorted(st2, key=lambda r: (r[0], r[1]))
            if got != want:
                res.violations.append({"clause": "export-import-roundtrip", "signature": "C12:roundtrip", "case": {"store": st2}, "trace": {"imported": got}})
    finally:
        tofu.sqlite3 = real_sqlite3
        shutil.rmtree(tmp, ignore_errors=True)
    return res
