"""C09 correspondence + monitor: ServerConfig -> AccessControl decisions for every peer address,
against the model fed by an independent integer parser (iptext)."""
import asyncio, itertools
from common import *
import iptext

def v4str(v): return ".".join(str((v >> s) & 255) for s in (24, 16, 8, 0))
def v6str(v): return ":".join("%x" % ((v >> s) & 0xffff) for s in range(112, -1, -16))

def gen_net(rng):
    if rng.random() < 0.12:
        # a single HOST whose address looks like a network address (all low bits zero): "10.0.0.0", "2001:db8::", "fd00::", "::"
        if rng.random() < 0.4:
            k = rng.choice([0, 8, 16, 24])
            return ("4", (rng.getrandbits(k) << (32 - k)) if k else 0, 32)
        k = rng.choice([0, 8, 16, 32, 32, 48, 64])
        return ("6", (rng.getrandbits(k) << (128 - k)) if k else 0, 128)
    if rng.random() < 0.6:
        plen = rng.choice([0, 1, 7, 8, 9, 16, 23, 24, 25, 30, 31, 32, rng.randint(0, 32)])
        base = rng.getrandbits(32) >> (32 - plen) << (32 - plen) if plen else 0
        return ("4", base, plen)
    plen = rng.choice([0, 1, 7, 8, 10, 32, 48, 63, 64, 65, 96, 127, 128, rng.randint(0, 128)])
    base = rng.getrandbits(128) >> (128 - plen) << (128 - plen) if plen else 0
    return ("6", base, plen)

def net_text(rng, n):
    f, base, plen = n
    a = v4str(base) if f == "4" else v6str(base)
    bits = 32 if f == "4" else 128
    if plen == bits and (rng.random() < 0.6 or base & 0xff == 0):
        return a                       # single host without suffix (exercises the /32, /128 fall-backs)
    return "%s/%d" % (a, plen)

def gen_entry(rng):
    k = rng.random()
    n = gen_net(rng)
    if k < 0.92: return net_text(rng, n)
    if k < 0.96:                       # host bits set
        f, base, plen = n
        bits = 32 if f == "4" else 128
        if plen < bits:
            return "%s/%d" % ((v4str if f == "4" else v6str)(base | 1), plen)
        return net_text(rng, n)
    return rng.choice(["", "localhost", "10.0.0.256", "1.2.3", "::g", "10.0.0.0/33", "::/129", "1.2.3.4/", "/8", "10.0.0.1/32/1", "fe80::1%eth0"])

def peers_for(rng, nets):
    ps = set()
    for e in nets:
        n = iptext.parse_net(e) or iptext.parse_net(e + "/32") or iptext.parse_net(e + "/128")
        if not n: continue
        f, base, plen = n
        bits = 32 if f == "4" else 128
        last = base + (1 << (bits - plen)) - 1
        for v in (base - 1, base, last, last + 1, (base + last) // 2):
            if 0 <= v < (1 << bits):
                ps.add((v4str if f == "4" else v6str)(v))
    ps.add(v4str(rng.getrandbits(32))); ps.add(v6str(rng.getrandbits(128)))
    ps.update(rng.sample(["unknown", "", "fe80::1%eth0", "::1", "127.0.0.1", "::ffff:10.0.0.1", "10.0.0.01", " 10.0.0.1"], 3))
    return sorted(ps)

def build_and_decide(tmp, enabled, allow, deny, dflt, peers, via_toml=False):
    """ServerConfig (built directly, or loaded from the TOML file toml_roundtrip() has just written) -> get_access_control_config ->
    (as start_server does) AccessControl -> decisions."""
    from nauyaca.server.config import ServerConfig
    from nauyaca.server.middleware import AccessControl
    if via_toml:
        from pathlib import Path
        try:
            sc = ServerConfig.from_toml(Path(os.path.join(tmp, "c.toml")))
        except ValueError:
            return [["startup-error"] for _ in peers]
    else:
        sc = ServerConfig(document_root=tmp, enable_access_control=enabled, access_control_allow_list=allow,
                          access_control_deny_list=deny, access_control_default_allow=dflt)
    cfg = sc.get_access_control_config()
    if not cfg:                       # start_server: `if access_control_config:` -> no component
        return [["admit", True] for _ in peers]
    try:
        ac = AccessControl(cfg)
    except ValueError:
        return [["startup-error"] for _ in peers]
    async def go():
        out = []
        for p in peers:
            ok, resp = await ac.process_request("gemini://h/", p, None)
            if not ok and resp != "53 Access denied\r\n":
                out.append(["bad-response", str(resp)])
            else:
                out.append(["admit", bool(ok)])
        return out
    return asyncio.run(go())

def toml_roundtrip(tmp, enabled, allow, deny, dflt):
    """Same configuration written as TOML and loaded through ServerConfig.from_toml."""
    import tomli_w
    from pathlib import Path
    from nauyaca.server.config import ServerConfig
    ac = {"enabled": enabled, "default_allow": dflt}
    if allow is not None: ac["allow_list"] = allow
    if deny is not None: ac["deny_list"] = deny
    data = {"server": {"document_root": tmp}, "access_control": ac}
    p = os.path.join(tmp, "c.toml")
    with open(p, "wb") as f: tomli_w.dump(data, f)
    sc = ServerConfig.from_toml(Path(p))
    return (sc.enable_access_control, sc.access_control_allow_list, sc.access_control_deny_list, sc.access_control_default_allow)

def run(tier, seed):
    setup_impl()
    rng = random.Random(seed)
    res = Result()
    res.rule = ("configurations of 0..3 allow and 0..3 deny entries (v4/v6 networks of every prefix length, single hosts, unaligned and junk entries), "
                "default on/off, lists absent/empty/present, each also round-tripped through TOML; peers at base-1, base, mid, last, last+1 of every network "
                "plus random/scoped/malformed; non-trivial = distinct (config, peer) where some list is non-empty and the peer parses")
    tmp = scratch_dir("nv-c09-")
    try:
        ncfg = 400 if tier == "quick" else 8000
        mcases, iobs, mon, meta = [], [], [], []
        fixed = [(True, None, None, False), (True, [], [], False), (True, None, None, True), (False, ["10.0.0.0/8"], None, False),
                 (True, ["10.0.0.0/8"], ["10.1.0.0/16"], True), (True, None, ["::/0"], True), (True, ["0.0.0.0/0"], None, False),
                 (True, ["10.0.0.1"], ["::1"], False), (True, ["10.0.0.1/24"], None, True), (True, [""], None, True),
                 # entries that cannot be interpreted must prevent start-up - blank, padded, and next to good ones, in either list
                 (True, [""], None, False), (True, None, [""], True), (True, ["  "], None, True), (True, [" 10.0.0.0/8"], None, False),
                 (True, ["10.0.0.1", ""], None, False), (True, ["10.0.0.1"], ["", "10.0.0.2"], True), (True, ["10.0.0.0/8 "], ["\t"], True)]
        configs = list(fixed)
        for _ in range(ncfg):
            def lst():
                k = rng.random()
                if k < 0.2: return None
                if k < 0.3: return []
                return [gen_entry(rng) for _ in range(rng.randint(1, 3))]
            configs.append((rng.random() < 0.93, lst(), lst(), rng.random() < 0.5))
        for enabled, allow, deny, dflt in configs:
            rt = toml_roundtrip(tmp, enabled, allow, deny, dflt)
            if rt != (enabled, allow, deny, dflt):
                res.disagreements.append({"driver": "toml-roundtrip", "case": [enabled, allow, deny, dflt], "model": "identity", "impl": list(rt)})
            entries = (allow or []) + (deny or [])
            peers = peers_for(rng, entries)
            decisions = build_and_decide(tmp, enabled, allow, deny, dflt, peers)
            # "the policy as written in a TOML configuration file": the same decisions through the file written above
            decisions_toml = build_and_decide(tmp, enabled, allow, deny, dflt, peers, via_toml=True)
            table = []
            for e in set(entries):
                for suffix in ("", "/32", "/128"):
                    n = iptext.parse_net(e + suffix)
                    if n: table.append([e + suffix, [n[0], n[1], n[2]]])
            def own(e):
                n = iptext.parse_net(e) or iptext.parse_net(e + "/32") or iptext.parse_net(e + "/128")
                return [n[0], n[1], n[2]] if n else []
            for p, d in list(zip(peers, decisions)) + list(zip(peers, decisions_toml)):
                pa = iptext.parse_addr(p)
                pas = [pa[0], pa[1]] if pa else []
                sal = [allow] if allow is not None else []
                sdl = [deny] if deny is not None else []
                mcases.append(("acl", enc([enabled, sal, sdl, dflt, pas, table])))
                iobs.append(enc(d))
                mon.append(("C09.ok", enc([enabled, [own(e) for e in (allow or [])], [own(e) for e in (deny or [])], dflt, pas, d])))
                meta.append((enabled, allow, deny, dflt, p, d))
                res.evaluations += 1
                res.count("decision:" + (d[0] if d[0] != "admit" else ("admit" if d[1] else "refuse")))
                if entries and pa: res.nontriv((enabled, allow, deny, dflt, p))
        res.sample({"config": meta[40][:4], "peer": meta[40][4], "decision": meta[40][5]})
        res.sample({"config": meta[-1][:4], "peer": meta[-1][4], "decision": meta[-1][5]})
        out = run_model_parallel(mcases)
        compare(res, "acl", list(range(len(mcases))), iobs, out,
                describe=lambda i: {"config": meta[i][:4], "peer": meta[i][4]})
        mo = run_model_parallel(mon)
        for m, me in zip(mo, meta):
            if m != enc(True):
                res.violations.append({"clause": "decision-vs-interval-oracle", "signature": "C09:decision",
                                       "case": {"enabled": me[0], "allow": me[1], "deny": me[2], "default_allow": me[3], "peer": me[4]},
                                       "trace": {"observed": me[5]}})
    finally:
        shutil.rmtree(tmp, ignore_errors=True)
    unparsable_peer_cases(res)
    res.rule += " | plus peers whose address is not an IP literal, through the real protocol with logging configured as start_server configures it (INFO, IP hashing on / off)"
    # through the command line: `python -m nauyaca serve --config <file>` with four access-control sections
    import livetls
    livetls.run_cli_policies(res, tier)
    livetls.run_config_matrix(res, tier, "C09", seed)
    res.rule += " | plus the CLI: serve --config with default-deny-only / allow-loopback / deny-loopback / deny-other policies, request from 127.0.0.1; the same policies inside generated configurations (log levels, rate-limit sections, flags, environment overrides)"
    # `serve --reload`: the server is a child process started with the parent's arguments minus the reload flags
    import reloadargs
    reloadargs.run(res, tier, seed)
    livetls.run_cli_reload_policies(res, tier)
    res.rule += (" | plus `serve --reload`: generated command lines (the five reload flag forms, near-misses, values and file names containing 'reload', "
                 "values that look like options) through the real filter loop, the real Supervisor._build_command and the unmodified path down to "
                 "subprocess.Popen, against Model/Reload.v; live: serve ROOT --reload --reload-dir D --config[=| ]dev-reload.toml with deny- and "
                 "allow-loopback policies, request from 127.0.0.1")
    return res


def unparsable_peer_cases(res):
    """ "an address that cannot be parsed is refused with status 53 like any denied one": through the real GeminiServerProtocol with an
    AccessControl chain, the peer name being whatever a transport may report (a host name, an empty string, a scoped literal, nothing),
    and with logging configured the way start_server configures it (the request log and its processors sit on the path of every
    response).  Without a chain such a peer is served."""
    import asyncio, serverdrv as sd
    import nauyaca.protocol
    from nauyaca.utils.logging import configure_logging
    from nauyaca.server.protocol import GeminiServerProtocol
    from nauyaca.server.middleware import AccessControl, AccessControlConfig, MiddlewareChain
    from nauyaca.protocol.response import GeminiResponse
    import structlog, logging
    async def one(peer, with_chain):
        acts = []
        chain = MiddlewareChain([AccessControl(AccessControlConfig(allow_list=["10.0.0.0/8"], default_allow=False))]) if with_chain else None
        p = GeminiServerProtocol(lambda r: GeminiResponse(20, "text/plain", "served"), chain, None)
        t = sd.FakeTransport(acts, peer, None)
        escaped = None
        try:
            p.connection_made(t); p.data_received(b"gemini://h.example/x\r\n")
        except Exception as e: escaped = type(e).__name__
        for i in range(60):
            if t.closed: break
            await asyncio.sleep(0 if i < 20 else 0.002)
        if p.timeout_handle: p.timeout_handle.cancel()
        return escaped, b"".join(a[1] for a in acts if a[0] == "w"), t.closed
    async def go():
        loop = asyncio.get_running_loop(); loop.set_exception_handler(lambda l, c: None)
        out = []
        for peer in (("peer.invalid", 40000), ("", 0), ("fe80::1%eth0", 1), ("10.0.0.300", 5), None, ("10.1.2.3", 9), ("::ffff:10.0.0.1", 9)):
            for with_chain in (True, False):
                out.append((peer, with_chain, await one(peer, with_chain)))
        return out
    for hash_ips in (True, False):
        try:
            configure_logging(log_level="INFO", hash_ips=hash_ips)
            outs = asyncio.run(go())
        finally:
            structlog.reset_defaults(); logging.disable(logging.NOTSET)
        for peer, with_chain, (escaped, wire, closed) in outs:
            res.evaluations += 1; res.count("unparsable-peer"); res.nontriv(("unparsable-peer", str(peer), with_chain, hash_ips))
            admitted_by_policy = peer is not None and peer[0] in ("10.1.2.3",)
            want = b"20 " if (not with_chain or admitted_by_policy) else b"53 "
            if escaped or not closed or not wire.startswith(want):
                res.violations.append({"clause": "an address that cannot be parsed is refused with status 53 like any denied one (and served when no policy is configured) - whatever the logging configuration",
                                       "signature": "C09:unparsable-peer",
                                       "case": {"peer_name_reported_by_the_transport": list(peer) if peer else None, "access_control": "allow 10.0.0.0/8, default deny" if with_chain else "none",
                                                "logging": "configure_logging(INFO, hash_ips=%s)" % hash_ips},
                                       "trace": {"exception_out_of_the_protocol": escaped, "client_received": wire[:60].decode("latin-1"), "closed": closed, "expected_status": want.decode().strip()}})
