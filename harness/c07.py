"""C07: outcome independent of read segmentation; at most one handler/upload invocation."""
import itertools
from servercheck import *

SHORT = [b"a://b\r\nXY", b"\r\n", b"ab\r\r\n\n", b"gemini://h\r\n", b"x\ny\r\n\r\n"]

def all_segmentations(data):
    n = len(data)
    for mask in range(1 << (n - 1)):
        pts = [0] + [i + 1 for i in range(n - 1) if mask >> i & 1] + [n]
        yield [data[a:b] for a, b in zip(pts, pts[1:])]

def run(tier, seed):
    res, _, _ = run_server_property(
        "C07", ["C07.ok"], tier, seed,
        nontrivial=lambda c, e, o: sum(1 for x in e if x[0] == "read") >= 2,
        rule="non-trivial = distinct schedule with at least two reads")
    rng = random.Random(seed + 1)
    # ---- segmentation independence: every segmentation against the single-read baseline
    groups = []   # (cfg, request bytes, tail events, list of chunkings)
    def cfgs():
        for has_mw, has_up in itertools.product([False, True], repeat=2):
            yield {"has_mw": has_mw, "has_upload": has_up, "peer_ip": "192.0.2.1", "fp": False, "hres": ("async",)}
    tail_for = lambda cfg: ([("done", 0, ("mw", True, None)), ("done", 1, ("resp", sg.GOOD))] if cfg["has_mw"]
                            else [("done", 0, ("resp", sg.GOOD))])
    maxlen = 11 if tier == "quick" else 14
    for cfg in cfgs():
        for req in SHORT + [b"titan://h/f;size=2\r\nabZ"[-maxlen:]]:
            if len(req) <= maxlen:
                groups.append((cfg, req, tail_for(cfg), list(all_segmentations(req))))
        for req in sg.REQUESTS:
            segs = list(sg.segmentations(req, 1 if tier == "quick" else 2))
            if tier == "quick": segs = segs[::3]
            groups.append((cfg, req, tail_for(cfg), segs))
        for n in (1020, 1022, 1023, 1024, 1025, 1030):
            line = b"gemini://h/" + b"a" * (n - 11 - 2) + b"\r\n" + b"trail"
            segs = [s for s in sg.segmentations(line, 1)][:: (40 if tier == "quick" else 7)]
            groups.append((cfg, line, tail_for(cfg), segs))
        # a request followed by more than MAX_REQUEST_SIZE further bytes (surplus after a Gemini line, a large Titan body):
        # cuts at and around the CR/LF boundary, so that a read starting with "\n" carries > 1 KiB
        for req in (b"gemini://h/x\r\n" + b"z" * 1100,
                    b"titan://h/f;size=1200;mime=text/plain\r\n" + bytes(i % 251 for i in range(1200)),
                    b"gemini://h/" + b"a" * 990 + b"\r\n" + b"q" * 1100):
            crlf = req.index(b"\r\n")
            cuts = sorted({c for c in (1, crlf - 1, crlf, crlf + 1, crlf + 2, crlf + 3, 1023, 1024, 1025, 1026, len(req) - 1) if 0 < c < len(req)})
            segs = [[req[:c], req[c:]] for c in cuts]
            segs += [[req[:crlf + 1], req[crlf + 1:crlf + 2], req[crlf + 2:]], [req[:crlf], req[crlf:crlf + 1], req[crlf + 1:]]]
            groups.append((cfg, req, tail_for(cfg), segs))
    # a refused over-long line followed by a well-formed request, the boundary between two slices of ONE outer read falling right
    # behind the refused part (two TLS records in one TCP read on the PyOpenSSL backend): the refusal is final, whatever follows
    forced = []
    for cfg in cfgs():
        for first in (b"gemini://h/" + b"a" * 1020 + b"\r\n", b"x" * 1030 + b"\r\n", b"y" * 1500, b"gemini://h/" + b"b" * 1014):
            for second in (b"gemini://h/admin\r\n", b"titan://h/f;size=2;mime=text/plain\r\nhi", b"\r\ngemini://h/admin\r\n"):
                forced.append((cfg, first + second, tail_for(cfg), [first, second]))
    nrand = 300 if tier == "quick" else 5000
    for _ in range(nrand):
        cfg = sg.gen_cfg(rng); cfg["hres"] = ("async",)
        req = sg.gen_request_bytes(rng)
        chunkings = [sg.random_chunks(rng, req) for _ in range(4)]
        groups.append((cfg, req, tail_for(cfg), [c for c in chunkings if c]))
    cases, index = [], []
    for gi, (cfg, req, tail, chunkings) in enumerate(groups):
        if not req: continue
        cases.append((cfg, [("read", [req])] + tail)); index.append((gi, None))
        for ch in chunkings:
            evs = sg.group_reads(rng, ch) if rng.random() < 0.3 else [("read", [c]) for c in ch]
            cases.append((cfg, evs + tail)); index.append((gi, ch))
    for cfg, req, tail, ch in forced:
        gi = len(groups); groups.append((cfg, req, tail, [ch]))
        cases.append((cfg, [("read", [req])] + tail)); index.append((gi, None))
        cases.append((cfg, [("read", list(ch))] + tail)); index.append((gi, ch))
    impl = sd.run_cases(cases)
    base = {}
    for (gi, ch), (o, d, tb, *_) in zip(index, impl):
        if ch is None: base[gi] = o
    mc, meta = [], []
    for (gi, ch), (cfg_e, (o, d, tb, *_)) in zip(index, zip(cases, impl)):
        if ch is None: continue
        mc.append(("C07.same", enc([[[a, ar] for a, ar in o], [[a, ar] for a, ar in base[gi]]])))
        meta.append((gi, ch, o))
        res.evaluations += 1
        res.nontriv((gi, tuple(ch)))
    res.count("segmentation-comparisons", len(mc))
    mo = run_model_parallel(mc)
    for (gi, ch, o), m in zip(meta, mo):
        if m != enc(True):
            cfg, req, tail, _ = groups[gi]
            res.violations.append({"clause": "segmentation-independence", "signature": "C07:segmentation",
                                   "case": {"cfg": str(cfg), "request": {"hex": req.hex()}, "chunks": [c.hex() for c in ch]},
                                   "trace": {"segmented": pretty(dec(sd.enc_obs(o))), "single_read": pretty(dec(sd.enc_obs(base[gi])))}})
    # the same schedules also go through the model (correspondence)
    mcases = [sd.model_case(c, e, tb) for (c, e), (o, d, tb, *_) in zip(cases, impl)]
    out = run_model_parallel(mcases)
    for (c, e), (o, d, tb, *_), m in zip(cases, impl, out):
        if m == enc(["oom"]): res.out_of_model += 1; continue
        if sd.enc_obs(o) != m:
            res.disagreements.append({"driver": "server(segmentation)", "case": describe(c, e), "model": pretty(dec(m)), "impl": pretty(dec(sd.enc_obs(o)))})
    res.rule += (" | plus segmentation independence: all 2^(n-1) segmentations of requests of <= %d bytes, all 1%s-cut segmentations of the representative "
                 "requests and of 1020..1030-byte lines, random multi-cut segmentations, each compared (Spec.C07.same) with the single-read run" % (maxlen, "" if tier == "quick" else "/2"))
    import tlsextra
    tlsextra.pump_segmentation_cases(res, rng, tier)
    return res
