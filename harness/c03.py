"""C03 + C11: histories of fetches / uploads / trust-store operations through the real GeminiClient
(only loop.create_connection is replaced: the fake peer presents a chosen certificate and records
every byte it is sent).  Each step is compared with Model/Session.v and judged by Spec.C03.ok and
Spec.C11.ok.  Module c11.py re-uses run_histories()."""
import asyncio, sqlite3
from pathlib import Path
from common import *
import certs as certmod, clientdrv as cd

HOSTS = [("a.example", 1965), ("a.example", 1966), ("b.example", 1965), ("[::1]", 1965)]

def read_rows(path):
    con = sqlite3.connect(str(path))
    try:
        rows = con.execute("SELECT hostname, port, fingerprint, first_seen FROM known_hosts").fetchall()
    finally:
        con.close()
    return sorted([[h, p, fp, "T"] for h, p, fp, fs in rows], key=lambda r: (r[0], r[1]))

class Peer:
    """what the fake TLS peer presents and how it answers"""
    def __init__(self, der, chunks, exc): self.der, self.chunks, self.exc = der, chunks, exc

async def one_call(loop, client, op, url, peer, trace, content=b"", token=None, referee_verdict=None):
    from nauyaca.security.tofu import CertificateChangedError
    import nauyaca.client.protocol as cp
    cp.MAX_RESPONSE_BODY_SIZE = cd.CAP
    marks = []
    async def fake_cc(factory, host=None, port=None, ssl=None, server_hostname=None, **kw):
        proto = factory()
        class T(cd.RecTransport):
            def get_extra_info(self_, name, default=None):
                if name == "ssl_object":
                    if peer.der is None: return None
                    class S:
                        def getpeercert(self, binary_form=False): return peer.der
                    return S()
                return default
        tr = T(trace)
        orig = proto.get_peer_certificate
        def spy():
            marks.append(len(trace)); trace.append(["v", None])
            return orig()
        proto.get_peer_certificate = spy
        proto.connection_made(tr)
        def feed():
            try:
                for c in peer.chunks:
                    if tr.closed: break
                    proto.data_received(c)
                    if tr.closed:
                        proto.connection_lost(None); return
                proto.connection_lost(cd.InjectedReset(peer.exc) if peer.exc else None)
            except Exception as e:
                e._from_conn = True; proto.connection_lost(e)
        loop.call_soon(feed)
        return tr, proto
    loop.create_connection = fake_cc
    try:
        if op == "get":
            r = await client._get_single(url)
        elif op == "upload":
            r = await client.upload(url, content, mime_type="text/plain", token=token)
        else:
            r = await client.delete(url, token=token)
        b = r.body
        body = [] if b is None else (["t", b] if isinstance(b, str) else ["b", bytes(b)])
        result = ["result", ["ok", r.status, r.meta, body]]
        verdict = ["accepted"]
    except CertificateChangedError as e:
        result = ["changed", e.old_fingerprint, e.new_fingerprint]; verdict = result
    except ConnectionError as e:
        if "could not be read" in str(e):
            result = ["refused"]; verdict = ["refused"]
        else:
            result = ["result", ["err", cd.classify(e)]]; verdict = ["accepted"]
    except Exception as e:
        result = ["result", ["err", cd.classify(e)]]; verdict = ["accepted"]
    finally:
        del loop.create_connection
    # the verdict shown to the C11 monitor is the REFEREE's (what the pin check must conclude from the store and the presented
    # certificate), not what the call's outcome suggests: a call that "succeeds" against an unreadable or changed certificate
    # must not make its own writes look authorised
    for m in marks:
        trace[m] = ["v", referee_verdict if referee_verdict is not None else verdict]
    return result

def expected_request(op, url, content, token):
    """request bytes per the documented wire format, computed independently of the client code"""
    from nauyaca.utils.url import parse_url
    if op == "get":
        return [parse_url(url).normalized.encode() + b"\r\n"]
    base = "titan://" + url[len("gemini://"):]
    line = "%s;size=%d;mime=text/plain" % (base, len(content) if op == "upload" else 0)
    if op == "delete": line = "%s;size=0;mime=text/gemini" % base
    if token: line += ";token=" + token
    return [line.encode() + b"\r\n", content if op == "upload" else b""]

def gen_step(rng, cs):
    k = rng.random()
    host, port = rng.choice(HOSTS)
    if k < 0.72:
        pk = rng.random()
        if pk < 0.8: der = rng.choice(cs)["der"]
        elif pk < 0.95: der = rng.choice(certmod.UNPARSABLE_DER)
        else: der = None
        op = rng.choice(["get", "get", "get", "upload", "delete"])
        resp = rng.choice([[b"20 text/plain\r\nhello"], [b"20 text/gemini\r\n", b"# hi"], [b"51 Not found\r\n"], [b"30 gemini://b.example/\r\n"], [b"2"], []])
        return ("call", op, host, port, der, resp, rng.choice([None, None, "ConnectionResetError"]),
                rng.choice([b"", b"x", b"secret content"]), rng.choice([None, "tok3n"]))
    if k < 0.78: return ("trust", host, port, rng.randrange(len(cs)))
    if k < 0.84: return ("revoke", host, port)
    if k < 0.87: return ("clear",)
    if k < 0.92: return ("import", host, port, rng.randrange(len(cs)), rng.random() < 0.7)       # re-pin through an import (merge, conflict accepted / replace)
    if k < 0.94:
        # an import that FAILS part-way (a valid entry for this host, then a malformed one), in merge or replace mode: it raises,
        # and "leaves every pin unchanged" - what later connections are checked against
        return ("import_bad", host, port, rng.randrange(len(cs)), rng.random() < 0.5, rng.choice(["badfp", "port0", "missing"]))
    if k < 0.96: return ("external_trust", host, port, rng.randrange(len(cs)))                   # another TOFUDatabase object on the same file (e.g. the CLI)
    return ("external_revoke", host, port)

def run_histories(tier, seed, tofu_modes=(True, False)):
    setup_impl()
    from nauyaca.client.session import GeminiClient
    from nauyaca.security.tofu import TOFUDatabase
    rng = random.Random(seed)
    cs = certmod.certs()
    fp_of = {c["der"]: c["fp"] for c in cs}
    tmp = scratch_dir("nv-c03-")
    records = []
    store_ops = []
    try:
        nh = 400 if tier == "quick" else 5000
        length = 8 if tier == "quick" else 12
        async def go():
            loop = asyncio.get_running_loop()
            clients = {}
            for hi in range(nh):
                tofu = rng.choice(tofu_modes)
                path = Path(tmp) / ("h%d.db" % hi)
                # every history gets its client from the public constructor, with the store's path and with the constructor's other
                # arguments varied (a caller-supplied TLS context, CA verification on top of TOFU): whatever else is configured,
                # trust_on_first_use=True means the pin check applies.  The store the client uses is the one IT opened.
                ctor = rng.choice(["plain", "plain", "own-context", "verify-ssl", "own-context-verify"])
                kw = {}
                if ctor in ("own-context", "own-context-verify"):
                    import ssl as _ssl
                    cx = _ssl.SSLContext(_ssl.PROTOCOL_TLS_CLIENT); cx.check_hostname = False; cx.verify_mode = _ssl.CERT_NONE
                    kw["ssl_context"] = cx
                if ctor in ("verify-ssl", "own-context-verify"): kw["verify_ssl"] = True
                if not tofu:
                    if tofu not in clients: clients[tofu] = GeminiClient(timeout=1.0, trust_on_first_use=False)
                    client = clients[tofu]
                else:
                    client = GeminiClient(timeout=1.0, trust_on_first_use=True, tofu_db_path=path, **kw)
                db = TOFUDatabase(path)
                # a third of the histories start with the same host pinned on two ports with different certificates and
                # one of the pins then renewed: "pins of different host:port pairs never influence each other"
                preamble = []
                if rng.random() < 0.33:
                    i, j, k2 = rng.sample(range(len(cs)), 3)
                    preamble = [("trust", "a.example", 1965, i), ("trust", "a.example", 1966, j),
                                (rng.choice(["trust", "external_trust", "import"]), "a.example", rng.choice([1965, 1966]), k2) + ((True,) if False else ())]
                    if preamble[2][0] == "import": preamble[2] = ("import", preamble[2][1], preamble[2][2], k2, True)
                for step_no in range(length):
                    st = preamble[step_no] if step_no < len(preamble) else gen_step(rng, cs)
                    before = read_rows(path)
                    if st[0] == "call":
                        _, op, host, port, der, resp, exc, content, token = st
                        # host names are case-insensitive: the URL may spell the host in any letter case, the pin is the host's
                        spelled = rng.choice([host, host, host.upper(), host.title(), "".join(c.upper() if i % 2 else c for i, c in enumerate(host))])
                        url = "gemini://%s%s/p?q=1" % (spelled, "" if port == 1965 else ":%d" % port)
                        trace = []
                        hname = host[1:-1] if host.startswith("[") else host
                        pinned = [r for r in before if r[0] == hname and r[1] == port]
                        if not tofu: ref = None
                        elif der not in fp_of: ref = ["refused"]
                        elif pinned and pinned[0][2] != fp_of[der]: ref = ["changed", pinned[0][2], fp_of[der]]
                        else: ref = ["accepted"]
                        result = await one_call(loop, client, op, url, Peer(der, resp, exc), trace, content, token, referee_verdict=ref)
                        after = read_rows(path)
                        h = host[1:-1] if host.startswith("[") else host
                        presented = ["cert", fp_of[der]] if der in fp_of else ["unreadable"]
                        records.append({"tofu": tofu, "op": op, "host": h, "port": port, "presented": presented, "before": before, "after": after,
                                        "result": result, "trace": trace, "request": expected_request(op, url, content, token), "chunks": resp, "exc": exc,
                                        "url": url})
                    elif st[0] == "trust": db.trust(st[1][1:-1] if st[1].startswith("[") else st[1], st[2], cs[st[3]]["cert"])
                    elif st[0] == "revoke": db.revoke(st[1][1:-1] if st[1].startswith("[") else st[1], st[2])
                    elif st[0] == "clear": db.clear()
                    elif st[0] == "import":
                        import tomli_w
                        h = st[1][1:-1] if st[1].startswith("[") else st[1]
                        f = Path(tmp) / "imp.toml"
                        with open(f, "wb") as fh:
                            tomli_w.dump({"hosts": {"k": {"hostname": h, "port": st[2], "fingerprint": cs[st[3]]["fp"], "first_seen": "T", "last_seen": "T"}}}, fh)
                        db.import_toml(f, merge=st[4], on_conflict=lambda *a: True)
                    elif st[0] == "import_bad":
                        import tomli_w
                        h = st[1][1:-1] if st[1].startswith("[") else st[1]
                        bad = {"hostname": "zz.example", "port": 1965, "fingerprint": cs[st[3]]["fp"], "first_seen": "T", "last_seen": "T"}
                        if st[5] == "badfp": bad["fingerprint"] = "sha256:xyz"
                        elif st[5] == "port0": bad["port"] = 0
                        else: del bad["fingerprint"]
                        f = Path(tmp) / "impbad.toml"
                        with open(f, "wb") as fh:
                            tomli_w.dump({"hosts": {"a": {"hostname": h, "port": st[2], "fingerprint": cs[st[3]]["fp"], "first_seen": "T", "last_seen": "T"},
                                                    "b": {"hostname": "other.example", "port": 1970, "fingerprint": cs[st[3]]["fp"], "first_seen": "T", "last_seen": "T"},
                                                    "c": bad}}, fh)
                        try:
                            db.import_toml(f, merge=st[4], on_conflict=lambda *a: True)
                            failed = False
                        except Exception:
                            failed = True
                    elif st[0] == "external_trust":
                        TOFUDatabase(path).trust(st[1][1:-1] if st[1].startswith("[") else st[1], st[2], cs[st[3]]["cert"])
                    elif st[0] == "external_revoke":
                        TOFUDatabase(path).revoke(st[1][1:-1] if st[1].startswith("[") else st[1], st[2])
                    if st[0] != "call":
                        # trust-store operations are judged too: exactly the named pin changes
                        after = read_rows(path)
                        hh = st[1][1:-1] if len(st) > 1 and st[1].startswith("[") else (st[1] if len(st) > 1 else None)
                        others = lambda rows: [r for r in rows if not (r[0] == hh and r[1] == st[2])] if len(st) > 2 else rows
                        if st[0] in ("trust", "external_trust") or (st[0] == "import" and st[4]):
                            want = sorted(others(before) + [[hh, st[2], cs[st[3]]["fp"], "T"]], key=lambda r: (r[0], r[1]))
                        elif st[0] == "import":
                            want = [[hh, st[2], cs[st[3]]["fp"], "T"]]
                        elif st[0] == "import_bad":
                            want = before if failed else None        # it must fail; having failed, it must have changed nothing
                        elif st[0] in ("revoke", "external_revoke"):
                            want = others(before)
                        else:
                            want = []
                        store_ops.append({"op": st[0], "args": [str(x) for x in st[1:3]], "before": before, "after": after, "want": want, "tofu": tofu})
                path.unlink()
        asyncio.run(go())
    finally:
        shutil.rmtree(tmp, ignore_errors=True)
    STORE_OPS[:] = store_ops
    return records

STORE_OPS = []

def judge_store_ops(res):
    for o in STORE_OPS:
        res.evaluations += 1
        res.count("store-op:%s" % o["op"])
        res.nontriv(("store-op", o["op"], str(o["args"]), str(o["before"])))
        if o["after"] != o["want"]:
            res.violations.append({"clause": "a trust-store operation changes exactly the pin it names", "signature": "C03:store-op:" + o["op"],
                                   "case": {"operation": o["op"], "host_port": o["args"], "store_before": o["before"]},
                                   "trace": {"store_after": o["after"], "expected": o["want"]}})

def judge(records, res, pid, monitors):
    mcases, iobs = [], []
    for r in records:
        meta = ""
        bodies = [b"".join(r["chunks"]).split(b"\r\n", 1)[1] if b"\r\n" in b"".join(r["chunks"]) else b""]
        table = cd.decode_table("", bodies)
        mcases.append(("session", enc([r["request"], True, cd.CAP, table, r["tofu"], r["before"], r["host"], r["port"], r["presented"], "T",
                                       r["chunks"], [r["exc"]] if r["exc"] else []])))
        tr = [e for e in r["trace"] if e[0] in ("w", "v")]
        iobs.append(enc([r["after"], r["result"], [e for e in tr if not (e[0] == "w" and e[1] == b"")]]))
        res.evaluations += 1
        res.count("%s:tofu=%s:%s" % (r["op"], r["tofu"], r["result"][0] if r["result"][0] != "result" else r["result"][1][0]))
        res.nontriv((str(r["before"]), r["host"], r["port"], str(r["presented"]), r["op"], r["tofu"]))
    out = run_model_parallel(mcases)
    for r, io, mo in zip(records, iobs, out):
        # empty writes (zero-byte Titan content) are not observable: drop them on the model side too
        md = dec(mo)
        md[2] = [e for e in md[2] if not (e[0].text() == "w" and len(e[1]) == 0)]
        md[0] = sorted(md[0], key=lambda r: (r[0].text(), r[1].int()))      # row order is not observable
        if enc(md) != io:
            res.disagreements.append({"driver": "session", "case": {k: str(r[k])[:300] for k in ("tofu", "op", "host", "port", "presented", "before", "chunks", "exc")},
                                      "model": pretty(md), "impl": pretty(dec(io))})
    if "C03.ok" in monitors:
        idx = [i for i, r in enumerate(records) if r["tofu"]]
        mo = run_model_parallel([("C03.ok", enc([records[i]["before"], records[i]["host"], records[i]["port"], records[i]["presented"],
                                                 (records[i]["result"] if records[i]["result"][0] != "result" else ["accepted"]), records[i]["after"]])) for i in idx])
        for i, m in zip(idx, mo):
            if m != enc(True):
                r = records[i]
                res.violations.append({"clause": "pin-check", "signature": "C03:" + r["result"][0] + ":" + r["presented"][0],
                                       "case": {k: str(r[k])[:400] for k in ("op", "url", "presented", "before")}, "trace": {"result": str(r["result"])[:300], "after": r["after"]}})
    if "C11.ok" in monitors:
        idx = [i for i, r in enumerate(records) if r["tofu"]]
        mo = run_model_parallel([("C11.ok", enc([[e for e in records[i]["trace"] if e[0] in ("w", "v") and not (e[0] == "w" and e[1] == b"")]])) for i in idx])
        for i, m in zip(idx, mo):
            if m != enc(True):
                r = records[i]
                res.violations.append({"clause": "write-before-verification", "signature": "C11:" + r["op"] + ":" + r["result"][0],
                                       "case": {k: str(r[k])[:400] for k in ("op", "url", "presented", "before")},
                                       "trace": {"events": [[e[0]] + [x.hex() if isinstance(x, bytes) else x for x in e[1:]] for e in r["trace"]]}})
    if records:
        for i in (0, len(records) // 2, len(records) - 1):
            r = records[i]
            res.sample({k: str(r[k])[:300] for k in ("tofu", "op", "url", "presented", "before", "after", "result")})

def run(tier, seed):
    res = Result()
    res.rule = ("histories of get / upload / delete against 4 host:port pairs x 4 certificates (RSA, EC, Ed25519) + unparsable DER blobs + no certificate, "
                "interleaved with trust / revoke / clear, TOFU on and off; non-trivial = distinct (store, host:port, presented, operation)")
    recs = run_histories(tier, seed)
    judge(recs, res, "C03", ["C03.ok"])
    judge_store_ops(res)
    import livepair
    livepair.run_cert_change(res, tier)
    import cliclient
    cliclient.run_get_pin(res, tier)
    res.rule += " | the real command line (`python -m nauyaca get`, subprocess) twice against one port whose certificate changes, then with --no-trust"
    res.rule += " | every trust / revoke / clear / import step is judged as well: exactly the named pin changes (a third of the histories start with one host pinned on two ports and one pin renewed)"
    return res
