"""Live client/server pairs over loopback TLS: the real GeminiClient (TOFU on, its own store) against
 (a) the real GeminiServerProtocol behind asyncio's TLS (an echo handler reports the components the server parsed), for the
     "through a live client/server pair" part of C19, and
 (b) a raw recording TLS server (a thread with an ssl socket) that presents a chosen certificate and records every application
     byte it receives, for the pin check over a real handshake (C03 / C11): certificate changed between two fetches."""
import asyncio, json, os, socket, ssl, subprocess, sys, threading, time, shutil
from pathlib import Path
from common import scratch_dir

ECHO_SERVER = r'''
import sys, asyncio, os, json
sys.path.insert(0, os.path.join(os.environ.get("NV_REPO", "/repo"), "src"))
cert, key, port = sys.argv[1], sys.argv[2], int(sys.argv[3])
from nauyaca.security.tls import create_server_context
from nauyaca.server.protocol import GeminiServerProtocol
from nauyaca.protocol.response import GeminiResponse
def echo(request):
    return GeminiResponse(20, "text/plain", json.dumps({"raw": request.raw_url, "host": request.hostname, "port": request.port,
                                                       "path": request.path, "query": request.query}))
async def main():
    ctx = create_server_context(cert, key)
    loop = asyncio.get_running_loop()
    servers = []
    for host in ("127.0.0.1", "::1"):
        try:
            servers.append(await loop.create_server(lambda: GeminiServerProtocol(echo), host, port, ssl=ctx))
        except OSError:
            pass
    print("READY", len(servers), flush=True)
    await asyncio.Event().wait()
asyncio.run(main())
'''

def free_port():
    with socket.socket() as s:
        s.bind(("127.0.0.1", 0)); return s.getsockname()[1]

def write_cert(tmp, name):
    from nauyaca.security.certificates import generate_self_signed_cert
    cert, key = generate_self_signed_cert("localhost")
    c, k = os.path.join(tmp, name + ".pem"), os.path.join(tmp, name + ".key")
    open(c, "wb").write(cert); open(k, "wb").write(key)
    return c, k

class EchoServer:
    def __init__(self, tmp):
        self.port = free_port()
        c, k = write_cert(tmp, "echo")
        self.p = subprocess.Popen([sys.executable, "-c", ECHO_SERVER, c, k, str(self.port)], env=dict(os.environ),
                                  stdout=subprocess.PIPE, stderr=subprocess.PIPE, text=True)
        line = self.p.stdout.readline()
        if not line.startswith("READY"):
            raise RuntimeError("echo server failed: " + self.p.stderr.read()[-800:])
        self.listeners = int(line.split()[1])
    def stop(self):
        self.p.kill(); self.p.wait()

def echo_urls(port):
    """(url given to the client, expected (host, port, path, query) as the caller means them)"""
    P = port
    out = []
    for host, h in (("127.0.0.1", "127.0.0.1"), ("[::1]", "::1"), ("localhost", "localhost"), ("LOCALHOST", "localhost")):
        out += [("gemini://%s:%d" % (host, P), (h, P, "/", "")),
                ("gemini://%s:%d/" % (host, P), (h, P, "/", "")),
                ("GEMINI://%s:%d/a/b?x=1&y=%%20z" % (host, P), (h, P, "/a/b", "x=1&y=%20z")),
                ("gemini://%s:%d/p%%2Fq/;params=1?" % (host, P), (h, P, "/p%2Fq/;params=1", "")),
                ("gemini://%s:%d/caf%%C3%%A9/~user/a:b@c" % (host, P), (h, P, "/caf%C3%A9/~user/a:b@c", ""))]
    # the longest request lines the protocol allows (URL + CRLF = 1024 bytes), and the ones just below: accepted by the client,
    # so the server has to parse them to the same components
    base = "gemini://127.0.0.1:%d/" % P
    for total in (1020, 1021, 1022):
        pad = "a" * (total - len(base))
        out.append((base + pad, ("127.0.0.1", P, "/" + pad, "")))
        q = "q=" + "b" * (total - len(base) - len("p?q="))
        out.append((base + "p?" + q, ("127.0.0.1", P, "/p", q)))
    # the limit is in BYTES: non-ASCII URLs of at most 1022 characters whose UTF-8 form is at / just over the limit.  The library may
    # refuse them (a ValueError from the client counts as "not accepted"); if it accepts one, the server has to see the same components
    for ch, nbytes in (("\u00e9", 2), ("\u20ac", 3), ("\U0001f40d", 4)):
        for total in (1021, 1022, 1023, 1024, 1200):
            k = (total - len(base)) // nbytes
            pad = ch * k + "a" * (total - len(base) - k * nbytes)
            out.append((base + pad, ("127.0.0.1", P, "/" + pad, "")))
    return out

def run_echo(res, tier):
    from nauyaca.client.session import GeminiClient
    tmp = scratch_dir("nv-pair-")
    srv = None
    try:
        srv = EchoServer(tmp)
        async def go():
            client = GeminiClient(timeout=5.0, trust_on_first_use=True, tofu_db_path=Path(tmp) / "tofu.db")
            out = []
            for url, want in echo_urls(srv.port):
                if "::1" in url and srv.listeners < 2: continue
                try:
                    r = await client.get(url, follow_redirects=False)
                    got = json.loads(r.body) if r.status == 20 else {"status": r.status, "meta": r.meta}
                except Exception as e:
                    got = {"exception": "%s: %s" % (type(e).__name__, e)}
                out.append((url, want, got))
            return out
        for url, want, got in asyncio.run(go()):
            res.evaluations += 1; res.count("live-pair")
            res.nontriv(("live-pair", url))
            seen = (got.get("host"), got.get("port"), got.get("path"), got.get("query"))
            not_accepted = str(got.get("exception", "")).startswith("ValueError") and len(url.encode("utf-8")) > 1022
            if seen != want and not not_accepted:
                res.violations.append({"clause": "the server parses the request line to the components the caller asked for (live pair)",
                                       "signature": "C19:live-pair", "case": {"url": url},
                                       "trace": {"expected": list(want), "server_saw": got}})
        res.sample({"live_pair": "gemini://[::1]:<port>/ -> host ::1, path /"})
    finally:
        if srv: srv.stop()
        shutil.rmtree(tmp, ignore_errors=True)

# ---------------------------------------------------------------- (b) raw recording TLS server
def end_tls(tls, wait=1.5):
    """orderly end of a server-side connection: close_notify, FIN, then read until the peer has closed (bounded by `wait`
    seconds), and only then close().  A bare close() right after the reply is a race: the client under test answers a non-2x
    header by closing at once, its close_notify can reach this socket between sendall() and close(), and closing a socket
    with unread bytes makes the kernel send RST instead of FIN - the client then reports "Connection reset by peer" for a
    response it has received in full.  A reset is a transport failure, not an answer a scripted server is meant to give
    (resets at every offset are C13's subject and are injected deliberately there), so the scripted servers never cause one."""
    end = time.time() + wait
    try:
        tls.settimeout(wait)
        tls.unwrap()                          # sends close_notify and waits for the peer's
    except (ssl.SSLError, OSError, ValueError):
        pass
    try: tls.shutdown(socket.SHUT_WR)         # FIN; the object reads the plain socket from here on
    except (OSError, ValueError): pass
    try:
        while time.time() < end:
            tls.settimeout(max(0.05, end - time.time()))
            if not tls.recv(4096): break      # b"" = the peer has closed: nothing unread is left behind
    except (ssl.SSLError, OSError, ValueError):
        pass
    try: tls.close()
    except OSError: pass

class RecordingServer(threading.Thread):
    """accepts TLS connections with the given certificate, records application bytes, answers a fixed response
    (reply_for(request bytes) may be overridden: harness/cliclient.py scripts per-URL answers); threaded=True handles every
    connection in a thread of its own (several clients at once)"""
    def __init__(self, port, certfile, keyfile, reply=b"20 text/plain\r\nok", threaded=False):
        super().__init__(daemon=True)
        self.ctx = ssl.SSLContext(ssl.PROTOCOL_TLS_SERVER); self.ctx.load_cert_chain(certfile, keyfile)
        self.sock = socket.socket(); self.sock.setsockopt(socket.SOL_SOCKET, socket.SO_REUSEADDR, 1)
        self.sock.bind(("127.0.0.1", port)); self.sock.listen(64 if threaded else 5); self.sock.settimeout(0.2)
        self.port = port
        self.reply = reply; self.received = []; self.stop_flag = False; self.threaded = threaded
    def reply_for(self, data):
        return self.reply
    def handle(self, conn):
        try:
            conn.settimeout(1.5)
            tls = self.ctx.wrap_socket(conn, server_side=True)
            data = b""
            try:
                while b"\r\n" not in data:
                    chunk = tls.recv(4096)
                    if not chunk: break
                    data += chunk
            except (socket.timeout, ssl.SSLError, OSError):
                pass
            self.received.append(data)
            if b"\r\n" in data:
                try: tls.sendall(self.reply_for(data))
                except OSError: pass
            end_tls(tls)
        except (ssl.SSLError, OSError):
            self.received.append(b"")
    def run(self):
        while not self.stop_flag:
            try: conn, _ = self.sock.accept()
            except socket.timeout: continue
            except OSError: break
            if self.threaded: threading.Thread(target=self.handle, args=(conn,), daemon=True).start()
            else: self.handle(conn)
    def stop(self):
        self.stop_flag = True
        try: self.sock.close()
        except OSError: pass

def run_cert_change(res, tier):
    """first fetch pins certificate A; the same host:port then presents certificate B: the fetch (and an upload) must fail with
    the certificate-changed error and the impostor must have received no application byte"""
    from nauyaca.client.session import GeminiClient
    from nauyaca.security.tofu import CertificateChangedError
    tmp = scratch_dir("nv-pin-")
    try:
        ca, ka = write_cert(tmp, "a"); cb, kb = write_cert(tmp, "b")
        port = free_port()
        async def fetch(client, op):
            url = "gemini://localhost:%d/x" % port
            try:
                if op == "get": r = await client.get(url, follow_redirects=False)
                else: r = await client.upload(url, b"secret-content", mime_type="text/plain", token="tok")
                return ["ok", r.status]
            except CertificateChangedError:
                return ["changed"]
            except Exception as e:
                return ["error", type(e).__name__]
        client = GeminiClient(timeout=4.0, trust_on_first_use=True, tofu_db_path=Path(tmp) / "tofu.db")
        s1 = RecordingServer(port, ca, ka); s1.start()
        first = asyncio.run(fetch(client, "get")); s1.stop(); s1.join(2)
        time.sleep(0.1)
        s2 = RecordingServer(port, cb, kb); s2.start()
        second = asyncio.run(fetch(client, "get"))
        third = asyncio.run(fetch(client, "upload"))
        time.sleep(0.3); s2.stop(); s2.join(2)
        res.evaluations += 3; res.count("live-pin")
        res.nontriv(("live-pin", "pinned-then-changed"))
        leaked = [d for d in s2.received if d]
        if first != ["ok", 20] or second != ["changed"] or third != ["changed"] or leaked:
            res.violations.append({"clause": "over a real handshake: a changed certificate is refused and receives no application byte",
                                   "signature": "C11:live-pin-change",
                                   "case": {"scenario": "fetch pins certificate A; the same host:port then presents certificate B; get and upload"},
                                   "trace": {"first_fetch": first, "get_after_change": second, "upload_after_change": third,
                                             "bytes_received_by_the_second_server": [d.hex()[:120] for d in leaked]}})
    finally:
        shutil.rmtree(tmp, ignore_errors=True)
