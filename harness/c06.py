"""C06: whole responses of every size through the real TLSServerProtocol / TLSTransportWrapper (PyOpenSSL, in
memory) and through asyncio's own TLS (stdlib backend, in memory via ssl.MemoryBIO + sslproto), compared with
header ++ body; pump piece sizes compared with Model/TlsPump.v."""
import asyncio, ssl, hashlib
from common import *
import tlsmem

def sizes(tier, rng):
    base = [0, 1, 2, 100, 8191, 8192, 8193, 16383, 16384, 16385, 16386, 24576, 32767, 32768, 32769, 65535, 65536, 65537, 131072, 1 << 20]
    base += [3 << 20]
    if tier != "quick": base += [8 << 20] + [rng.randint(0, 200000) for _ in range(60)]
    else: base += [rng.randint(0, 100000) for _ in range(10)]
    return base

def mk_body(rng, n, kind):
    if kind == "bytes":
        seed = rng.getrandbits(32).to_bytes(4, "big")
        return (hashlib.sha256(seed).digest() * (n // 32 + 1))[:n]
    s = ("héllo wörld 世界 " * (n // 10 + 1))
    return s[:n]

def pyopenssl_fetch(handler, slow=False):
    from nauyaca.server.protocol import GeminiServerProtocol
    async def go():
        pair = tlsmem.Pair(lambda: GeminiServerProtocol(handler), flow=slow)
        pair.handshake()
        pair.client_send(b"gemini://localhost/\r\n"); pair.to_server()
        for _ in range(4): await asyncio.sleep(0)
        if slow:
            got = await pair.client_read_slowly()
            for _ in range(4): await asyncio.sleep(0)
            got = await pair.client_read_slowly()
        else:
            got = pair.client_read_all()
        ip = pair.server.inner_protocol
        if ip is not None and ip.timeout_handle: ip.timeout_handle.cancel()
        pair.server._cancel_handshake_timer() if hasattr(pair.server, "_cancel_handshake_timer") else None
        return got, pair.eof, pair.tcp.closed, list(pair.tcp.writes)
    return asyncio.run(go())

def stdlib_fetch(handler, server_ctx):
    """asyncio's SSLProtocol around GeminiServerProtocol, driven in memory against an ssl.SSLObject client."""
    from nauyaca.server.protocol import GeminiServerProtocol
    from asyncio import sslproto
    async def go():
        loop = asyncio.get_running_loop()
        tcp = tlsmem.MemTCP()
        app = GeminiServerProtocol(handler)
        waiter = loop.create_future()
        sp = sslproto.SSLProtocol(loop, app, server_ctx, waiter, server_side=True)
        sp.connection_made(tcp)
        cctx = ssl.SSLContext(ssl.PROTOCOL_TLS_CLIENT); cctx.check_hostname = False; cctx.verify_mode = ssl.CERT_NONE
        cin, cout = ssl.MemoryBIO(), ssl.MemoryBIO()
        cobj = cctx.wrap_bio(cin, cout, server_side=False)
        plain, eof, sent = bytearray(), False, False
        def feed_server():
            data = cout.read()
            if data:
                buf = sp.get_buffer(len(data)); buf[: len(data)] = data; sp.buffer_updated(len(data))
        for _ in range(400):
            try:
                cobj.do_handshake(); hs = True
            except ssl.SSLWantReadError:
                hs = False
            feed_server()
            await asyncio.sleep(0)
            if tcp.out: cin.write(bytes(tcp.out)); del tcp.out[:]
            if hs and not sent:
                cobj.write(b"gemini://localhost/\r\n"); sent = True; feed_server()
            if hs:
                try:
                    while True:
                        chunk = cobj.read(65536)
                        if not chunk: eof = True; break
                        plain += chunk
                except ssl.SSLWantReadError: pass
                except ssl.SSLZeroReturnError: eof = True
                except ssl.SSLError: pass
            if eof or (tcp.closed and not tcp.out and hs):
                break
        if app.timeout_handle: app.timeout_handle.cancel()
        return bytes(plain), eof, tcp.closed
    return asyncio.run(go())

def run(tier, seed):
    setup_impl()
    from nauyaca.protocol.response import GeminiResponse
    from nauyaca.security.tls import create_server_context
    from nauyaca.security.certificates import generate_self_signed_cert
    rng = random.Random(seed)
    res = Result()
    res.rule = ("body lengths 0,1, 2^13+-1, 2^14-1..2^14+2, 2^15+-1, 2^16+-1, 2^17, 1 MiB (thorough: 3 and 8 MiB, 60 random) as bytes and as str, handler-produced, through "
                "both TLS backends driven in memory (PyOpenSSL pump; asyncio SSLProtocol); the client must read header ++ body then EOF; "
                "non-trivial = distinct (backend, length, kind)")
    tmp = scratch_dir("nv-c06-")
    try:
        cert, key = generate_self_signed_cert(hostname="localhost", key_size=2048, valid_days=5)
        open(os.path.join(tmp, "c.pem"), "wb").write(cert); open(os.path.join(tmp, "k.pem"), "wb").write(key)
        sctx = create_server_context(os.path.join(tmp, "c.pem"), os.path.join(tmp, "k.pem"))
        mcases, meta = [], []
        for n in sizes(tier, rng):
            for kind in ("bytes", "str"):
                body = mk_body(rng, n, kind)
                mime = "application/octet-stream" if kind == "bytes" else "text/plain"
                expected = ("20 %s\r\n" % mime).encode() + (body if kind == "bytes" else body.encode("utf-8"))
                handler = lambda req, b=body, m=mime: GeminiResponse(20, m, b)
                for backend in ("pyopenssl", "stdlib") + (("pyopenssl-slow-reader",) if n >= 65536 else ()):
                    if backend == "pyopenssl":
                        got, eof, closed, writes = pyopenssl_fetch(handler)
                    elif backend == "pyopenssl-slow-reader":
                        got, eof, closed, writes = pyopenssl_fetch(handler, slow=True)
                    else:
                        got, eof, closed = stdlib_fetch(handler, sctx); writes = []
                    res.evaluations += 1
                    res.nontriv((backend, n, kind))
                    res.count(backend)
                    if got != expected or not (closed or eof):
                        res.violations.append({"clause": "complete-and-unaltered", "signature": "C06:%s" % backend,
                                               "case": {"backend": backend, "body_length": n, "kind": kind},
                                               "trace": {"received": len(got), "expected": len(expected), "first_difference": next((i for i, (a, b) in enumerate(zip(got, expected)) if a != b), min(len(got), len(expected))),
                                                         "tcp_closed": closed, "eof": eof}})
                    if backend == "pyopenssl" and any(w > 8192 for w in writes):
                        res.disagreements.append({"driver": "pump:piece-size", "case": {"body_length": n}, "model": "<= 8192", "impl": max(writes)})
        res.sample({"backend": "pyopenssl", "body_length": 16385, "received_equals_expected": True})
    finally:
        shutil.rmtree(tmp, ignore_errors=True)
    # live: the real start_server on 127.0.0.1, both backends, fast and stalled readers of a 6 MiB static file
    import livetls
    livetls.run_slow_readers(res, tier)
    livetls.run_exact_maximum(res, tier, "C06")
    res.rule += (" | live: start_server in its own process, 6 MiB static file, raw TLS client with a 32 KiB receive buffer that reads the header, "
                 "stalls (0 s, 3 s; thorough also 12 s and 33 s; and 2.5 s against asyncio's TLS shutdown timeout compressed to 1 s) and then drains")
    return res
