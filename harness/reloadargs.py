"""C09, `nauyaca serve --reload`: the argument list the parent hands to the child that is the server.

Generated command lines are run through
  (i)  the REAL filter: the real `serve` command (typer's CliRunner, sys.argv set to ["nauyaca", "serve"] + args) with
       nauyaca.server.reload.run_with_reload replaced by a recorder - and nauyaca.__main__.start_server by a stub, so that a line
       on which click does not see --reload cannot start a server;
  (ii) the REAL Supervisor(config, server_args)._build_command() on what (i) recorded;
  (iii) the whole path once more with nothing of nauyaca replaced: serve -> run_with_reload -> Supervisor.__init__ -> run ->
       _start_server -> subprocess.Popen, where only the names `subprocess` and `signal` inside supervisor.py are stand-ins that
       record the Popen call and end the supervisor's loop;
and compared with the extracted model (Dispatch "reload.server_args", "reload.child_argv": Model/Reload.v).  Lines click rejects
before the loop runs (unknown option, missing path, ...) are counted and skipped.  Disagreements carry driver "reload"."""
import os, sys, random, shutil, signal as _signal, subprocess as _subprocess, types
from common import *

NEAR = ["--reloaded", "--reload-dirs=x", "--no-reload", "reload", "--reload-di", "--reload=1", "--RELOAD", "x-reload-y", "--reload-extra", "--reload_dir"]
FLAGLIKE = ["--reload", "--reload-dir", "--reload-ext", "--reload-dir=src", "--reload-ext=.x", "--config", "-c", "--"]
JUNK = ["", "-", "1965", "0", "localhost", "127.0.0.1", "ünïcödé-reload", "日本語", "a b", "=", "--port", "DEBUG"]
EXTS = [".py", "gmi", ".toml", "reload", "", "=.x", "--config", "--reload", ".Ré"]

def make_tree(tmp):
    """directories and files the generated lines refer to (click checks that roots, --reload-dir and --config exist);
    some are named like options on purpose"""
    for d in ["capsule", "reload-root", "src", "reload", "--config", "--reload", "--reload-dir", "dir with space", "ünï-reload"]:
        os.makedirs(os.path.join(tmp, d), exist_ok=True)
    open(os.path.join(tmp, "capsule", "index.gmi"), "w").write("# capsule\n")
    toml = '[server]\ndocument_root = "%s"\n' % os.path.join(tmp, "capsule")
    for f in ["dev-reload.toml", "plain.toml", os.path.join("reload", "conf.toml"), "--reload-dir=x.toml", "--reload-ext", "reload"]:
        p = os.path.join(tmp, f)
        if not os.path.exists(p): open(p, "w").write(toml)
    return dict(dirs=["src", "capsule", "reload-root", os.path.join(tmp, "src"), "./reload", "--config", "--reload", "--reload-dir", "dir with space", "ünï-reload"],
                roots=["capsule", "reload-root", os.path.join(tmp, "reload-root"), "./capsule", "reload", "ünï-reload"],
                configs=["dev-reload.toml", os.path.join(tmp, "dev-reload.toml"), "plain.toml", "reload/conf.toml", "--reload-dir=x.toml", "./dev-reload.toml"])

def gen_line(rng, T):
    """a command line after `nauyaca serve`: a shuffle of items (a flag with its value stays together), or token soup"""
    val = lambda: rng.choice(NEAR + JUNK + FLAGLIKE) if rng.random() < 0.8 else rng.choice(NEAR) + rng.choice(JUNK)
    if rng.random() < 0.12:
        pool = NEAR + FLAGLIKE + JUNK + T["roots"] + T["configs"] + ["--config=/x/dev-reload.toml", "--reload-dir=" + T["dirs"][0], "-d", "--json-logs"]
        return [rng.choice(pool) for _ in range(rng.randint(0, 7))]
    items = []
    if rng.random() < 0.93: items.append(["--reload"])
    for _ in range(rng.randint(0, 3)):
        k = rng.randrange(5)
        if k == 0: items.append(["--reload"])
        elif k == 1: items.append(["--reload-dir", rng.choice(T["dirs"])])
        elif k == 2: items.append(["--reload-dir=" + rng.choice(T["dirs"])])
        elif k == 3: items.append(["--reload-ext", rng.choice(EXTS)])
        else: items.append(["--reload-ext=" + rng.choice(EXTS)])
    for _ in range(rng.randint(0, 4)):
        k = rng.randrange(12)
        if k == 0: items.append(["--config", rng.choice(T["configs"])])
        elif k == 1: items.append(["--config=" + rng.choice(T["configs"])])
        elif k == 2: items.append(["-c", rng.choice(T["configs"])])
        elif k == 3: items.append([rng.choice(["--host", "-h"]), val()])
        elif k == 4: items.append([rng.choice(["--log-level", "-l"]), val()])
        elif k == 5: items.append(["--log-file", rng.choice(["x-reload.log", "--reload", "--reload-ext=.log", "server.log", "reload"])])
        elif k == 6: items.append([rng.choice(["--port", "-p", "--max-file-size"]), rng.choice(["1965", "0", "70000", "11965"])])
        elif k == 7: items.append(["--host=" + val()])
        elif k == 8: items.append(["--log-level=" + val()])
        else: items.append([rng.choice(["--json-logs", "-d", "--enable-directory-listing", "--no-hash-ips", "--hash-ips", "--require-client-cert"])])
    if rng.random() < 0.8: items.append([rng.choice(T["roots"])])
    rng.shuffle(items)
    line = [t for it in items for t in it]
    if rng.random() < 0.06 and line:      # cut one token out / duplicate one: dangling flags, separated values
        i = rng.randrange(len(line))
        line = line[:i] + line[i + 1:] if rng.random() < 0.5 else line[:i] + [line[i]] + line[i:]
    if rng.random() < 0.05: line.insert(rng.randrange(len(line) + 1), "--")
    return line

FIXED = [
    ["capsule", "--reload", "--reload-dir", "src", "--config=dev-reload.toml"],
    ["reload-root", "--reload", "--config", "dev-reload.toml"],
    ["--reload", "--config", "reload/conf.toml", "--reload-ext=.toml"],
    ["--reload", "--reload-dir", "--config", "capsule"],                       # the value of --reload-dir looks like an option
    ["capsule", "--reload", "--log-level", "--reload", "--port", "1965"],      # the value of another option is spelt like a reload flag
    ["capsule", "--reload", "--host", "--reloaded", "--log-level=--no-reload"],
    ["--reload", "--", "reload"],
    ["capsule", "--reload", "--reload-ext", "--reload", "--reload-ext=", "-c", "--reload-dir=x.toml"],
    ["capsule", "--reload", "--log-file", "--reload-ext=.log", "-d"],
    ["capsule", "--reload"],
]

class _Stop(BaseException):
    pass

def run(res, tier, seed=20261001):
    setup_impl()
    from typer.testing import CliRunner
    import nauyaca.__main__ as M
    import nauyaca.server.reload as RP
    import nauyaca.server.reload.supervisor as SUP
    rng = random.Random(seed + 909)
    tmp = scratch_dir("nv-reloadargs-")
    saved = dict(argv=sys.argv, cwd=os.getcwd(), rwr=RP.run_with_reload, start=M.start_server, sp=SUP.subprocess, sg=SUP.signal,
                 env={k: os.environ.pop(k) for k in list(os.environ) if k.startswith("NAUYACA_")})
    runner = CliRunner()
    captured, popen_calls, started = [], [], []
    def recorder(config, server_args):
        captured.append((config, list(server_args)))
    async def no_server(*a, **k):
        started.append(1)
    class FakePopen:
        def __init__(self, *a, **k):
            popen_calls.append((a, k)); self.pid = 0
            raise KeyboardInterrupt          # what the supervisor's own signal handler raises to leave its loop
    sp_shim = types.SimpleNamespace(Popen=FakePopen, TimeoutExpired=_subprocess.TimeoutExpired)
    sg_shim = types.SimpleNamespace(signal=lambda *a: None, SIGINT=_signal.SIGINT, SIGTERM=_signal.SIGTERM, Signals=_signal.Signals)
    n = 700 if tier == "quick" else 12000
    try:
        T = make_tree(tmp)
        os.chdir(tmp)
        M.start_server = no_server
        lines = [list(l) for l in FIXED] + [gen_line(rng, T) for _ in range(n)]
        cases, meta, obs1, obs2, obs3 = [], [], [], [], []
        for line in lines:
            res.evaluations += 1
            sys.argv = ["nauyaca", "serve"] + line
            del captured[:]
            RP.run_with_reload = recorder
            try:
                r = runner.invoke(M.app, ["serve"] + line)
            finally:
                RP.run_with_reload = saved["rwr"]
            if len(captured) != 1:
                res.count("reload:not-reached(click/serve refused the line, or no --reload)")
                continue
            cfg, sargs = captured[0]
            # (ii) the real _build_command on what the real loop produced
            try:
                cmd = SUP.Supervisor(cfg, sargs)._build_command()
                o2 = ["exe-ok" if cmd[:1] == [sys.executable] else "exe-DIFFERS"] + list(cmd[1:])
            except Exception as e:
                o2 = ["raised", type(e).__name__, str(e)[:120]]
            # (iii) the whole path, Popen recorded
            del popen_calls[:]
            SUP.subprocess, SUP.signal = sp_shim, sg_shim
            try:
                runner.invoke(M.app, ["serve"] + line)
            finally:
                SUP.subprocess, SUP.signal = saved["sp"], saved["sg"]
            if len(popen_calls) == 1:
                a, k = popen_calls[0]
                first = a[0] if a else k.get("args")
                extra = sorted(x for x in k if x not in ("stdout", "stderr", "args"))
                if isinstance(first, (list, tuple)) and all(isinstance(x, str) for x in first):
                    o3 = ["exe-ok" if list(first[:1]) == [sys.executable] else "exe-DIFFERS"] + list(first[1:]) + (["popen-keywords"] + extra if extra or len(a) > 1 else [])
                else:
                    o3 = ["popen-args-not-a-list", repr(first)[:200]] + extra
            else:
                o3 = ["popen-calls", len(popen_calls)]
            cases.append(line); meta.append(line)
            obs1.append(enc(list(sargs))); obs2.append(enc(o2)); obs3.append(enc(o3))
            res.count("reload:filtered")
            kept = [t for t in line if "reload" in t and t in sargs]
            if any(t.startswith("--reload") for t in line[1:]) or kept: res.nontriv(tuple(line))
            if kept: res.count("reload:kept-token-containing-'reload'")
        if started: res.count("reload:lines-without---reload(server stub)", len(started))
        m1 = run_model_parallel([("reload.server_args", enc(l)) for l in cases])
        m2 = run_model_parallel([("reload.child_argv", enc(l)) for l in cases])
        m2x = [enc(["exe-ok"] + [a for a in dec(o)]) for o in m2]
        desc = lambda what: (lambda i: {"argv": ["nauyaca", "serve"] + meta[i], "observed": what})
        idx = list(range(len(cases)))
        compare(res, "reload", idx, obs1, m1, describe=desc("server_args passed to run_with_reload by the real `serve`"), oom_ok=False)
        compare(res, "reload", idx, obs2, m2x, describe=desc("Supervisor(config, server_args)._build_command()"), oom_ok=False)
        compare(res, "reload", idx, obs3, m2x, describe=desc("first argument of subprocess.Popen on the unmodified path serve -> run_with_reload -> Supervisor.run"), oom_ok=False)
        if len(cases) < len(lines) // 4:
            res.notes.append("reloadargs: only %d of %d generated lines reached the filter" % (len(cases), len(lines)))
            res.disagreements.append({"driver": "reload", "case": "generator", "model": "most generated lines reach the filter", "impl": "%d of %d" % (len(cases), len(lines))})
        if cases:
            res.sample({"reload_argv": ["nauyaca", "serve"] + meta[0], "child_argv": pretty(dec(m2[0]))})
            res.sample({"reload_argv": ["nauyaca", "serve"] + meta[3], "child_argv": pretty(dec(m2[3]))})
    finally:
        sys.argv = saved["argv"]; os.chdir(saved["cwd"])
        RP.run_with_reload, M.start_server, SUP.subprocess, SUP.signal = saved["rwr"], saved["start"], saved["sp"], saved["sg"]
        os.environ.update(saved["env"])
        shutil.rmtree(tmp, ignore_errors=True)
    return res

if __name__ == "__main__":
    r = Result()
    run(r, sys.argv[1] if len(sys.argv) > 1 else "quick")
    print(r.evaluations, r.distribution, len(r.nontrivial), len(r.disagreements))
    for d in r.disagreements[:5]: print(d)
    for s in r.samples: print(s)
