"""C01: exactly one well-formed response per connection (schedule replay + monitor Spec.C01.ok)."""
from servercheck import *

def run(tier, seed):
    res, _, _ = run_server_property(
        "C01", ["C01.ok"], tier, seed,
        nontrivial=lambda c, e, o: any(a[0] == "w" for acts, _ in o for a in acts),
        rule="non-trivial = distinct schedule in which the implementation wrote a response")
    upload_handler_call_cases(res)
    res.rule += " | plus a fixed battery of upload handlers whose call ends before an awaitable exists (raises / returns a response object), with and without a chain: compared with the model and judged by Spec.C01.ok"
    # over real TLS (start_server in its own process, both backends): a multi-megabyte response to a reader that starts late
    # arrives whole and ends cleanly - no half-written response
    import livetls
    livetls.run_whole_responses(res, tier, "C01")
    livetls.run_unrouted_paths(res, tier, "C01")
    livetls.run_config_matrix(res, tier, "C01", seed)
    res.rule += " | live: start_server on both TLS backends, 5 MiB (thorough 12 MiB) static file read after a 1 s delay, a small file and a 51; `serve` under generated configurations (TOML sections, flags, environment; log levels, IP hashing, json logs, size limit, policies) with a fixed request battery"
    return res


def upload_handler_call_cases(res):
    """ "whatever the ... upload handler does (return, raise, or complete later)": an upload handler may fail, or return, before it
    has produced an awaitable.  Inside the transition model since DESIGN 11.26 (Section variable up_call_fails; action AUploadCall):
    the real protocol is driven, its observations are compared with the extracted model's AND judged by the Coq monitor.  (The
    seeded generator of servergen produces such configurations too; this is the fixed battery: both misbehaviours, several
    messages, with / without a chain, four segmentations.)"""
    line = b"titan://h.example/f.gmi;size=5;mime=text/gemini\r\n"
    cases = []
    for up_sync in ("raise", "value", ("raise", ""), ("raise", "multi\nline \u00e9"), ("raise", "m" * 1200)):
        for has_mw in (False, True):
            for reads in ([line + b"hello"], [line, b"hello"], [line + b"he", b"llo"], [line + b"hello", b"trailing"]):
                cfg = {"has_mw": has_mw, "has_upload": True, "peer_ip": "192.0.2.1", "fp": False, "hres": ("value", sg.GOOD), "up_sync": up_sync}
                evs = [("read", [r]) for r in reads[:2 if len(reads) > 1 and reads[1] != b"trailing" else 1]]
                if has_mw: evs.append(("done", 0, ("mw", True, None)))
                if reads[-1] == b"trailing": evs.append(("read", [b"trailing"]))
                cases.append((cfg, evs))
    impl = sd.run_cases(cases)
    models = run_model_parallel([sd.model_case(c, e, tb) for (c, e), (o, d, tb, seen) in zip(cases, impl)])
    mon = run_model_parallel([("C01.ok", enc([sd.enc_cfg(c, tb), [sd.enc_event(x) for x in e], [[a, ar] for a, ar in o], seen]))
                              for (c, e), (o, d, tb, seen) in zip(cases, impl)])
    for (cfg, evs), (obs, d, tb, seen), m, ok in zip(cases, impl, models, mon):
        kind = sd.up_sync_of(cfg)[0]
        what = "raises before returning an awaitable" if kind == "raise" else "returns a response object instead of an awaitable"
        res.evaluations += 1; res.count("upload-handler-call:" + kind); res.nontriv(("upload-handler-call", str(cfg), str(evs)))
        io = sd.enc_obs(obs)
        if io != m:
            res.disagreements.append({"driver": "server:upload-handler-call", "case": dict(describe(cfg, evs), upload_handler=what),
                                      "model": pretty(dec(m)), "impl": pretty(dec(io))})
        if ok != enc(True):
            res.violations.append({"clause": "C01.ok (an upload handler that raises, or returns, before producing an awaitable)", "signature": "C01:upload-handler-call",
                                   "case": dict(describe(cfg, evs), upload_handler=what),
                                   "trace": pretty(dec(io))})
