"""C01: exactly one well-formed response per connection (schedule replay + monitor Spec.C01.ok)."""
from servercheck import *

def run(tier, seed):
    res, _, _ = run_server_property(
        "C01", ["C01.ok"], tier, seed,
        nontrivial=lambda c, e, o: any(a[0] == "w" for acts, _ in o for a in acts),
        rule="non-trivial = distinct schedule in which the implementation wrote a response")
    return res
