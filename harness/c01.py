"""C01: exactly one well-formed response per connection (schedule replay + monitor Spec.C01.ok)."""
from servercheck import *

def run(tier, seed):
    res, _, _ = run_server_property(
        "C01", ["C01.ok"], tier, seed,
        nontrivial=lambda c, e, o: any(a[0] == "w" for acts, _ in o for a in acts),
        rule="non-trivial = distinct schedule in which the implementation wrote a response")
    # over real TLS (start_server in its own process, both backends): a multi-megabyte response to a reader that starts late
    # arrives whole and ends cleanly - no half-written response
    import livetls
    livetls.run_whole_responses(res, tier, "C01")
    livetls.run_unrouted_paths(res, tier, "C01")
    livetls.run_config_matrix(res, tier, "C01", seed)
    res.rule += " | live: start_server on both TLS backends, 5 MiB (thorough 12 MiB) static file read after a 1 s delay, a small file and a 51; `serve` under generated configurations (TOML sections, flags, environment; log levels, IP hashing, json logs, size limit, policies) with a fixed request battery"
    return res
