"""C01: exactly one well-formed response per connection (schedule replay + monitor Spec.C01.ok)."""
from servercheck import *

def run(tier, seed):
    res, _, _ = run_server_property(
        "C01", ["C01.ok"], tier, seed,
        nontrivial=lambda c, e, o: any(a[0] == "w" for acts, _ in o for a in acts),
        rule="non-trivial = distinct schedule in which the implementation wrote a response")
    upload_handler_call_cases(res)
    res.rule += " | plus upload handlers whose call ends before an awaitable exists (raises / returns a response object), with and without a chain, judged by Spec.C01.ok"
    # over real TLS (start_server in its own process, both backends): a multi-megabyte response to a reader that starts late
    # arrives whole and ends cleanly - no half-written response
    import livetls
    livetls.run_whole_responses(res, tier, "C01")
    livetls.run_unrouted_paths(res, tier, "C01")
    livetls.run_config_matrix(res, tier, "C01", seed)
    res.rule += " | live: start_server on both TLS backends, 5 MiB (thorough 12 MiB) static file read after a 1 s delay, a small file and a 51; `serve` under generated configurations (TOML sections, flags, environment; log levels, IP hashing, json logs, size limit, policies) with a fixed request battery"
    return res


def upload_handler_call_cases(res):
    """ "whatever the ... upload handler does (return, raise, or complete later)": an upload handler may fail, or return, before it
    has produced an awaitable.  Outside the transition model (the model's upload handler always yields a task): the real protocol is
    driven and the implementation's observations are judged by the Coq monitor, with a virtual completion event telling the monitor
    that the handler's invocation is over (it raised)."""
    import asyncio
    line = b"titan://h.example/f.gmi;size=5;mime=text/gemini\r\n"
    cases = []
    for up_sync in ("raise", "value"):
        for has_mw in (False, True):
            for reads in ([line + b"hello"], [line, b"hello"], [line + b"he", b"llo"], [line + b"hello", b"trailing"]):
                cfg = {"has_mw": has_mw, "has_upload": True, "peer_ip": "192.0.2.1", "fp": False, "hres": ("value", sg.GOOD), "up_sync": up_sync}
                evs = [("read", [r]) for r in reads[:2 if len(reads) > 1 and reads[1] != b"trailing" else 1]]
                if has_mw: evs.append(("done", 0, ("mw", True, None)))
                if reads[-1] == b"trailing": evs.append(("read", [b"trailing"]))
                cases.append((cfg, evs))
    async def go():
        out = []
        for cfg, evs in cases:
            urlimpl_calls = sd.urlimpl._calls; del urlimpl_calls[:]
            obs, delay, calls, seen = await sd.run_schedule(cfg, evs)
            out.append((obs, [[h, [] if m is None else [m]] for h, m in calls], seen))
        return out
    mc, meta = [], []
    for (cfg, evs), (obs, tb, seen) in zip(cases, asyncio.run(go())):
        up_ids = [a[1] for acts, _ in obs for a in acts if a[0] == "up"]
        evs2, obs2 = list(evs), [[a, ar] for a, ar in obs]
        for i in up_ids:       # the invocation is over: it raised
            evs2.append(("done", i, ("raise", sd.SYNC_MSG))); obs2.append([[], obs2[-1][1] if obs2 else False])
        mc.append(("C01.ok", enc([sd.enc_cfg(cfg, tb), [sd.enc_event(x) for x in evs2], obs2, seen])))
        meta.append((cfg, evs, obs))
    for (cfg, evs, obs), m in zip(meta, run_model_parallel(mc)):
        res.evaluations += 1; res.count("upload-handler-call:" + cfg["up_sync"]); res.nontriv(("upload-handler-call", str(cfg), str(evs)))
        if m != enc(True):
            res.violations.append({"clause": "C01.ok (an upload handler that raises, or returns, before producing an awaitable)", "signature": "C01:upload-handler-call",
                                   "case": dict(describe(cfg, evs), upload_handler="raises before returning an awaitable" if cfg["up_sync"] == "raise" else "returns a response object instead of an awaitable"),
                                   "trace": pretty(dec(sd.enc_obs(obs)))})
