"""Filesystem trees for C02 / C05 / C14: seeded generator, builder on a real temp directory,
model encoding and recursive snapshots."""
import os, random
from common import *

NAMES = ["a", "b.gmi", "sub", "index.gmi", "index.gemini", "a b.gmi", "é.gmi", "%41.txt", "x;y.txt", "dot.", ".hidden", "UP.GMI", "d2", "L" * 90 + ".gmi",
         "admin", "pub", "secret.gmi", "c.gemini", "noext",
         # names that differ only by Unicode normalisation form (decomposed / precomposed / compatibility characters): different
         # byte strings, different files
         "cafe\u0301.gmi", "caf\u00e9.gmi", "u\u0308ber.txt", "\u00fcber.txt", "\u212bngstrom.txt", "\u00c5ngstrom.txt", "\ufb01le.gmi", "file.gmi"]

def comps(p):
    return [c for c in p.split("/") if c != ""]

def gen_tree(rng, max_nodes=10, links=True, odd_links=False):
    """-> list of (relpath under tmp, kind, payload); tmp-level dirs: root, rootx, outside"""
    nodes = [("root", "d", None), ("rootx", "d", None), ("outside", "d", None),
             ("outside/secret.txt", "f", b"SENTINEL-OUTSIDE-secret"), ("rootx/sib.gmi", "f", b"# SENTINEL-SIBLING-sib\nbody of the sibling page"),
             ("outside/journal.gmi", "f", b"# SENTINEL-OUTSIDE-journal heading\nprivate journal")]
    dirs = ["root"]
    used = set(n[0] for n in nodes)
    n = rng.randint(1, max_nodes)
    for i in range(n):
        parent = rng.choice(dirs)
        name = rng.choice(NAMES)
        rel = parent + "/" + name
        if rel in used: continue
        k = rng.random()
        if k < 0.3 and len(comps(rel)) < 5:
            nodes.append((rel, "d", None)); dirs.append(rel)
        elif k < 0.75 or not links:
            ck = rng.random()
            if ck < 0.8: content = (("# " if name.endswith((".gmi", ".gemini")) and rng.random() < 0.5 else "") + "SENTINEL-%d-%s" % (i, name)).encode("utf-8")
            elif ck < 0.86: content = b"SENTINEL-%d-\xff\xfe binary" % i
            elif ck < 0.875:
                # files whose size sits on the handler's limit (the checks run with max_file_size = 64): exactly the limit is served
                size = rng.choice([63, 64, 64, 65])
                head = ("SENTINEL-%d-sz%d-" % (i, size)).encode()
                content = head + b"x" * (size - len(head))
            elif ck < 0.9:
                # text-mode corners: CRLF / lone CR line ends, a byte order mark at the start or inside, a trailing CR
                content = rng.choice([b"SENTINEL-%d-crlf\r\nsecond line\r\n", b"SENTINEL-%d-cr\rsecond\r\rthird", b"\xef\xbb\xbfSENTINEL-%d-bom\nx",
                                      b"SENTINEL-%d-midbom \xef\xbb\xbf tail\r", b"SENTINEL-%d-mixed\n\r\n\r\r\n"]) 
                content = content % i if b"%d" in content else content
            else: content = b""
            nodes.append((rel, "f", content))
        else:
            depth = len(comps(rel)) - 1
            tk = rng.random()
            if tk < 0.2: target = "../" * depth + rng.choice(["outside/secret.txt", "outside/journal.gmi"])
            elif tk < 0.3: target = "ABS:outside/secret.txt"
            elif tk < 0.4: target = "../" * depth + "outside"
            elif tk < 0.5: target = "../" * depth + "rootx/sib.gmi"
            elif tk < 0.6: target = "missing-target"
            elif tk < 0.68: target = name                      # self loop
            elif tk < 0.76: target = "../" * (depth - 1) + rng.choice(NAMES) if depth > 1 else rng.choice(NAMES)
            else:
                inside = [x[0] for x in nodes if x[0].startswith("root/")]
                if inside:
                    t = rng.choice(inside)
                    target = "../" * (depth - 1) + t[len("root/"):] if depth >= 1 else t
                    if depth == 1: target = t[len("root/"):]
                else: target = "missing-target"
            nodes.append((rel, "l", target))
        used.add(rel)
    # names of more than 255 bytes exist only as link targets (the filesystem refuses to create them): a link - in a
    # quarter of the trees an index file - whose target is such a name, inside or outside the root
    if links and rng.random() < 0.35:
        parent = rng.choice(dirs)
        name = rng.choice(["index.gmi", "index.gmi", "index.gemini", "long-link", "a"])
        rel = parent + "/" + name
        if rel not in used:
            depth = len(comps(rel)) - 1
            target = rng.choice(["L" * 300, "L" * 256 + ".gmi", "sub/" + "L" * 300, "../" * depth + "outside/" + "L" * 300, "ABS:root/" + "L" * 300])
            nodes.append((rel, "l", target)); used.add(rel)
            other = parent + "/" + ("index.gemini" if name == "index.gmi" else "index.gmi")
            if other not in used and rng.random() < 0.5:
                nodes.append((other, "f", b"SENTINEL-BESIDE-LONG-%d" % len(nodes))); used.add(other)
    # link targets that pass THROUGH other links: a cycle in front of "..", and a directory link that leaves the root
    # (non-strict resolve() gives up at the cycle and leaves the rest of such a path unresolved)
    if links and rng.random() < 0.3:
        parent = rng.choice(dirs)
        depth = len(comps(parent)) - 1
        lp, ev, via = parent + "/zloop", parent + "/zevil", parent + "/" + rng.choice(["zvia", "a", "index.gmi"])
        if not ({lp, ev, via} & used):
            nodes.append((lp, "l", rng.choice(["zloop", "zloop/x"])))
            nodes.append((ev, "l", "../" * (depth + 1) + rng.choice(["outside", "rootx", "outside/secret.txt"])))
            nodes.append((via, "l", rng.choice(["zloop/../zevil", "zevil/../zloop/../zevil", "zloop/../zevil/secret.txt", "./zloop/../zevil"])))
            used |= {lp, ev, via}
    # link targets that go on after something that is not a directory ("file/..", "missing/..", "file/", "file/."):
    # posixpath.realpath (Path.resolve) answers lexically, stat() (is_dir(), the size in a listing) fails with
    # ENOTDIR / ENOENT - Model/Listing.v kstat.  Only for the harnesses that ask for them (C02).
    if links and odd_links and rng.random() < 0.45:
        for _ in range(rng.randint(1, 3)):
            parent = rng.choice(dirs)
            sib = [os.path.basename(x[0]) for x in nodes if os.path.dirname(x[0]) == parent]
            x = rng.choice(sib + ["missing"])
            rel = parent + "/zodd%d" % rng.randint(0, 5)
            if rel in used: continue
            target = x + rng.choice(["/..", "/.", "/", "/../" + x, "/./", "//", "/../..", "/..//.", "/../zz-nothing", "/x/.."])
            nodes.append((rel, "l", target)); used.add(rel)
    # every directory gets a uniquely named marker file, so that a listing identifies the directory it shows
    for i, (rel, kind, payload) in enumerate(list(nodes)):
        if kind == "d":
            nodes.append((rel + "/zz-dirid-%d" % i, "f", ("SENTINEL-DIRID-%d" % i).encode()))
    return nodes

def build(tmp, nodes):
    for rel, kind, payload in nodes:
        p = os.path.join(tmp, rel)
        if kind == "d": os.makedirs(p, exist_ok=True)
    for rel, kind, payload in nodes:
        p = os.path.join(tmp, rel)
        if kind == "f":
            os.makedirs(os.path.dirname(p), exist_ok=True)
            with open(p, "wb") as f: f.write(payload)
    for rel, kind, payload in nodes:
        p = os.path.join(tmp, rel)
        if kind == "l":
            os.makedirs(os.path.dirname(p), exist_ok=True)
            t = os.path.join(tmp, payload[4:]) if payload.startswith("ABS:") else payload
            try: os.symlink(t, p)
            except FileExistsError: pass

def model_fs(tmp, nodes):
    base = comps(tmp)
    out = []
    for rel, kind, payload in nodes:
        p = base + comps(rel)
        if kind == "d": out.append([p, ["d"]])
        elif kind == "f": out.append([p, ["f", payload]])
        else:
            t = os.path.join(tmp, payload[4:]) if payload.startswith("ABS:") else payload
            out.append([p, ["l", t]])
    return out

def snapshot(top):
    """recursive lstat snapshot below `top` (model fs encoding, sorted)"""
    out = []
    for d, dirs, files in os.walk(top, followlinks=False):
        for name in sorted(dirs + files):
            p = os.path.join(d, name)
            if os.path.islink(p): out.append([comps(p), ["l", os.readlink(p)]])
            elif os.path.isdir(p): out.append([comps(p), ["d"]])
            else:
                with open(p, "rb") as f: out.append([comps(p), ["f", f.read()]])
    return sorted(out, key=lambda e: e[0])

def clear(tmp):
    for name in os.listdir(tmp):
        p = os.path.join(tmp, name)
        if os.path.islink(p) or os.path.isfile(p): os.unlink(p)
        else: shutil.rmtree(p, ignore_errors=True)

def pct(s, rng=None, full=False):
    out = []
    for b in s.encode("utf-8"):
        c = chr(b)
        if full or not (c.isalnum() or c in "-._~/"):
            out.append("%%%02X" % b)
        else: out.append(c)
    return "".join(out)

def spellings(rng, rel):
    """request-path spellings of a path relative to the root"""
    segs = comps(rel)
    base = "/" + "/".join(segs)
    out = [base, pct(base), base + "/", "/" + "/".join(pct(s, full=True) for s in segs)]
    k = rng.random()
    muts = [
        lambda: "/" + "//".join(segs),
        lambda: "/./" + "/./".join(segs),
        lambda: "/x/../" + "/".join(segs),
        lambda: base + "/.",
        lambda: base + "/..",
        lambda: "/%2e%2e/" + "/".join(segs),
        lambda: "/../" * rng.randint(1, 4) + "/".join(segs),
        lambda: base.replace("/", "%2F", 1) if len(base) > 1 else base,
        lambda: base + "%00",
        lambda: base + ";x=1",
        lambda: base.replace("/", "\\"),
        lambda: "/" + "/".join(segs[:-1] + ["..", segs[-1]]) if segs else "/",
        lambda: base + "%",
        lambda: base + "%zz",
        lambda: "/../outside/secret.txt",
        lambda: "/../rootx/sib.gmi",
        lambda: "/" + "/".join(segs) + "/../../outside/secret.txt",
        lambda: "/%ff" + base,
        # an encoded slash next to a dot segment: one segment on the wire, two after decoding
        lambda: "/zz/..%2f" + "/".join(segs),
        lambda: "/zz/%2e%2e%2F" + "%2f".join(segs),
        lambda: "/" + "/".join(segs[:-1] + ["zz%2f..", segs[-1]]) if segs else "/zz%2f..",
    ]
    for _ in range(3):
        out.append(rng.choice(muts)())
    return out

def encoded_slash_spellings(rel):
    """spellings in which a percent-encoded slash sits next to a dot segment (always offered to the C05 check)"""
    segs = comps(rel)
    tail = "/".join(segs)
    return ["/zz/..%2f" + tail, "/zz/%2e%2e%2F" + tail, "/zz%2f../" + tail]

def text_mode(payload):
    """what reading these bytes in text mode (UTF-8, universal newlines) yields - the referee's notion of "the content of the file" as text; None = not UTF-8"""
    try: t = payload.decode("utf-8")
    except UnicodeDecodeError: return None
    return t.replace("\r\n", "\n").replace("\r", "\n")
