"""C08: only protocol-valid requests reach handlers; valid ones are not refused (three-valued oracle Spec.C08.ok)."""
from servercheck import *
import urlgen

def extra(rng, tier):
    n = 3000 if tier == "quick" else 40000
    cases = []
    def cfg():
        return {"has_mw": rng.random() < 0.4, "has_upload": rng.random() < 0.5, "peer_ip": "192.0.2.1", "fp": False,
                "hres": ("value", sg.GOOD)}
    def finish(c):
        return [("done", 0, ("mw", True, None))] if c["has_mw"] else []
    for _ in range(n):
        k = rng.random()
        if k < 0.45:
            u = urlgen.valid_url(rng)                       # must-accept set
        elif k < 0.85:
            u = urlgen.mutated_url(rng)                     # systematic corruptions
        else:
            u = urlgen.grammar_url(rng)
        try: line = u.encode("utf-8")
        except UnicodeEncodeError: line = u.encode("utf-8", "replace")
        if rng.random() < 0.05: line = line.replace(b"a", b"\xff", 1)   # invalid UTF-8
        c = cfg()
        cases.append((c, sg.group_reads(rng, sg.random_chunks(rng, line + b"\r\n")) + finish(c)))
    # length boundary: 1021..1030 bytes including CRLF, with and without CRLF
    for total in range(1019, 1031):
        for with_crlf in (True, False):
            for scheme in (b"gemini://h/", b"titan://h/"):
                body = scheme + b"a" * (total - 2 - len(scheme))
                if scheme.startswith(b"titan"):
                    body = body[:-7] + b";size=0"
                data = body + (b"\r\n" if with_crlf else b"")
                c = cfg(); c["has_upload"] = True
                cases.append((c, [("read", [data])] + finish(c)))
                cases.append((c, sg.group_reads(rng, sg.random_chunks(rng, data)) + finish(c)))
                # the limit is in BYTES: the same lengths reached with 2- and 3-byte characters (fewer characters than bytes)
                for ch in ("\u00e9".encode("utf-8"), "\u4e16".encode("utf-8")):
                    tail = b";size=0" if scheme.startswith(b"titan") else b""
                    room = total - 2 - len(scheme) - len(tail)
                    if room < 0: continue
                    body2 = scheme + ch * (room // len(ch)) + b"a" * (room % len(ch)) + tail
                    data2 = body2 + (b"\r\n" if with_crlf else b"")
                    c2 = cfg(); c2["has_upload"] = True
                    cases.append((c2, [("read", [data2])] + finish(c2)))
    # the same boundary with an EMPTY path (the normalised form of such a URL is one byte longer: a limit applied to anything but
    # the line as received refuses the longest valid ones), with a port, a bracketed IPv6 host, a query, a query and params
    for total in (1021, 1022, 1023, 1024, 1025):
        for head in (b"gemini://example.com?", b"gemini://example.com:7070?", b"gemini://[::1]?", b"gemini://h.example", b"titan://h.example;size=0;mime=", b"gemini://EXAMPLE.com:1965?"):
            room = total - 2 - len(head)
            if room < 0: continue
            line = head + (b"q" * room if not head.startswith(b"gemini://h.example") else b"".join([b"." + b"a" * 60] * (room // 61)) + b"") 
            line = line + b"x" * (total - 2 - len(line)) if head.startswith(b"titan") or b"?" in head else line
            for has_upload in (True, False):
                c = cfg(); c["has_upload"] = has_upload
                cases.append((c, [("read", [line + b"\r\n"])] + finish(c)))
    # structural corruptions of LONG lines (refusal messages that quote the offending URL grow with it): fragment, user-info,
    # missing host, missing or foreign scheme, bad port, bad Titan size - padded to lengths just below and at the limit
    for total in (900, 980, 1000, 1010, 1020, 1023, 1024):
        for mk in (lambda pad: b"gemini://h.example/" + pad + b"#frag", lambda pad: b"gemini://user@h.example/" + pad,
                   lambda pad: b"gemini://u:pw@h.example/" + pad, lambda pad: b"gemini:///" + pad, lambda pad: b"//h.example/" + pad,
                   lambda pad: b"h.example/" + pad, lambda pad: b"https://h.example/" + pad, lambda pad: b"gemini://h.example:99999/" + pad,
                   lambda pad: b"gemini://h.example:x/" + pad, lambda pad: b"gemini://[::1/" + pad,
                   lambda pad: b"titan://h.example/" + pad + b";size=-1", lambda pad: b"titan://h.example/" + pad + b";size=1x;mime=a/b",
                   lambda pad: b"titan://u@h.example/" + pad + b";size=0", lambda pad: b"titan:///" + pad + b";size=0",
                   lambda pad: b"titan://h.example/" + pad + b"#f;size=0"):
            base = mk(b"")
            room = total - 2 - len(base)
            if room < 0: continue
            for padch in (b"a", "\u00e9".encode("utf-8")):
                line = mk(padch * (room // len(padch)) + b"a" * (room % len(padch))) + b"\r\n"
                for has_upload in (True, False):
                    c = cfg(); c["has_upload"] = has_upload
                    cases.append((c, [("read", [line])] + finish(c)))
    # one outer read delivered as two consecutive data_received calls (two TLS records in one TCP segment on the PyOpenSSL
    # backend): an over-long line without CRLF, then bytes that would be a valid request on their own - the refusal of the
    # first part is final, the rest belongs to the same over-long line
    for first_len in (1025, 1030, 2000):
        for follow in (b"gemini://h/admin\r\n", b"x\r\ngemini://h/admin\r\n", b"titan://h/f;size=0\r\n"):
            c = cfg(); c["has_upload"] = True
            cases.append((c, [("read", [b"gemini://h/" + b"a" * (first_len - 11), follow])] + finish(c)))
    return cases

def run(tier, seed):
    res, _, _ = run_server_property(
        "C08", ["C08.ok"], tier, seed, extra_cases=extra, n_random=(1500 if tier == "quick" else 20000),
        nontrivial=lambda c, e, o: any(a[0] in ("h", "mw", "up", "upc") for acts, _ in o for a in acts),
        rule="request lines from the URI grammar (must-accept), its corruptions (must-reject), raw strings, lengths 1019..1030 with/without CRLF, structural corruptions of lines of 900..1024 bytes; "
             "non-trivial = distinct schedule whose request reached the chain or a handler")
    return res
