"""C19 correspondence + monitor: parse_url / normalize_url round trip."""
from common import *
import urlgen, urlimpl

def run(tier, seed):
    setup_impl()
    rng = random.Random(seed)
    res = Result()
    res.rule = ("URLs from the RFC3986-gemini grammar, its mutations, must-accept strict URLs, raw strings and a fixed corpus; "
                "non-trivial = distinct URL accepted by parse_url (round trip actually exercised)")
    n = 4000 if tier == "quick" else 120000
    urls = list(urlgen.CORPUS) + [urlgen.mixed_url(rng) for _ in range(n)]
    cases, impl = [], []
    mon_cases, mon_meta = [], []
    oracle_bad = []
    for u in urls:
        obs, table, calls = urlimpl.observe_parse(u)
        oracle_bad += urlimpl.oracle_assumptions_hold(calls)
        cases.append(("parse_url", enc([u, table])))
        impl.append(enc(obs))
        res.evaluations += 1
        res.count("impl:" + (obs[0] if obs[0] == "ok" else "err:" + obs[1]))
        if obs[0] == "ok":
            res.nontriv(u)
            obs2, table2, calls2 = urlimpl.observe_parse(obs[5])
            oracle_bad += urlimpl.oracle_assumptions_hold(calls2)
            cases.append(("parse_url", enc([obs[5], table2])))
            impl.append(enc(obs2))
            mon_cases.append(("C19.ok", enc([obs, obs2])))
            mon_meta.append((u, obs, obs2))
            res.sample({"url": u, "normalized": obs[5]})
    out = run_model_parallel(cases)
    compare(res, "parse_url", [c[1] for c in cases], impl, out,
            describe=lambda a: pretty(dec(a)))
    mon = run_model_parallel(mon_cases)
    for (u, o1, o2), m in zip(mon_meta, mon):
        if m != enc(True):
            res.violations.append({"clause": "roundtrip", "signature": "C19:roundtrip",
                                   "case": {"url": u}, "trace": {"parse": o1, "reparse": o2}})
    for b in oracle_bad[:5]:
        res.disagreements.append({"driver": "ip6-oracle-assumption", "case": b, "model": "assumed", "impl": "violated"})
    # through a live client/server pair (real GeminiClient with TOFU, real GeminiServerProtocol behind asyncio TLS, 127.0.0.1 and ::1)
    import livepair
    livepair.run_echo(res, tier)
    res.rule += " | plus a live pair over loopback TLS: for IPv4 / bracketed IPv6 / upper-case hosts with explicit port, empty path, queries and reserved characters the server's handler reports the components it parsed"
    return res
