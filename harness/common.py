"""Shared plumbing of the correspondence harness: S-expression codec, model runner,
implementation import set-up, seeded RNG helpers."""
import os, sys, subprocess, tempfile, random, json, hashlib, time, shutil

VERIF = os.path.dirname(os.path.dirname(os.path.abspath(__file__)))
MODELRUN = os.path.join(VERIF, "ocaml", "modelrun")
SCRATCH_ROOT = "/var/tmp"

# ---------------------------------------------------------------- sx codec
class Atom(tuple):
    """An sx atom: tuple of ints (code points / bytes)."""
    __slots__ = ()
    def text(self):
        return "".join(chr(c) for c in self)
    def bytes(self):
        return bytes(self)
    def int(self):
        return int(self.text())
    def __repr__(self):
        try:
            t = self.text()
            if all(32 <= c < 127 for c in self):
                return "A(%r)" % t
        except Exception:
            pass
        return "A(%s)" % list(self)

def enc(v):
    """Python value -> sx text.  bytes/str -> atom; int/bool -> decimal atom; list/tuple -> list; None -> ()."""
    if v is None:
        return "()"
    if isinstance(v, bool):
        return "x31" if v else "x30"
    if isinstance(v, int):
        return "x" + str(v).encode().hex()
    if isinstance(v, bytes):
        return "x" + v.hex()
    if isinstance(v, Atom):
        v = "".join(chr(c) for c in v)
    if isinstance(v, str):
        cps = [ord(c) for c in v]
        if all(c < 256 for c in cps):
            return "x" + bytes(cps).hex()
        return "u" + "".join("%06x" % c for c in cps)
    if isinstance(v, (list, tuple)):
        return "(" + " ".join(enc(x) for x in v) + ")"
    raise TypeError(type(v))

def dec(text):
    toks = text.replace("(", " ( ").replace(")", " ) ").split()
    pos = 0
    def one():
        nonlocal pos
        t = toks[pos]; pos += 1
        if t == "(":
            items = []
            while toks[pos] != ")":
                items.append(one())
            pos += 1
            return items
        if t[0] == "x":
            return Atom(bytes.fromhex(t[1:]))
        if t[0] == "u":
            return Atom(int(t[i:i + 6], 16) for i in range(1, len(t), 6))
        raise ValueError("bad token %r" % t)
    v = one()
    if pos != len(toks):
        raise ValueError("trailing tokens")
    return v

def pretty(v):
    """Decoded sx -> JSON-friendly structure for replays / samples."""
    if isinstance(v, Atom):
        if all(32 <= c < 127 for c in v):
            return v.text()
        if all(c < 256 for c in v):
            return {"hex": bytes(v).hex()}
        return {"cps": list(v)}
    return [pretty(x) for x in v]

# ---------------------------------------------------------------- model runner
def run_model(cases, timeout=600):
    """cases: list of (name, sx_text). Returns list of output sx texts (one per case)."""
    if not cases:
        return []
    if not os.path.exists(MODELRUN):
        raise RuntimeError("modelrun not built: run `make -C /verif setup`")
    d = tempfile.mkdtemp(prefix="nvmodel-", dir=SCRATCH_ROOT)
    try:
        path = os.path.join(d, "cases.txt")
        with open(path, "w") as f:
            for name, a in cases:
                f.write(name + " " + a + "\n")
        p = subprocess.run(["bash", "-c", "ulimit -s unlimited 2>/dev/null; exec %s %s" % (MODELRUN, path)],
                           capture_output=True, text=True, timeout=timeout)
        if p.returncode != 0:
            raise RuntimeError("modelrun failed: rc=%s %s" % (p.returncode, p.stderr[-500:]))
        out = p.stdout.split("\n")
        if out and out[-1] == "":
            out.pop()
        if len(out) != len(cases):
            raise RuntimeError("modelrun returned %d lines for %d cases" % (len(out), len(cases)))
        return out
    finally:
        shutil.rmtree(d, ignore_errors=True)

def run_model_parallel(cases, jobs=8, timeout=900):
    if len(cases) < 2000 or jobs <= 1:
        return run_model(cases, timeout)
    from concurrent.futures import ThreadPoolExecutor
    n = (len(cases) + jobs - 1) // jobs
    parts = [cases[i:i + n] for i in range(0, len(cases), n)]
    with ThreadPoolExecutor(len(parts)) as ex:
        res = list(ex.map(lambda p: run_model(p, timeout), parts))
    return [x for r in res for x in r]

# ---------------------------------------------------------------- implementation
def setup_impl():
    """Make `nauyaca` importable from /repo/src (the working tree) and silence its logging."""
    src = os.path.join(os.environ.get("NV_REPO", "/repo"), "src")   # NV_REPO: a scratch worktree, for trying seeded changes
    if src not in sys.path:
        sys.path.insert(0, src)
    import logging
    logging.disable(logging.CRITICAL)
    import nauyaca.protocol  # noqa: F401  (must precede nauyaca.utils.url: circular import)
    try:
        from nauyaca.utils.logging import configure_logging
        configure_logging(log_level="CRITICAL")
    except Exception:
        pass
    try:
        import structlog
        structlog.configure(wrapper_class=structlog.make_filtering_bound_logger(60))
    except Exception:
        pass

def scratch_dir(prefix="nv-"):
    return tempfile.mkdtemp(prefix=prefix, dir=SCRATCH_ROOT)

# ---------------------------------------------------------------- results
class Result:
    """What a property harness returns to check.py."""
    def __init__(self):
        self.evaluations = 0
        self.nontrivial = set()      # canonical digests of distinct non-trivial cases
        self.samples = []
        self.distribution = {}
        self.disagreements = []      # model vs implementation: {"driver":..., "case":..., "model":..., "impl":...}
        self.violations = []         # property predicate false on an implementation trace:
                                     # {"clause":..., "signature":..., "case":..., "trace":...}
        self.out_of_model = 0
        self.exhaustive = False
        self.rule = ""
        self.notes = []
    def count(self, key, n=1):
        self.distribution[key] = self.distribution.get(key, 0) + n
    def nontriv(self, obj):
        self.nontrivial.add(hashlib.sha1(repr(obj).encode("utf-8", "surrogatepass")).hexdigest()[:16])
    def sample(self, obj, limit=12):
        if len(self.samples) < limit:
            self.samples.append(obj)

def compare(result, driver, cases, impl_obs, model_out, describe=None, oom_ok=True):
    """Compare encoded implementation observations with model outputs case by case."""
    OOM = enc(["oom"])
    for i, (c, io, mo) in enumerate(zip(cases, impl_obs, model_out)):
        if oom_ok and mo == OOM:
            result.out_of_model += 1
            continue
        if io != mo:
            try:
                pm, pi = pretty(dec(mo)), pretty(dec(io))
            except Exception:
                pm, pi = mo, io
            result.disagreements.append({"driver": driver, "case": describe(c) if describe else c,
                                         "model": pm, "impl": pi})
