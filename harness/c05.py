"""C05: CertificateAuth composed with StaticFileHandler as start_server composes them, on link-free
capsules: every spelling of every node x rule lists (objects and via TOML/ServerConfig) x certificate
none / listed / unlisted.  The delivered resource is identified by its sentinel content."""
import asyncio
from common import *
import fstree, certs as certmod

PREFIXES = ["/", "/admin/", "/admin/pub/", "/pub/", "/admin", "/a", "/admin/secret.gmi", "/admin/index.gmi", "/sub/", "/d2/"]

def gen_capsule(rng):
    nodes = [("root", "d", None)]
    files = ["index.gmi", "secret.gmi", "a b.gmi", "c.gemini", "noext"]
    for d in ["", "admin", "pub", "admin/pub", "sub", "d2"]:
        if d and rng.random() < 0.25: continue
        if d: nodes.append(("root/" + d, "d", None))
        for f in rng.sample(files, rng.randint(0, 3)):
            rel = "root/" + (d + "/" if d else "") + f
            nodes.append((rel, "f", ("SENTINEL:/" + rel[len("root/"):]).encode()))
    # make sure parents exist for nested entries
    have = set(n[0] for n in nodes)
    for rel, k, p in list(nodes):
        parent = os.path.dirname(rel)
        while parent and parent not in have:
            nodes.append((parent, "d", None)); have.add(parent); parent = os.path.dirname(parent)
    return nodes

def gen_rules(rng, fps):
    rules = []
    for _ in range(rng.randint(0, 3)):
        pre = rng.choice(PREFIXES[:6]) if rng.random() < 0.7 else rng.choice(PREFIXES)
        req = rng.random() < 0.5
        k = rng.random()
        allowed = None if k < 0.45 else ([] if k < 0.6 else rng.sample(fps, rng.randint(1, 2)))
        rules.append({"prefix": pre, "require_cert": req, "allowed_fingerprints": allowed})
    return rules

def build_mw(rules, via_toml, tmp):
    from nauyaca.server.middleware import CertificateAuth, CertificateAuthConfig, CertificateAuthPathRule
    if via_toml:
        import tomli_w
        from pathlib import Path
        from nauyaca.server.config import ServerConfig
        paths = []
        for r in rules:
            d = {"prefix": r["prefix"], "require_cert": r["require_cert"]}
            if r["allowed_fingerprints"] is not None: d["allowed_fingerprints"] = r["allowed_fingerprints"]
            paths.append(d)
        data = {"server": {"document_root": tmp}}
        if paths: data["certificate_auth"] = {"paths": paths}
        p = os.path.join(tmp, "conf.toml")
        with open(p, "wb") as f: tomli_w.dump(data, f)
        cfg = ServerConfig.from_toml(Path(p)).get_certificate_auth_config()
        return CertificateAuth(cfg) if cfg else None
    prs = [CertificateAuthPathRule(prefix=r["prefix"], require_cert=r["require_cert"],
                                   allowed_fingerprints=set(r["allowed_fingerprints"]) if r["allowed_fingerprints"] is not None else None) for r in rules]
    return CertificateAuth(CertificateAuthConfig(path_rules=prs)) if prs else None

def run(tier, seed):
    setup_impl()
    from nauyaca.server.handler import StaticFileHandler
    from nauyaca.protocol.request import GeminiRequest
    rng = random.Random(seed)
    res = Result()
    fps = [c["fp"] for c in certmod.certs()]
    res.rule = ("link-free capsules (admin/, pub/, admin/pub/, index files) x rule lists of 0..3 rules over nested/overlapping prefixes, require_cert and allow-list "
                "combinations incl. the empty list, as objects and through a TOML file x all spellings of every node x certificate none/listed/unlisted; "
                "non-trivial = distinct (capsule, rules, spelling, certificate) where some rule exists")
    tmp = scratch_dir("nv-c05-")
    ncaps = 40 if tier == "quick" else 600
    mcases, meta = [], []
    try:
        real_tmp = os.path.realpath(tmp)
        for ci in range(ncaps):
            fstree.clear(real_tmp)
            nodes = gen_capsule(rng)
            fstree.build(real_tmp, nodes)
            root = os.path.join(real_tmp, "root")
            h = StaticFileHandler(root, enable_directory_listing=True)
            for _ in range(3):
                rules = gen_rules(rng, fps)
                mw = build_mw(rules, rng.random() < 0.4, real_tmp)
                rels = [""] + [rel[len("root/"):] for rel, k, p in nodes if rel.startswith("root/")]
                for rel in rels:
                    for up in fstree.spellings(rng, rel)[:5] + [rng.choice(fstree.spellings(rng, rel))] + fstree.encoded_slash_spellings(rel)[:(1 if tier == "quick" else 3)]:
                        up = up + rng.choice(["", "", "?q=1"])
                        try:
                            req = GeminiRequest.from_line("gemini://h" + up)
                        except ValueError:
                            continue
                        fp = rng.choice([None, rng.choice(fps)])
                        allowed, text = (True, None)
                        if mw is not None:
                            allowed, text = asyncio.run(mw.process_request(req.normalized_url, "192.0.2.1", fp))
                        delivered = []
                        if not allowed:
                            status = int(text[:2]); verdict = text[:2]
                        else:
                            verdict = "allow"
                            try:
                                r = h.handle(req); status = r.status
                                if r.status == 20:
                                    b = r.body or ""
                                    if b.startswith("SENTINEL:"): delivered = [b[len("SENTINEL:"):]]
                                    elif b.startswith("# Index of "):
                                        from urllib.parse import unquote
                                        d = os.path.realpath(os.path.join(root, unquote(req.path).lstrip("/")))
                                        loc = d[len(root):] + "/"
                                        delivered = [loc if loc.startswith("/") else "/" + loc]
                            except Exception:
                                status = 40
                        mrules = [[r["prefix"], r["require_cert"], [r["allowed_fingerprints"]] if r["allowed_fingerprints"] is not None else []] for r in rules]
                        mcases.append(("certauth", enc([mrules, req.path, [fp] if fp else []])))
                        meta.append((ci, rules, up, fp, verdict, status, delivered, mrules, req.path))
                        res.evaluations += 1
                        res.count("verdict:" + verdict)
                        if rules: res.nontriv((ci, str(rules), up, fp))
    finally:
        shutil.rmtree(tmp, ignore_errors=True)
    out = run_model_parallel(mcases)
    for me, mo in zip(meta, out):
        if mo == enc(["oom"]):
            res.out_of_model += 1; continue
        mv = dec(mo).text()
        if mv != me[4]:
            res.disagreements.append({"driver": "certauth", "case": {"rules": me[1], "path": me[2], "fp": me[3]}, "model": mv, "impl": me[4]})
    mo = run_model_parallel([("C05.ok", enc([me[7], [me[3]] if me[3] else [], me[5], me[6]])) for me in meta])
    for me, m in zip(meta, mo):
        if m != enc(True):
            ci, rules, up, fp, verdict, status, delivered, mrules, rpath = me
            sig = "C05:enforce"
            if delivered and os.path.basename(delivered[0]) in ("index.gmi", "index.gemini"):
                d = os.path.dirname(delivered[0]).rstrip("/") + "/"
                cov = next((r for r in rules if delivered[0].startswith(r["prefix"])), None)
                if cov and not d.startswith(cov["prefix"]) and not cov["prefix"].endswith("/"):
                    sig = "C05:prefix_splits_index"
            res.violations.append({"clause": "rule-of-the-served-resource", "signature": sig,
                                   "case": {"rules": rules, "path": up, "fingerprint": fp}, "trace": {"status": status, "delivered": delivered, "middleware": verdict}})
    if meta:
        res.sample({"rules": meta[0][1], "path": meta[0][2], "fp": meta[0][3], "verdict": meta[0][4], "delivered": meta[0][6]})
        res.sample({"rules": meta[-1][1], "path": meta[-1][2], "fp": meta[-1][3], "verdict": meta[-1][4], "delivered": meta[-1][6]})
    # the fingerprint the rules are evaluated on, over real TLS (PyOpenSSL pump): look-alike certificates in sequence
    import tlsextra
    tmp2 = scratch_dir("nv-c05b-")
    try:
        tlsextra.fingerprint_collision_cases(res, tmp2, "C05")
        # "its SHA-256 DER fingerprint": the presented certificate is the leaf, also when the client sends further certificates along
        tlsextra.fingerprint_plumbing_cases(res, tmp2, "C05")
    finally:
        shutil.rmtree(tmp2, ignore_errors=True)
    # the fingerprint string itself: real get_certificate_fingerprint vs Model/Certs.v on hashlib's digest of the DER bytes
    import certsfmt
    certsfmt.run_format(res, tier)
    return res
