"""Live runs: the real `start_server` (its own process, real TCP on 127.0.0.1, both TLS backends) serving a static file to a
raw TLS client whose reading pace is controlled (C06: fast / stalled readers).

`shutdown_patch > 0` runs the server with asyncio.constants.SSL_SHUTDOWN_TIMEOUT set to that many seconds: asyncio's
default (30 s) in compressed time.  It is the harness's server process that is patched, not /repo."""
import os, sys, socket, ssl, subprocess, time, hashlib, shutil
from common import scratch_dir
PY = sys.executable

SERVER_SCRIPT = r'''
import sys, asyncio, os
sys.path.insert(0, os.path.join(os.environ.get("NV_REPO", "/repo"), "src"))
root, cert, key, port, patch, reqcert = sys.argv[1:7]
with_locations = len(sys.argv) > 7 and sys.argv[7] == "locations"
if float(patch) > 0:
    import asyncio.constants as C
    C.SSL_SHUTDOWN_TIMEOUT = float(patch)
from pathlib import Path
from nauyaca.server.config import ServerConfig
from nauyaca.server.server import start_server
extra = {}
if with_locations:
    # location-based routing: one static location; everything else falls to the server's default (404) handler
    from nauyaca.server.location import LocationConfig, HandlerType
    extra["locations"] = [LocationConfig(prefix="/docs/", handler_type=HandlerType.STATIC, document_root=Path(root))]
if os.environ.get("NV_LIVE_MAX_FILE_SIZE"):
    extra["max_file_size"] = int(os.environ["NV_LIVE_MAX_FILE_SIZE"])
cfg = ServerConfig(host="127.0.0.1", port=int(port), document_root=Path(root), certfile=Path(cert), keyfile=Path(key),
                   enable_rate_limiting=False, enable_access_control=False, require_client_cert=(reqcert == "1"), **extra)
# INFO: the request log (and whatever processes its fields) is part of the path of every response
asyncio.run(start_server(cfg, enable_rate_limiting=(os.environ.get("NV_LIVE_RATE_LIMIT") == "1"), log_level="INFO"))
'''

def free_port():
    with socket.socket() as s:
        s.bind(("127.0.0.1", 0)); return s.getsockname()[1]

def make_body(n):
    out = bytearray(); i = 0
    while len(out) < n:
        out += ("line %09d %s\n" % (i, hashlib.sha1(str(i).encode()).hexdigest())).encode(); i += 1
    return bytes(out[:n])

class Server:
    def __init__(self, tmp, backend, shutdown_patch=0.0, locations=False):
        from nauyaca.security.certificates import generate_self_signed_cert
        self.port = free_port()
        cert, key = generate_self_signed_cert("localhost")
        c, k = os.path.join(tmp, "live-%d.pem" % self.port), os.path.join(tmp, "live-%d.key" % self.port)
        open(c, "wb").write(cert); open(k, "wb").write(key)
        env = dict(os.environ)
        self.p = subprocess.Popen([PY, "-c", SERVER_SCRIPT, os.path.join(tmp, "capsule"), c, k, str(self.port), str(shutdown_patch),
                                   "1" if backend == "pyopenssl" else "0"] + (["locations"] if locations else []),
                                  env=env, stdout=subprocess.DEVNULL, stderr=open(os.path.join(tmp, "server-%d.err" % self.port), "wb"))
        self.errfile = os.path.join(tmp, "server-%d.err" % self.port)
        deadline = time.time() + 20
        while time.time() < deadline:
            if self.p.poll() is not None:
                raise RuntimeError("live server exited: " + open(self.errfile, "rb").read().decode(errors="replace")[-800:])
            try:
                socket.create_connection(("127.0.0.1", self.port), timeout=0.5).close(); return
            except OSError:
                time.sleep(0.1)
        raise RuntimeError("live server did not start")
    def stop(self):
        self.p.kill(); self.p.wait()

def fetch(port, path, stall, rcvbuf=32 * 1024, timeout=120):
    """-> (bytes received, how the stream ended)"""
    ctx = ssl.SSLContext(ssl.PROTOCOL_TLS_CLIENT); ctx.check_hostname = False; ctx.verify_mode = ssl.CERT_NONE
    raw = socket.socket()
    raw.setsockopt(socket.SOL_SOCKET, socket.SO_RCVBUF, rcvbuf)
    raw.settimeout(timeout)
    raw.connect(("127.0.0.1", port))
    tls = ctx.wrap_socket(raw, server_hostname="localhost")
    tls.sendall(("gemini://localhost:%d%s\r\n" % (port, path)).encode())
    got = bytearray(); ended = "eof"
    try:
        got += tls.recv(4096)
        if stall: time.sleep(stall)
        while True:
            chunk = tls.recv(65536)
            if not chunk: break
            got += chunk
    except (ssl.SSLError, OSError) as e:
        ended = "%s: %s" % (type(e).__name__, e)
    finally:
        try: tls.close()
        except OSError: pass
    return bytes(got), ended

def slow_reader_cases(tier):
    """(backend, shutdown_patch, stall seconds, label)"""
    cases = []
    for backend in ("stdlib", "pyopenssl"):
        cases.append((backend, 0.0, 0.0, "fast"))
        cases.append((backend, 0.0, 3.0, "stall-3s"))
    # asyncio's TLS shutdown timeout in compressed time (1 s for 30 s): a reader that stalls longer than the timeout
    cases.append(("stdlib", 1.0, 2.5, "stall-beyond-shutdown-timeout(compressed)"))
    if tier != "quick":
        for backend in ("stdlib", "pyopenssl"):
            cases.append((backend, 0.0, 12.0, "stall-12s"))
        cases.append(("stdlib", 0.0, 33.0, "stall-33s"))
    return cases

def run_whole_responses(res, tier, pid="C01"):
    """C01 over real TLS: one complete response and a clean end of stream, for a body larger than the socket buffers and a
    reader that starts late (1 s) - both backends (the recorded C06 finding needs > 30 s and is not exercised here)"""
    tmp = scratch_dir("nv-live1-")
    try:
        os.makedirs(os.path.join(tmp, "capsule"))
        body = make_body(12 * 1024 * 1024 if tier != "quick" else 5 * 1024 * 1024)
        open(os.path.join(tmp, "capsule", "big.txt"), "wb").write(body)
        open(os.path.join(tmp, "capsule", "small.gmi"), "wb").write(b"# small\n")
        for backend in ("stdlib", "pyopenssl"):
            srv = Server(tmp, backend, 0.0)
            try:
                small = b"20 text/gemini\r\n# small\n"
                runs = [("/big.txt", b"20 text/plain\r\n" + body, 1.0), ("/small.gmi", small, 0.0), ("/missing", None, 0.0),
                        # a reader that pauses for 8 s before reading: well inside asyncio's default TLS shutdown allowance (30 s) -
                        # a listener created with a shorter one cuts the response short (standard-library backend only: one case)
                        ] + ([("/big.txt", b"20 text/plain\r\n" + body, 8.0)] if backend == "stdlib" else []) + [
                        # queries are opaque to the server: several "?", "%3F", "&", "=" and an empty one
                        ("/small.gmi?a?b", small, 0.0), ("/small.gmi?what?", small, 0.0), ("/small.gmi?a=1?b=2?", small, 0.0),
                        ("/small.gmi?q=a&b=c%3F", small, 0.0), ("/small.gmi?", small, 0.0)]
                for path, expected, stall in runs:
                    got, ended = fetch(srv.port, path, stall)
                    res.evaluations += 1; res.count("live-" + backend)
                    res.nontriv(("live-whole", backend, path))
                    if expected is None:
                        ok = got.startswith(b"51 ") and got.endswith(b"\r\n") and got.count(b"\r\n") == 1
                    else:
                        ok = got == expected
                    if not ok or ended != "eof":
                        res.violations.append({"clause": "one complete response, then a clean end of stream (live, %s backend)" % backend,
                                               "signature": "%s:live-%s" % (pid, backend),
                                               "case": {"backend": backend, "path": path, "reader_starts_after_s": stall},
                                               "trace": {"received": len(got), "expected": None if expected is None else len(expected),
                                                         "head": got[:40].decode("latin-1"), "ended": ended}})
            finally:
                srv.stop()
    finally:
        shutil.rmtree(tmp, ignore_errors=True)

def run_exact_maximum(res, tier, pid="C06"):
    """ "multi-megabyte bodies up to the configured maximum": a static file of EXACTLY max_file_size bytes (and one byte less) arrives
    whole on both backends; one byte more is refused.  max_file_size comes from the configuration (ServerConfig -> start_server)."""
    tmp = scratch_dir("nv-live6-")
    limit = 70001
    try:
        os.makedirs(os.path.join(tmp, "capsule"))
        files = {"exact.txt": make_body(limit), "below.txt": make_body(limit - 1), "above.txt": make_body(limit + 1)}
        for n, b in files.items(): open(os.path.join(tmp, "capsule", n), "wb").write(b)
        os.environ["NV_LIVE_MAX_FILE_SIZE"] = str(limit)
        try:
            for backend in ("stdlib", "pyopenssl"):
                srv = Server(tmp, backend, 0.0)
                try:
                    for n, b in files.items():
                        got, ended = fetch(srv.port, "/" + n, 0.0, timeout=30)
                        res.evaluations += 1; res.count("live-exact-max:" + backend); res.nontriv(("live-exact-max", backend, n))
                        if n == "above.txt":
                            ok = got[:1] in (b"4", b"5") and got.endswith(b"\r\n") and got.count(b"\r\n") == 1
                        else:
                            ok = got == b"20 text/plain\r\n" + b
                        if not ok or ended != "eof":
                            res.violations.append({"clause": "a body of exactly the configured maximum (and of one byte less) arrives complete; one byte more is refused (live, %s backend)" % backend,
                                                   "signature": "%s:live-exact-max-%s" % (pid, backend),
                                                   "case": {"backend": backend, "max_file_size": limit, "file_size": len(b)},
                                                   "trace": {"received_bytes": len(got), "head": got[:60].decode("latin-1"), "ended": ended}})
                finally:
                    srv.stop()
        finally:
            del os.environ["NV_LIVE_MAX_FILE_SIZE"]
    finally:
        shutil.rmtree(tmp, ignore_errors=True)

def run_unrouted_paths(res, tier, pid="C01"):
    """location-based routing (one static location at /docs/): requests outside every location reach the server's own default
    handler.  Awkward but valid paths - long runs of unreserved characters followed by a sub-delimiter, percent-escapes,
    very long names - must each be answered (51) promptly, and the server must still answer afterwards."""
    tmp = scratch_dir("nv-live3-")
    try:
        os.makedirs(os.path.join(tmp, "capsule", "docs"))      # the static handler maps the whole request path below its root
        open(os.path.join(tmp, "capsule", "docs", "index.gmi"), "wb").write(b"# docs\n")
        srv = Server(tmp, "stdlib", 0.0, locations=True)
        try:
            paths = ["/other/page", "/other/a(b)!", "/other/" + "archive_2024_final_report_draft_revision_0007_backup_copy" + "!",
                     "/x/" + "a" * 60 + "(", "/" + "w-" * 40 + "@", "/%41" * 30 + "*", "/" + "z" * 900 + ";", "/other/" + "._~-" * 20 + "'",
                     "/docs/index.gmi", "/other/page"]
            for path in paths:
                t0 = time.time()
                try:
                    got, ended = fetch(srv.port, path, 0.0, timeout=6)
                except Exception as e:
                    got, ended = b"", "%s: %s" % (type(e).__name__, e)
                dt = time.time() - t0
                res.evaluations += 1; res.count("live-unrouted")
                res.nontriv(("live-unrouted", path[:40]))
                want_ok = got.startswith(b"20 ") if path.startswith("/docs/") else (got[:2].isdigit() and got[2:3] == b" " and got.count(b"\r\n") >= 1 and got[:1] in b"45")
                if not want_ok or ended != "eof" or dt > 5:
                    res.violations.append({"clause": "every request gets exactly one response, promptly (live, location-based routing, default handler)",
                                           "signature": "%s:live-unrouted" % pid, "case": {"path": path[:120]},
                                           "trace": {"received": got[:60].decode("latin-1"), "ended": ended, "seconds": round(dt, 2)}})
                    if dt > 5: break          # the event loop is blocked: the remaining requests would only repeat the finding
        finally:
            srv.stop()
    finally:
        shutil.rmtree(tmp, ignore_errors=True)

def run_slow_readers(res, tier, body_size=6 * 1024 * 1024):
    tmp = scratch_dir("nv-live-")
    try:
        os.makedirs(os.path.join(tmp, "capsule"))
        body = make_body(body_size)
        open(os.path.join(tmp, "capsule", "big.txt"), "wb").write(body)
        expected = b"20 text/plain\r\n" + body
        for backend, patch, stall, label in slow_reader_cases(tier):
            srv = Server(tmp, backend, patch)
            try:
                got, ended = fetch(srv.port, "/big.txt", stall)
            finally:
                srv.stop()
            res.evaluations += 1
            res.nontriv(("live", backend, label))
            res.count("live-" + backend)
            if got != expected or ended != "eof":
                beyond = (patch > 0 and stall > patch) or (patch == 0 and stall > 30)
                res.violations.append({
                    "clause": "complete-and-unaltered (live, %s reader)" % label,
                    # a stall longer than asyncio's TLS shutdown timeout is the recorded finding; anything else is new
                    "signature": "C06:tls-shutdown-timeout" if (backend == "stdlib" and beyond and got and expected.startswith(got)) else "C06:live-%s-%s" % (backend, label),
                    "case": {"backend": backend, "body_length": body_size, "reader": label, "stall_s": stall,
                             "asyncio_ssl_shutdown_timeout_s": patch if patch > 0 else 30.0, "client_rcvbuf": 32768},
                    "trace": {"received": len(got), "expected": len(expected), "prefix_ok": expected.startswith(got), "ended": ended}})
        res.sample({"live": "stdlib stall-3s", "received_equals_expected": True})
    finally:
        shutil.rmtree(tmp, ignore_errors=True)

def run_unusable_certificate(res, tier):
    """a certificate/key pair that cannot be loaded (the key does not belong to the certificate): the server must not come up
    serving the port without TLS - either it refuses to start, or whatever listens does not answer a plaintext request"""
    from nauyaca.security.certificates import generate_self_signed_cert
    tmp = scratch_dir("nv-live2-")
    try:
        os.makedirs(os.path.join(tmp, "capsule"))
        open(os.path.join(tmp, "capsule", "index.gmi"), "wb").write(b"# secret capsule\n")
        for backend in ("stdlib", "pyopenssl"):
            c1, _k1 = generate_self_signed_cert("localhost"); _c2, k2 = generate_self_signed_cert("localhost")
            port = free_port()
            c, k = os.path.join(tmp, "bad-%s.pem" % backend), os.path.join(tmp, "bad-%s.key" % backend)
            open(c, "wb").write(c1); open(k, "wb").write(k2)
            p = subprocess.Popen([PY, "-c", SERVER_SCRIPT, os.path.join(tmp, "capsule"), c, k, str(port), "0", "1" if backend == "pyopenssl" else "0"],
                                 env=dict(os.environ), stdout=subprocess.DEVNULL, stderr=subprocess.DEVNULL)
            answer = None
            deadline = time.time() + 6
            try:
                while time.time() < deadline and p.poll() is None:
                    try:
                        with socket.create_connection(("127.0.0.1", port), timeout=0.5) as sk:
                            sk.settimeout(1.5)
                            sk.sendall(("gemini://localhost:%d/\r\n" % port).encode())
                            try: answer = sk.recv(200)
                            except (socket.timeout, OSError): answer = b""
                        break
                    except OSError:
                        time.sleep(0.1)
            finally:
                p.kill(); p.wait()
            res.evaluations += 1; res.count("live-unusable-certificate")
            res.nontriv(("live-bad-cert", backend))
            if answer and len(answer) >= 3 and answer[:2].isdigit() and answer[2:3] == b" ":
                res.violations.append({"clause": "no listener without TLS (live: certificate and key do not match)",
                                       "signature": "C20:plaintext-listener-%s" % backend,
                                       "case": {"backend": backend, "certificate": "key of another certificate"},
                                       "trace": {"plaintext_request_answered_with": answer[:60].decode("latin-1")}})
    finally:
        shutil.rmtree(tmp, ignore_errors=True)

def run_cli_policies(res, tier):
    """the command line (`python -m nauyaca serve --config file.toml`) with access-control sections: what the file says is what
    the running server enforces for a request from 127.0.0.1 - including the policy that lists nobody and denies by default"""
    tmp = scratch_dir("nv-live4-")
    try:
        cases = [("default-deny-only", "default_allow = false", b"53"),
                 ("allow-loopback", 'allow_list = ["127.0.0.1"]\ndefault_allow = false', b"20"),
                 ("deny-loopback", 'deny_list = ["127.0.0.0/8"]\ndefault_allow = true', b"53"),
                 ("deny-other", 'deny_list = ["192.0.2.0/24"]\ndefault_allow = true', b"20")]
        env = {k: v for k, v in os.environ.items() if not k.startswith("NAUYACA_")}
        env["PYTHONPATH"] = os.path.join(os.environ.get("NV_REPO", "/repo"), "src")
        for name, section, want in cases:
            root = os.path.join(tmp, name + "-root"); os.makedirs(root)
            open(os.path.join(root, "index.gmi"), "wb").write(b"# capsule\n")
            port = free_port()
            cfg = os.path.join(tmp, name + ".toml")
            open(cfg, "w").write('[server]\nhost = "127.0.0.1"\nport = %d\ndocument_root = "%s"\n\n[access_control]\n%s\n' % (port, root, section))
            log = open(os.path.join(tmp, name + ".log"), "wb")
            p = subprocess.Popen([PY, "-m", "nauyaca", "serve", "--config", cfg], stdout=log, stderr=subprocess.STDOUT, env=env, cwd=tmp)
            got, ended = b"", "server did not start"
            try:
                deadline = time.time() + 30
                up = False
                while time.time() < deadline and p.poll() is None:
                    try:
                        socket.create_connection(("127.0.0.1", port), timeout=0.5).close(); up = True; break
                    except OSError:
                        time.sleep(0.1)
                if up:
                    got, ended = fetch(port, "/", 0.0, timeout=10)
            finally:
                p.terminate()
                try: p.wait(timeout=10)
                except subprocess.TimeoutExpired: p.kill(); p.wait()
                log.close()
            res.evaluations += 1; res.count("live-cli-policy"); res.nontriv(("live-cli", name))
            if not got.startswith(want + b" "):
                res.violations.append({"clause": "the access policy written in the configuration file is the one the CLI-started server enforces",
                                       "signature": "C09:cli-" + name, "case": {"access_control_section": section, "peer": "127.0.0.1"},
                                       "trace": {"expected_status": want.decode(), "received": got[:60].decode("latin-1"), "ended": ended}})
    finally:
        shutil.rmtree(tmp, ignore_errors=True)

# ---------------------------------------------------------------- configuration matrix through the command line
def _matrix_configs(rng, tier):
    """(name, toml sections, cli flags, env, facts the referee needs).  One refusing policy at most per configuration; the other
    options (log level, IP hashing, json logs, file-size limit, port/root given by TOML / flag / environment) vary freely."""
    n = 6 if tier == "quick" else 30
    out = []
    for i in range(n):
        ac = rng.choice(["none", "default-deny-only", "allow-loopback", "deny-loopback", "deny-other", "allow-other", "allow-v6-only", "disabled-deny"])
        rl = rng.choice(["off", "off", "tiny", "large", "default"])
        if ac not in ("none", "allow-loopback", "deny-other", "disabled-deny") and rl == "tiny": rl = "off"
        out.append({"name": "m%d" % i, "ac": ac, "rl": rl,
                    "log_level": rng.choice(["DEBUG", "DEBUG", "INFO", "WARNING", "ERROR"]),
                    "hash_ips": rng.choice([None, True, False]), "toml_hash_ips": rng.choice([None, True, False]),
                    "json_logs": rng.random() < 0.3, "log_file": rng.random() < 0.3,
                    "max_file_size": rng.choice([None, None, 100, 4096]), "max_via": rng.choice(["toml", "flag"]),
                    "port_via": rng.choice(["toml", "flag", "env"]), "root_via": rng.choice(["toml", "arg", "env"]),
                    "listing": rng.random() < 0.5})
    return out

AC_SECTIONS = {"none": None, "default-deny-only": "default_allow = false", "allow-loopback": 'allow_list = ["127.0.0.1"]\ndefault_allow = false',
               "deny-loopback": 'deny_list = ["127.0.0.0/8"]', "deny-other": 'deny_list = ["192.0.2.0/24", "2001:db8::/32"]',
               "allow-other": 'allow_list = ["192.0.2.0/24"]', "allow-v6-only": 'allow_list = ["::1", "2001:db8::/32"]\ndefault_allow = true',
               "disabled-deny": 'enabled = false\ndeny_list = ["127.0.0.0/8"]'}
AC_ADMITS_LOOPBACK = {"none": True, "default-deny-only": False, "allow-loopback": True, "deny-loopback": False, "deny-other": True,
                      "allow-other": False, "allow-v6-only": False, "disabled-deny": True}
RL_SECTIONS = {"off": "enabled = false", "tiny": "capacity = 2\nrefill_rate = 0.001\nretry_after = 7", "large": "capacity = 500\nrefill_rate = 50.0", "default": None}
RL_CAPACITY = {"off": None, "tiny": 2, "large": 500, "default": 10}

def run_config_matrix(res, tier, pid="C01", seed=0):
    """`python -m nauyaca serve` under generated configurations (TOML sections, flags, environment): every request of a fixed
    battery is answered by exactly one well-formed response, and the response is the one the configuration prescribes
    (refusals 53 / 44 as configured, 59 for an over-long line, the file for an admitted request)."""
    import random, threading
    rng = random.Random(1000 + seed)
    tmp = scratch_dir("nv-live5-")
    small = b"# small\n"; big = make_body(3000)
    lock = threading.Lock()
    def one(cfg):
        name = cfg["name"]
        root = os.path.join(tmp, name + "-root"); os.makedirs(root)
        open(os.path.join(root, "index.gmi"), "wb").write(small)
        open(os.path.join(root, "big.txt"), "wb").write(big)
        port = free_port()
        server = ['host = "127.0.0.1"']
        flags, env = [], {k: v for k, v in os.environ.items() if not k.startswith("NAUYACA_")}
        env["PYTHONPATH"] = os.path.join(os.environ.get("NV_REPO", "/repo"), "src")
        if cfg["port_via"] == "toml": server.append("port = %d" % port)
        elif cfg["port_via"] == "flag": server.append("port = 1"); flags += ["--port", str(port)]
        else: server.append("port = 1"); env["NAUYACA_PORT"] = str(port)
        positional = []
        if cfg["root_via"] == "toml": server.append('document_root = "%s"' % root)
        elif cfg["root_via"] == "arg": server.append('document_root = "%s"' % tmp); positional = [root]
        else: server.append('document_root = "%s"' % tmp); env["NAUYACA_DOCUMENT_ROOT"] = root
        if cfg["max_file_size"] is not None:
            if cfg["max_via"] == "toml": server.append("max_file_size = %d" % cfg["max_file_size"])
            else: flags += ["--max-file-size", str(cfg["max_file_size"])]
        toml = "[server]\n" + "\n".join(server) + "\n"
        if RL_SECTIONS[cfg["rl"]] is not None: toml += "\n[rate_limit]\n" + RL_SECTIONS[cfg["rl"]] + "\n"
        if AC_SECTIONS[cfg["ac"]] is not None: toml += "\n[access_control]\n" + AC_SECTIONS[cfg["ac"]] + "\n"
        if cfg["toml_hash_ips"] is not None: toml += "\n[logging]\nhash_ips = %s\n" % ("true" if cfg["toml_hash_ips"] else "false")
        cfgfile = os.path.join(tmp, name + ".toml"); open(cfgfile, "w").write(toml)
        flags += ["--log-level", cfg["log_level"]]
        if cfg["hash_ips"] is not None: flags.append("--hash-ips" if cfg["hash_ips"] else "--no-hash-ips")
        if cfg["json_logs"]: flags.append("--json-logs")
        if cfg["log_file"]: flags += ["--log-file", os.path.join(tmp, name + ".server.log")]
        if cfg["listing"]: flags.append("--enable-directory-listing")
        log = open(os.path.join(tmp, name + ".out"), "wb")
        p = subprocess.Popen([PY, "-m", "nauyaca", "serve"] + positional + ["--config", cfgfile] + flags, stdout=log, stderr=subprocess.STDOUT, env=env, cwd=tmp)
        results, up = [], False
        try:
            deadline = time.time() + 40
            while time.time() < deadline and p.poll() is None:
                try:
                    socket.create_connection(("127.0.0.1", port), timeout=0.5).close(); up = True; break
                except OSError:
                    time.sleep(0.1)
            if up:
                # the probe connection above sent nothing: it consumes no allowance (no request reached the chain)
                battery = ["/", "/missing", "LONG", "/index.gmi?a?b", "/big.txt", "/", "/index.gmi"]
                for path in battery:
                    if path == "LONG":
                        got, ended = fetch(port, "/" + "a" * 1100, 0.0, timeout=15)
                    else:
                        got, ended = fetch(port, path, 0.0, timeout=15)
                    results.append((path, got, ended))
        finally:
            p.terminate()
            try: p.wait(timeout=10)
            except subprocess.TimeoutExpired: p.kill(); p.wait()
            log.close()
        with lock:
            res.evaluations += 1; res.count("live-config:" + cfg["ac"] + "/" + cfg["rl"]); res.nontriv(("live-config", seed, name))
            case = {"toml": toml, "flags": flags + positional, "environment": {k: v for k, v in env.items() if k.startswith("NAUYACA_")}}
            if not up:
                tail = open(os.path.join(tmp, name + ".out"), "rb").read()[-400:].decode("latin-1")
                res.violations.append({"clause": "a legitimate configuration starts a server that answers", "signature": "%s:live-config-start" % pid,
                                       "case": case, "trace": {"server_output": tail}})
                return
            valid_seen = 0
            limit = cfg["max_file_size"]
            for path, got, ended in results:
                head, sep, body = got.partition(b"\r\n")
                wellformed = bool(sep) and len(head) >= 3 and head[:2].isdigit() and head[2:3] == b" " and 10 <= int(head[:2]) <= 69 \
                    and b"\r" not in head and b"\n" not in head and len(head) - 3 <= 1024 and (head[:1] == b"2" or body == b"") and ended == "eof"
                st = head[:2]
                if path == "LONG":
                    want = {b"59"}
                else:
                    valid_seen += 1
                    if not AC_ADMITS_LOOPBACK[cfg["ac"]]:
                        want = {b"53"}
                    elif RL_CAPACITY[cfg["rl"]] is not None and valid_seen > RL_CAPACITY[cfg["rl"]] and cfg["rl"] == "tiny":
                        want = {b"44"}
                    elif path == "/missing": want = {b"51"}
                    elif path == "/big.txt" and limit is not None and limit < len(big): want = {b"50", b"40", b"51", b"59"}
                    else: want = {b"20"}
                if pid == "C09":      # the access policy: 53 exactly when the configuration refuses loopback
                    ok = (st == b"53") == (not AC_ADMITS_LOOPBACK[cfg["ac"]]) or path == "LONG"
                    clause = "the access policy written in the configuration file is the one the CLI-started server enforces, whatever the other options"
                elif pid == "C10":    # the allowance: 44 with the configured hint exactly for the requests beyond the capacity
                    ok = (st == b"44") == (want == {b"44"}) and (st != b"44" or b"7" in head)
                    clause = "a request is refused with 44 (carrying the configured hint) only when the configured allowance is exhausted, whatever the other options"
                else:                 # C01: one well-formed response, complete when it is a success; a protocol-invalid line gets 59
                    ok = wellformed and (st != b"20" or body == (big if path == "/big.txt" else small)) and (path != "LONG" or st == b"59") \
                        and (st in want or st in (b"53", b"44"))
                    clause = "under every legitimate configuration each request gets exactly one well-formed response (complete when it is a success)"
                if not ok:
                    res.violations.append({"clause": clause,
                                           "signature": "%s:live-config" % pid, "case": dict(case, request_path=path if path != "LONG" else "/aaaa...(1100 bytes)"),
                                           "trace": {"expected_status_in": sorted(x.decode() for x in want), "received_head": got[:80].decode("latin-1"),
                                                     "received_bytes": len(got), "ended": ended, "requests_before": [r[0] for r in results[:results.index((path, got, ended))]]}})
    try:
        cfgs = _matrix_configs(rng, tier)
        threads = [threading.Thread(target=one, args=(c,)) for c in cfgs]
        for i in range(0, len(threads), 6):
            for t in threads[i:i + 6]: t.start()
            for t in threads[i:i + 6]: t.join()
    finally:
        shutil.rmtree(tmp, ignore_errors=True)

def run_cli_reload_policies(res, tier):
    """`python -m nauyaca serve <root> --reload --reload-dir <dir> --config=<file>`: the parent is a supervisor, the server is its
    child, started with the parent's command line minus the reload flags.  The access policy of the configuration file must be
    the one the child enforces - also when the file's (or the root's) name contains "reload", in both spellings of --config.
    host and port are given on the command line as well, so that a child that lost its --config still listens where we look
    (and shows the loss as status 20 instead of 53).  Supervisor and child run in their own process group, which is killed in
    every case."""
    import signal
    tmp = scratch_dir("nv-live5-")
    try:
        deny, allow = 'deny_list = ["127.0.0.0/8"]\ndefault_allow = true', 'allow_list = ["127.0.0.1"]\ndefault_allow = false'
        cases = [("deny-loopback/--config=FILE", "capsule", "eq", deny, b"53"),
                 ("allow-loopback/--config=FILE", "capsule", "eq", allow, b"20"),
                 ("deny-loopback/--config FILE/root named reload-root", "reload-root", "two", deny, b"53")]
        if tier != "quick":
            cases += [("default-deny-only/-c FILE", "capsule", "short", "default_allow = false", b"53"),
                      ("allow-loopback/--config FILE/root named reload-root", "reload-root", "two", allow, b"20")]
        env = {k: v for k, v in os.environ.items() if not k.startswith("NAUYACA_")}
        env["PYTHONPATH"] = os.path.join(os.environ.get("NV_REPO", "/repo"), "src")
        watch = os.path.join(tmp, "watched"); os.makedirs(watch)
        for i, (name, rootname, form, section, want) in enumerate(cases):
            cdir = os.path.join(tmp, "case%d" % i); os.makedirs(cdir)
            root = os.path.join(cdir, rootname); os.makedirs(root)
            open(os.path.join(root, "index.gmi"), "wb").write(b"# capsule\n")
            port = free_port()
            cfg = os.path.join(cdir, "dev-reload.toml")
            open(cfg, "w").write('[server]\nhost = "127.0.0.1"\nport = %d\ndocument_root = "%s"\n\n[access_control]\n%s\n' % (port, root, section))
            cfgargs = {"eq": ["--config=" + cfg], "two": ["--config", cfg], "short": ["-c", cfg]}[form]
            argv = ["serve", root, "--reload", "--reload-dir", watch] + cfgargs + ["--host", "127.0.0.1", "--port", str(port), "--reload-ext=.gmi"]
            log = open(os.path.join(cdir, "log"), "wb")
            p = subprocess.Popen([PY, "-m", "nauyaca"] + argv, stdout=log, stderr=subprocess.STDOUT, env=env, cwd=cdir, start_new_session=True)
            got, ended = b"", "server did not start"
            try:
                deadline = time.time() + 12
                up = False
                while time.time() < deadline and p.poll() is None:
                    try:
                        socket.create_connection(("127.0.0.1", port), timeout=0.5).close(); up = True; break
                    except OSError:
                        time.sleep(0.1)
                if up:
                    got, ended = fetch(port, "/", 0.0, timeout=5)
            finally:
                # the supervisor and its child: the whole process group (the supervisor's session), politely, then for certain
                for sig, wait in ((signal.SIGTERM, 3.0), (signal.SIGKILL, 3.0)):
                    try: os.killpg(p.pid, sig)
                    except (ProcessLookupError, PermissionError): pass
                    try: p.wait(timeout=wait)
                    except subprocess.TimeoutExpired: pass
                    t_end = time.time() + wait
                    while time.time() < t_end:
                        try: os.killpg(p.pid, 0)
                        except (ProcessLookupError, PermissionError): break
                        time.sleep(0.05)
                try: p.wait(timeout=2)
                except subprocess.TimeoutExpired: pass
                log.close()
            res.evaluations += 1; res.count("live-cli-reload-policy"); res.nontriv(("live-cli-reload", name))
            if not got.startswith(want + b" "):
                tail = open(os.path.join(cdir, "log"), "rb").read().decode(errors="replace")[-400:]
                res.violations.append({"clause": "the access policy written in the configuration file is the one the server started by `serve --reload` enforces "
                                                 "(the supervisor's child receives the parent's arguments minus the reload flags)",
                                       "signature": "C09:cli-reload-" + name.split("/")[0] + "-" + form,
                                       "case": {"argv": ["python", "-m", "nauyaca"] + [a.replace(tmp, "<tmp>") for a in argv], "access_control_section": section,
                                                "config_file_name": "dev-reload.toml", "document_root_name": rootname, "peer": "127.0.0.1"},
                                       "trace": {"expected_status": want.decode(), "received": got[:60].decode("latin-1"), "ended": ended, "log_tail": tail}})
    finally:
        shutil.rmtree(tmp, ignore_errors=True)
