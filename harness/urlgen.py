"""Seeded generators of URLs / request lines: RFC 3986 grammar restricted to gemini,
its corruptions, and raw strings.  Every choice comes from the rng passed in."""
import random

UNRESERVED = "abcdefghijklmnopqrstuvwxyzABCDEFGHIJKLMNOPQRSTUVWXYZ0123456789-._~"
SUBDELIMS = "!$&'()*+,;="
HEX = "0123456789abcdefABCDEF"

def pct(rng):
    return "%" + rng.choice(HEX) + rng.choice(HEX)

def pchars(rng, n, extra=":@"):
    out = []
    for _ in range(n):
        r = rng.random()
        if r < 0.6: out.append(rng.choice(UNRESERVED))
        elif r < 0.75: out.append(rng.choice(SUBDELIMS))
        elif r < 0.9: out.append(pct(rng))
        elif r < 0.97 and extra: out.append(rng.choice(extra))
        else: out.append(rng.choice("\u00e9\u4e16\U0001f600\u0416"))
    return "".join(out)

def reg_name(rng):
    labels = []
    for _ in range(rng.randint(1, 3)):
        n = rng.randint(1, 8)
        labels.append("".join(rng.choice("abcdefghijklmnopqrstuvwxyzABCXYZ0123456789-") for _ in range(n)))
    s = ".".join(labels)
    if rng.random() < 0.1: s += pct(rng)
    if rng.random() < 0.05: s += rng.choice(SUBDELIMS)
    return s

def ipv4(rng):
    return ".".join(str(rng.choice([0, 1, 10, 127, 192, 255, rng.randint(0, 255)])) for _ in range(4))

def ipv6(rng):
    def h(): return "%x" % rng.choice([0, 1, 0xfe80, 0xffff, rng.randint(0, 0xffff)])
    k = rng.random()
    if k < 0.25: s = "::1"
    elif k < 0.5: s = ":".join(h() for _ in range(8))
    elif k < 0.7:
        a = rng.randint(0, 6); b = rng.randint(0, 6 - a)
        s = ":".join(h() for _ in range(a)) + "::" + ":".join(h() for _ in range(b))
    elif k < 0.8: s = "::ffff:" + ipv4(rng)
    elif k < 0.9: s = "fe80::" + h()
    else: s = ":".join(h() for _ in range(rng.randint(1, 9)))  # often invalid
    if rng.random() < 0.3: s = s.upper()
    if rng.random() < 0.25:
        s += "%" + rng.choice(["eth0", "25eth0", "1", "En0", "a[b", "", "x%y", "Z.z"])
    return s

def ipvfuture(rng):
    return rng.choice(["v1.a", "v1F.X:y", "vA.b-c", "v1.", "v.a", "vg.a", "V1.a", "v1.[x", "v01.a%41B"])

def host(rng):
    k = rng.random()
    if k < 0.5: return reg_name(rng)
    if k < 0.62: return ipv4(rng)
    if k < 0.9: return "[" + ipv6(rng) + "]"
    if k < 0.96: return "[" + ipvfuture(rng) + "]"
    return rng.choice(["[" + ipv4(rng) + "]", "[]", "[::1", "::1]", "a[::1]b", "[::1]]", "[[::1]", "localhost."])

def port(rng):
    k = rng.random()
    if k < 0.45: return ""
    if k < 0.55: return ":"
    if k < 0.65: return ":1965"
    if k < 0.9: return ":" + str(rng.choice([0, 1, 80, 1964, 1966, 65535, 65536, 99999, rng.randint(0, 70000)]))
    return ":" + rng.choice(["01965", "+5", "1_0", "\u0661\u0669", " 7", "7 ", "abc", "-1", "65535" + "0"])

def path(rng):
    k = rng.random()
    if k < 0.15: return ""
    if k < 0.25: return "/"
    segs = []
    for _ in range(rng.randint(1, 4)):
        r = rng.random()
        if r < 0.1: segs.append("..")
        elif r < 0.15: segs.append(".")
        elif r < 0.2: segs.append("")
        elif r < 0.3: segs.append(pchars(rng, rng.randint(1, 5)) + ";" + pchars(rng, 2))
        else: segs.append(pchars(rng, rng.randint(1, 8)))
    s = "/" + "/".join(segs)
    if rng.random() < 0.3: s += "/"
    return s

def query(rng):
    k = rng.random()
    if k < 0.6: return ""
    if k < 0.7: return "?"
    return "?" + pchars(rng, rng.randint(1, 10), extra=":@/?")

def scheme(rng):
    k = rng.random()
    if k < 0.8: return "gemini"
    if k < 0.9: return rng.choice(["GEMINI", "Gemini", "gEmInI"])
    return rng.choice(["titan", "http", "https", "gemini+x", "gemin", "geminis", "g", ""])

def grammar_url(rng):
    return scheme(rng) + "://" + host(rng) + port(rng) + path(rng) + query(rng)

def valid_url(rng):
    """Must-accept set for C08/C19: strictly grammatical gemini URL (no mutation)."""
    k = rng.random()
    if k < 0.6: h = reg_name_strict(rng)
    elif k < 0.75: h = ipv4(rng)
    else: h = "[" + rng.choice(["::1", "fe80::1", "2001:db8::2:1", "::ffff:10.0.0.1", "1:2:3:4:5:6:7:8"]) + "]"
    p = rng.choice(["", "", ":1965", ":" + str(rng.randint(1, 65535))])
    pa = path_strict(rng)
    q = "" if rng.random() < 0.6 else "?" + pchars_ascii(rng, rng.randint(1, 10), ":@/?")
    return "gemini://" + h + p + pa + q

def reg_name_strict(rng):
    return ".".join("".join(rng.choice("abcdefghijklmnopqrstuvwxyz0123456789-") for _ in range(rng.randint(1, 8)))
                    for _ in range(rng.randint(1, 3)))

def pchars_ascii(rng, n, extra=":@"):
    out = []
    for _ in range(n):
        r = rng.random()
        if r < 0.65: out.append(rng.choice(UNRESERVED))
        elif r < 0.8: out.append(rng.choice(SUBDELIMS))
        elif r < 0.93: out.append(pct(rng))
        else: out.append(rng.choice(extra))
    return "".join(out)

def path_strict(rng):
    if rng.random() < 0.2: return rng.choice(["", "/"])
    segs = [pchars_ascii(rng, rng.randint(0, 8)) for _ in range(rng.randint(1, 4))]
    return "/" + "/".join(segs)

MUTATORS = []
def mut(f):
    MUTATORS.append(f); return f

@mut
def m_insert_ctrl(rng, u):
    i = rng.randint(0, len(u)); return u[:i] + rng.choice("\t\r\n\x00\x0b \x1f\x7f") + u[i:]
@mut
def m_userinfo(rng, u):
    ui = rng.choice(["@", ":@", "user@", "user:pw@", ":pw@", "a@b@", "[::1]@"])
    return u.replace("://", "://" + ui, 1)
@mut
def m_fragment(rng, u):
    return u + rng.choice(["#", "#frag", "#?x", "?#", "#a#b"])
@mut
def m_case(rng, u):
    return "".join(c.upper() if rng.random() < 0.5 else c for c in u)
@mut
def m_delete(rng, u):
    if not u: return u
    i = rng.randrange(len(u)); return u[:i] + u[i + 1:]
@mut
def m_dup(rng, u):
    if not u: return u
    i = rng.randrange(len(u)); return u[:i] + u[i] + u[i:]
@mut
def m_lead(rng, u):
    return rng.choice([" ", "\x00", "\x1f ", "\t", "\n"]) + u
@mut
def m_slashes(rng, u):
    return u.replace("://", rng.choice([":/", ":", ":///", "//", ":\\\\"]), 1)
@mut
def m_nonascii_host(rng, u):
    return u.replace("://", "://" + rng.choice(["\u00e9", "\u2100", "\uff0e", "\u212a"]), 1)
@mut
def m_special(rng, u):
    i = rng.randint(0, len(u)); return u[:i] + rng.choice("[]@:/?#;%\\") + u[i:]

def mutated_url(rng):
    u = grammar_url(rng)
    for _ in range(rng.choice([1, 1, 2, 3])):
        u = rng.choice(MUTATORS)(rng, u)
    return u

def raw_string(rng):
    n = rng.choice([0, 1, 2, 5, 10, 20])
    alphabet = "gemini:/[]@?#;%. \t\r\nabcXYZ019\x00\u00e9"
    return "".join(rng.choice(alphabet) for _ in range(n))

def mixed_url(rng):
    k = rng.random()
    if k < 0.45: return grammar_url(rng)
    if k < 0.6: return valid_url(rng)
    if k < 0.92: return mutated_url(rng)
    return raw_string(rng)

CORPUS = [
    "gemini://[::1]/", "gemini://[::1]:1966/a?b", "gemini://[v1.[x]/", "gemini://x[::1]y/",
    "gemini://[FE80::1%25eth0]/", "gemini://Example.COM:1965", "gemini://example.com", "GEMINI://H/",
    "gemini://h:/", "gemini://h:0/", "gemini://h:65535/", "gemini://h:65536/", "gemini://@h/", "gemini://:@h/",
    "gemini://u@h/", "gemini://h/#", "gemini://h/#f", "gemini://h?", "gemini://h?q", "gemini://h/?", "gemini://h//a",
    "gemini:///p", "gemini:/p", "gemini:", "gemini", "", " gemini://h/", "gemini://ho\tst/", "gemini://h/a\nb",
    "foo\nbar", "gemini://[::1]]/", "gemini://[[::1]/", "gemini://[1.2.3.4]/", "gemini://[V1.a]/", "gemini://[v1.a]/",
    "gemini://[v1.a]:70/x;y?z", "gemini://h/%41?%42", "gemini://h/a;b=c", "gemini://h:1965:1/", "gemini://[::1]:x/",
    "gemini://[::1]x:5/", "gemini://a[::1]:5/", "gemini://[fe80::1%a[b]/", "gemini://h%41/", "gemini://H%zZ/", "gemini://%/",
]
