"""Schedule replay on the real GeminiServerProtocol (fake transport, gate-controlled middleware /
handler / upload handler) and the matching model cases.  A case is (cfg, events):
  cfg    = dict(has_mw, has_upload, peer_ip, fp (bool: client certificate presented), hres[, up_sync])
  up_sync= absent/None: the upload handler is an `async def` (its call returns a coroutine; completion = a "done" event)
           | "raise" | ("raise", msg): a plain function whose call raises (Exception or ValueError)(msg) before any awaitable exists
           | "value": a plain function that hands back a response object instead of an awaitable (asyncio.create_task refuses it)
           -> the model's up_call_fails (Model/ServerProto.v)
  hres   = ("value", resp) | ("raise", msg) | ("async",)
  resp   = (status:int, meta:str, body: None | ("t", str) | ("b", bytes))
  events = ("read", [bytes...]) | ("timer",) | ("done", id, outcome) | ("lost",)
  outcome= ("resp", resp) | ("raise", msg) | ("mw", allow, text|None) | ("malformed",)
Observation: per event (actions, timer_armed_after)."""
import asyncio, hashlib
from common import *
import urlimpl

_CERT = None
def client_cert():
    """(DER bytes, expected fingerprint) of a throw-away certificate, generated once."""
    global _CERT
    if _CERT is None:
        from nauyaca.security.certificates import generate_self_signed_cert
        from cryptography import x509
        from cryptography.hazmat.primitives import serialization
        pem, _ = generate_self_signed_cert(hostname="client", key_size=2048, valid_days=5)
        der = x509.load_pem_x509_certificate(pem).public_bytes(serialization.Encoding.DER)
        _CERT = (der, "sha256:" + hashlib.sha256(der).hexdigest())
    return _CERT

class SSLObj:
    def __init__(self, der): self.der = der
    def getpeercert(self, binary_form=False): return self.der if binary_form else {}

class FakeTransport:
    def __init__(self, acts, peer, der):
        self.acts, self.peer, self.der, self.closed = acts, peer, der, False
    def write(self, b): self.acts.append(["w", bytes(b)])
    def close(self): self.closed = True; self.acts.append(["c"])
    def is_closing(self): return self.closed
    def get_extra_info(self, name, default=None):
        if name == "peername": return self.peer
        if name == "ssl_object": return SSLObj(self.der) if self.der else None
        return default

def mk_resp(r):
    from nauyaca.protocol.response import GeminiResponse
    st, meta, body = r
    b = None if body is None else body[1]
    # handlers commonly return the StatusCode member itself rather than its value: it IS an int and must be written as its
    # two digits (deterministically for about half of the responses whose status has a member)
    try:
        from nauyaca.protocol.status import StatusCode
        if isinstance(st, int) and not isinstance(st, bool) and len(meta) % 2 == 1:
            st = StatusCode(st)
    except ValueError:
        pass
    return GeminiResponse(status=st, meta=meta, body=b)

def enc_resp(r):
    st, meta, body = r
    return [st, meta, [] if body is None else [body[0], body[1]]]

def enc_outcome(o):
    if o[0] == "resp": return ["resp", enc_resp(o[1])]
    if o[0] == "raise": return ["raise", o[1]]
    if o[0] == "mw": return ["mw", bool(o[1]), [] if o[2] is None else [o[2]]]
    return ["malformed"]

def enc_event(e):
    if e[0] == "read": return ["read", list(e[1])]
    if e[0] == "timer": return ["timer"]
    if e[0] == "done": return ["done", e[1], enc_outcome(e[2])]
    return ["lost"]

SYNC_MSG = "the upload handler failed before returning an awaitable"
SYNC_VALUE = (20, "text/gemini", None)      # what an upload handler of kind "value" hands back instead of an awaitable

_NOT_A_CORO = None
def not_a_coroutine_message():
    """str() of the TypeError asyncio.create_task raises when it is handed SYNC_VALUE's response object instead of a coroutine -
    obtained from asyncio itself inside a running loop, not from the implementation under test."""
    global _NOT_A_CORO
    if _NOT_A_CORO is None:
        async def probe():
            try:
                asyncio.create_task(mk_resp(SYNC_VALUE))
            except TypeError as e:
                return str(e)
            raise AssertionError("asyncio.create_task accepted a response object")
        import threading
        box = []
        t = threading.Thread(target=lambda: box.append(asyncio.run(probe())))    # usable from inside a running loop too
        t.start(); t.join()
        _NOT_A_CORO = box[0]
    return _NOT_A_CORO

def up_sync_of(cfg):
    """-> None | ("raise", msg) | ("value",)"""
    u = cfg.get("up_sync")
    if not u: return None
    if u == "raise": return ("raise", SYNC_MSG)
    if u == "value": return ("value",)
    return tuple(u)

def up_call_fails(cfg):
    """the model's up_call_fails for this configuration: [] (the call yields an awaitable) or [message]"""
    u = up_sync_of(cfg)
    if u is None: return []
    if u[0] == "raise": return [u[1]]
    return [not_a_coroutine_message()]

def enc_cfg(cfg, ip6table):
    h = cfg["hres"]
    hres = ["value", enc_resp(h[1])] if h[0] == "value" else (["raise", h[1]] if h[0] == "raise" else ["async"])
    fp = [client_cert()[1]] if cfg["fp"] else []
    return [bool(cfg["has_mw"]), bool(cfg["has_upload"]), cfg["peer_ip"] if cfg["peer_ip"] is not None else "unknown", fp, hres, ip6table,
            up_call_fails(cfg)]

class Escape(Exception):
    pass

async def run_schedule(cfg, events, settle=8):
    from nauyaca.server.protocol import GeminiServerProtocol
    import nauyaca.server.protocol as sp
    loop = asyncio.get_running_loop()
    acts = []
    seen = []
    gates = {}
    counter = {"n": 0}
    def new_gate():
        i = counter["n"]; counter["n"] += 1
        gates[i] = loop.create_future()
        return i
    async def finish(i):
        o = await gates[i]
        if o[0] == "resp": return mk_resp(o[1])
        if o[0] == "raise": raise Exception(o[1])
        if o[0] == "mw": return (o[1], o[2])
        return 42
    class MW:
        async def process_request(self, url, ip, fp=None):
            i = new_gate(); acts.append(["mw", i, url, ip, [] if fp is None else [fp]])
            return await finish(i)
    class UP:
        async def handle_upload(self, req):
            seen.append([req.hostname, req.port, req.path, req.parsed_url.query])
            i = new_gate(); acts.append(["up", i, req.raw_url, bytes(req.content)])
            return await finish(i)
    class UPSync:
        """an upload handler whose call is over before any awaitable exists: it raises, or hands back a response object instead
        of an awaitable (cfg["up_sync"]).  The invocation is recorded as the action "upc" (the model's AUploadCall): no task."""
        def handle_upload(self, req):
            seen.append([req.hostname, req.port, req.path, req.parsed_url.query])
            acts.append(["upc", req.raw_url, bytes(req.content)])
            u = up_sync_of(cfg)
            if u[0] == "raise": raise (Exception if len(u[1]) % 2 == 0 else ValueError)(u[1])
            return mk_resp(SYNC_VALUE)
    async def async_handler():
        i = new_gate(); acts.append(["ht", i])
        return await finish(i)
    def handler(req):
        acts.append(["h", req.raw_url])
        seen.append([req.hostname, req.port, req.path, req.query])
        h = cfg["hres"]
        if h[0] == "value": return mk_resp(h[1])
        if h[0] == "raise": raise Exception(h[1])
        return async_handler()
    urllib_calls = []
    p = GeminiServerProtocol(handler, MW() if cfg["has_mw"] else None, (UPSync() if up_sync_of(cfg) else UP()) if cfg["has_upload"] else None)
    der = client_cert()[0] if cfg["fp"] else None
    peer = (cfg["peer_ip"], 4242) if cfg["peer_ip"] is not None else None
    t = FakeTransport(acts, peer, der)
    cb_errors = []
    old_handler = loop.get_exception_handler()
    loop.set_exception_handler(lambda l, ctx: cb_errors.append(ctx))
    fired = {"f": False}
    lost = False
    obs = []
    try:
        t_before = loop.time()
        p.connection_made(t)
        t_after = loop.time()
        h0 = p.timeout_handle
        # the timer was armed between t_before and t_after: its delay lies in [when - t_after, when - t_before]
        delay = None
        if h0 is not None:
            lo, hi = h0.when() - t_after, h0.when() - t_before
            delay = 30.0 if lo - 1e-6 <= 30.0 <= hi + 1e-6 else round(hi, 3)
        def armed():
            h = p.timeout_handle
            return h is not None and not h.cancelled() and not fired["f"]
        async def settle_loop():
            for _ in range(settle):
                await asyncio.sleep(0)
        for e in events:
            mark = len(acts)
            try:
                if e[0] == "read":
                    if not lost:
                        for sl in e[1]:
                            p.data_received(sl)
                elif e[0] == "timer":
                    if armed() and not lost:
                        fired["f"] = True
                        p._handle_timeout()
                elif e[0] == "done":
                    g = gates.get(e[1])
                    if g is not None and not g.done():
                        g.set_result(e[2])
                elif e[0] == "lost":
                    if not lost:
                        lost = True
                        p.connection_lost(None)
            except Exception as ex:
                acts.append(["escape", type(ex).__name__])
                if not lost:
                    lost = True
                    p.connection_lost(ex)
            await settle_loop()
            for ctx in cb_errors:
                ex = ctx.get("exception")
                if isinstance(ex, asyncio.CancelledError) or ex is None:
                    continue        # left-overs of an earlier case being torn down
                acts.append(["escape-cb", type(ex).__name__])
            del cb_errors[:]
            obs.append([acts[mark:], armed()])
        return obs, delay, list(urlimpl._calls), (seen[0] if seen else [])
    finally:
        h = p.timeout_handle
        if h is not None: h.cancel()
        for g in gates.values():
            if not g.done(): g.cancel()
        for _ in range(4):
            await asyncio.sleep(0)
        loop.set_exception_handler(old_handler)

def run_cases(cases):
    """-> list of (obs, delay, ip6table) per case, using one event loop."""
    import urllib.parse
    async def go():
        out = []
        for cfg, evs in cases:
            urllib.parse.clear_cache(); del urlimpl._calls[:]
            obs, delay, calls, seen = await run_schedule(cfg, evs)
            table = [[h, [] if m is None else [m]] for h, m in calls]
            out.append((obs, delay, table, seen))
        return out
    return asyncio.run(go())

def model_case(cfg, evs, table):
    return ("server", enc([enc_cfg(cfg, table), [enc_event(e) for e in evs]]))

def enc_obs(obs):
    return enc([[a, armed] for a, armed in obs])
