"""Extra drivers on the in-memory PyOpenSSL pair: handshake-phase timer (C15), ciphertext segmentation (C07),
client-certificate fingerprint plumbing (C04/C05)."""
import asyncio, hashlib
from common import *
import tlsmem, certs as certmod
from OpenSSL import SSL, crypto

def _spy_loop_timers(loop, timers):
    real = loop.call_later
    def spy(delay, cb, *a, **k):
        h = real(delay, cb, *a, **k); timers.append((delay, h)); return h
    loop.call_later = spy
    return real

def handshake_timer_cases(res):
    """stall after every client flight: a timer with the handshake timeout must be pending while the handshake is incomplete;
    firing it closes the TCP connection; after the handshake only the request timer (30 s) is pending."""
    from nauyaca.server.protocol import GeminiServerProtocol
    from nauyaca.protocol.response import GeminiResponse
    async def go():
        loop = asyncio.get_running_loop()
        out = []
        for stall_after in (0, 1, 2, 99):
            timers = []
            _spy_loop_timers(loop, timers)
            try:
                pair = tlsmem.Pair(lambda: GeminiServerProtocol(lambda r: GeminiResponse(20, "text/plain", "x")))
                flights = 0
                done = False
                for _ in range(10):
                    if flights >= stall_after: break
                    try:
                        pair.client.do_handshake(); done = True
                    except SSL.WantReadError:
                        pass
                    moved = pair.to_server(); pair.to_client(); flights += 1
                    if done and not moved: break
                pending = [(d, h) for d, h in timers if not h.cancelled()]
                hs_complete = pair.server.handshake_complete
                info = {"stall_after_flights": stall_after, "handshake_complete": hs_complete, "pending_delays": sorted(d for d, h in pending)}
                if not hs_complete:
                    fired_closed = None
                    if pending:
                        for d, h in pending: h._run()
                        fired_closed = pair.tcp.closed
                    info["closed_when_timer_fired"] = fired_closed
                    ok = bool(pending) and all(0 < d <= 60 for d, h in pending) and fired_closed is True and pair.server.inner_protocol is None
                else:
                    ok = [d for d, h in pending] == [30.0] and pair.server.inner_protocol is not None
                out.append((ok, info))
                for d, h in timers: h.cancel()
            finally:
                del loop.call_later
        return out
    for ok, info in asyncio.run(go()):
        res.evaluations += 1; res.nontriv(("hs", info["stall_after_flights"])); res.count("handshake-stall")
        if not ok:
            res.violations.append({"clause": "handshake-phase-timer", "signature": "C15:handshake", "case": {"stall_after_client_flights": info["stall_after_flights"]}, "trace": info})

def silent_after_handshake_cases(res):
    """PyOpenSSL backend, request phase: the peer completes the handshake, sends nothing / part of a line / part of an upload body
    and goes silent - it never answers the server's close_notify either.  When the request timer fires the peer must get
    '40 Request timeout' and the TCP connection must actually be closed, not wait for the peer."""
    from nauyaca.server.protocol import GeminiServerProtocol
    from nauyaca.protocol.response import GeminiResponse
    class Up:
        async def handle_upload(self, r): return GeminiResponse(20, "text/gemini", "stored")
    async def one(payload):
        pair = tlsmem.Pair(lambda: GeminiServerProtocol(lambda r: GeminiResponse(20, "text/plain", "x"), None, Up()))
        pair.handshake()
        if payload:
            pair.client.sendall(payload); pair.to_server()
        for _ in range(4): await asyncio.sleep(0)
        ip = pair.server.inner_protocol
        armed = ip is not None and ip.timeout_handle is not None and not ip.timeout_handle.cancelled()
        if armed:
            ip.timeout_handle.cancel(); ip._handle_timeout()          # the timer fires (the peer stays silent)
        for _ in range(4): await asyncio.sleep(0)
        got = pair.client_read_all()                                    # the peer only reads what was sent; it writes nothing back
        closed = pair.tcp.closed
        if hasattr(pair.server, "_cancel_handshake_timer"): pair.server._cancel_handshake_timer()
        return armed, got, closed
    async def go():
        return [(p, await one(p)) for p in (b"", b"gemini://localhost/par", b"titan://localhost/f;size=10\r\nabc", b"caf\xc3")]
    for payload, (armed, got, closed) in asyncio.run(go()):
        res.evaluations += 1; res.nontriv(("silent-tls", payload)); res.count("silent-after-handshake")
        if not armed or got != b"40 Request timeout\r\n" or not closed:
            res.violations.append({"clause": "a peer silent after the TLS handshake is disconnected when the request timer fires (PyOpenSSL backend)",
                                   "signature": "C15:silent-tls", "case": {"sent_before_going_silent": payload.decode("latin-1")},
                                   "trace": {"timer_armed": armed, "peer_received": got.decode("latin-1"), "tcp_closed": closed}})

def complete_request_in_records_cases(res):
    """PyOpenSSL backend: a COMPLETE request that reaches the server as several TLS records inside ONE TCP read (a client that writes
    the line and the CRLF, or the Titan line and its body, separately; the writes coalesce on the wire), then silence: "a timeout
    never fires once a complete request has been received" - the request must be answered by the handler, and no request timer
    may be left pending that would answer 40 later."""
    from nauyaca.server.protocol import GeminiServerProtocol
    from nauyaca.protocol.response import GeminiResponse
    class Up:
        async def handle_upload(self, r): return GeminiResponse(20, "text/gemini", "stored")
    async def one(pieces):
        pair = tlsmem.Pair(lambda: GeminiServerProtocol(lambda r: GeminiResponse(20, "text/plain", "x"), None, Up()))
        pair.handshake()
        for piece in pieces: pair.client.send(piece)        # one TLS record per send()
        pair.to_server()                                    # ... all of them in one TCP read
        for _ in range(8): await asyncio.sleep(0)
        ip = pair.server.inner_protocol
        armed = ip is not None and ip.timeout_handle is not None and not ip.timeout_handle.cancelled()
        if armed:
            ip.timeout_handle.cancel(); ip._handle_timeout()          # what the peer would get 30 s later
        for _ in range(8): await asyncio.sleep(0)
        got = pair.client_read_all()
        if hasattr(pair.server, "_cancel_handshake_timer"): pair.server._cancel_handshake_timer()
        return armed, got, pair.tcp.closed
    cases = [[b"gemini://localhost/page", b"\r\n"], [b"gemini://localhost/", b"page", b"\r", b"\n"], [b"titan://localhost/f;size=5;mime=text/plain\r\n", b"hello"],
             [b"titan://localhost/f;size=5;mime=text/plain\r\nhe", b"l", b"lo"], [b"gemini://localhost/page\r\n", b"trailing"]]
    async def go():
        return [(c, await one(c)) for c in cases]
    for pieces, (armed, got, closed) in asyncio.run(go()):
        res.evaluations += 1; res.nontriv(("records-one-read", tuple(pieces))); res.count("complete-request-in-records")
        if armed or not got.startswith(b"20 ") or not closed:
            res.violations.append({"clause": "a timeout never fires once a complete request has been received (the request arrives as several TLS records in one TCP read, PyOpenSSL backend)",
                                   "signature": "C15:records-one-read", "case": {"tls_records_in_one_tcp_read": [x.decode("latin-1") for x in pieces]},
                                   "trace": {"request_timer_still_armed_after_the_read": armed, "peer_received": got[:60].decode("latin-1"), "tcp_closed": closed}})

def pump_segmentation_cases(res, rng, tier):
    """the same client ciphertext delivered to TLSServerProtocol in arbitrary pieces (including application data coalesced
    with the last handshake flight): the inner protocol must see the same request and answer identically"""
    from nauyaca.server.protocol import GeminiServerProtocol
    from nauyaca.protocol.response import GeminiResponse
    reqs = [b"gemini://localhost/a\r\n", b"gemini://localhost/" + b"p" * 900 + b"\r\nTRAILING", b"titan://localhost/f;size=5\r\nhello", b"titan://localhost/f;size=20000\r\n" + b"z" * 20000]
    n = 6 if tier == "quick" else 60
    async def one(req, cuts, coalesce, records=None):
        """records: the request written by the client as several TLS records (one sendall per part)"""
        calls = []
        class Up:
            async def handle_upload(self, r):
                calls.append(("up", len(r.content), hashlib.sha1(r.content).hexdigest())); return GeminiResponse(20, "text/gemini", "stored")
        def handler(r):
            calls.append(("h", r.raw_url)); return GeminiResponse(20, "text/plain", "body-" + r.path[-5:])
        pair = tlsmem.Pair(lambda: GeminiServerProtocol(handler, None, Up()))
        if coalesce:
            # finish the handshake on the client side first, queue the request behind its last flight, deliver everything at once / in pieces
            for _ in range(6):
                try:
                    pair.client.do_handshake(); break
                except SSL.WantReadError:
                    pair.to_server(); pair.to_client()
            for part in (records or [req]): pair.client.sendall(part)
            pair.to_server(cut=cuts)
        else:
            pair.handshake()
            for part in (records or [req]): pair.client.sendall(part)
            pair.to_server(cut=cuts)
        for _ in range(6): await asyncio.sleep(0)
        got = pair.client_read_all()
        ip = pair.server.inner_protocol
        if ip is not None and ip.timeout_handle: ip.timeout_handle.cancel()
        if hasattr(pair.server, "_cancel_handshake_timer"): pair.server._cancel_handshake_timer()
        return got, calls
    async def go():
        out = []
        for req in reqs:
            base = await one(req, None, False)
            for i in range(n):
                cuts = [rng.randint(1, 40) for _ in range(rng.randint(1, 30))] if rng.random() < 0.7 else [rng.randint(1, 5000) for _ in range(5)]
                coalesce = rng.random() < 0.5
                out.append((req, cuts, coalesce, base, await one(req, cuts, coalesce)))
            # the request as SEVERAL records queued behind the client's last handshake flight and delivered in ONE read
            # (and in one read after the handshake): records still waiting in the BIO must all be drained
            crlf = req.index(b"\r\n")
            for parts in ([req[:5], req[5:]], [req[:crlf + 2], req[crlf + 2:]] if len(req) > crlf + 2 else [req[:crlf], req[crlf:]],
                          [req[:3], req[3:crlf + 1], req[crlf + 1:]]):
                parts = [p_ for p_ in parts if p_]
                for coalesce in (True, False):
                    out.append((req, [], coalesce, base, await one(req, None, coalesce, records=parts)))
        return out
    for req, cuts, coalesce, base, got in asyncio.run(go()):
        res.evaluations += 1; res.nontriv(("pump", req[:20], tuple(cuts), coalesce)); res.count("pump-segmentation")
        if got != base or len(base[1]) != 1:
            res.violations.append({"clause": "tls-pump-segmentation", "signature": "C07:pump",
                                   "case": {"request": req[:60].decode("latin-1"), "ciphertext_cuts": cuts[:20], "coalesced_with_handshake": coalesce},
                                   "trace": {"single": [base[0][:60].hex(), str(base[1])[:200]], "segmented": [got[0][:60].hex(), str(got[1])[:200]]}})

def fingerprint_plumbing_cases(res, tmp, pid="C04"):
    """real client certificates (RSA / EC / Ed25519) presented over TLS to TLSServerProtocol: the middleware must be consulted with
    sha256(DER) of exactly that certificate, and with None when no certificate is presented; Gemini and Titan alike"""
    from nauyaca.server.protocol import GeminiServerProtocol
    from nauyaca.protocol.response import GeminiResponse
    cs = certmod.certs()[:3]
    async def one(c, line, extra=()):
        seen = []
        class MW:
            async def process_request(self, url, ip, fp=None):
                seen.append((url, ip, fp)); return True, None
        class Up:
            async def handle_upload(self, r): return GeminiResponse(20, "text/gemini", "ok")
        cctx = tlsmem.client_ctx()
        if c is not None:
            cp, kp = os.path.join(tmp, "cc.pem"), os.path.join(tmp, "ck.pem")
            open(cp, "wb").write(c["pem"]); open(kp, "wb").write(c["key_pem"])
            cctx.use_certificate_file(cp); cctx.use_privatekey_file(kp)
            # further certificates sent along in the client's Certificate message (anybody can append anybody's PUBLIC certificate):
            # the identity is the leaf the client proved possession of, whatever follows it
            for e in extra:
                cctx.add_extra_chain_cert(crypto.load_certificate(crypto.FILETYPE_PEM, e["pem"]))
        pair = tlsmem.Pair(lambda: GeminiServerProtocol(lambda r: GeminiResponse(20, "text/plain", "x"), MW(), Up()), cctx=cctx)
        pair.handshake(); pair.client.sendall(line); pair.to_server()
        for _ in range(8): await asyncio.sleep(0)
        ip = pair.server.inner_protocol
        if ip is not None and ip.timeout_handle: ip.timeout_handle.cancel()
        if hasattr(pair.server, "_cancel_handshake_timer"): pair.server._cancel_handshake_timer()
        return seen
    async def go():
        out = [(c, (), line, await one(c, line)) for c in cs + [None] for line in (b"gemini://localhost/x\r\n", b"titan://localhost/f;size=1\r\na")]
        for i, c in enumerate(cs):
            others = [x for x in cs if x is not c]
            for extra in ((others[0],), (others[1], others[0])):
                out.append((c, extra, b"gemini://localhost/x\r\n", await one(c, b"gemini://localhost/x\r\n", extra)))
        return out
    for c, extra, line, seen in asyncio.run(go()):
        res.evaluations += 1; res.nontriv(("fp", c["name"] if c else None, tuple(e["name"] for e in extra), line[:5])); res.count("fingerprint-plumbing" + ("+chain" if extra else ""))
        want = c["fp"] if c else None
        if len(seen) != 1 or seen[0][2] != want or seen[0][1] != "192.0.2.9":
            res.violations.append({"clause": "the chain is consulted with the fingerprint of the certificate actually presented (the leaf the client holds the key of), over TLS",
                                   "signature": "%s:tls-args" % pid,
                                   "case": {"certificate": c["name"] if c else None, "further_certificates_appended_by_the_client": [e["name"] for e in extra], "request": line.decode("latin-1")},
                                   "trace": {"seen": str(seen)[:300], "expected_fingerprint": want, "fingerprints_of_the_appended_certificates": [e["fp"] for e in extra]}})

def fingerprint_collision_cases(res, tmp, pid="C05"):
    """several client certificates that agree in everything a cache might key on (issuer, subject, serial number, validity) but
    have different keys - hence different DER and fingerprints - presented one after the other in one process: the middleware
    must see the fingerprint of the certificate actually presented on THIS connection, every time"""
    import datetime, hashlib as _h
    from cryptography import x509
    from cryptography.x509.oid import NameOID
    from cryptography.hazmat.primitives import hashes, serialization
    from cryptography.hazmat.primitives.asymmetric import ec
    from nauyaca.server.protocol import GeminiServerProtocol
    from nauyaca.protocol.response import GeminiResponse
    name = x509.Name([x509.NameAttribute(NameOID.COMMON_NAME, "member")])
    t0 = datetime.datetime(2026, 1, 1, tzinfo=datetime.timezone.utc)
    twins = []
    for i in range(3):
        key = ec.generate_private_key(ec.SECP256R1())
        cert = (x509.CertificateBuilder().subject_name(name).issuer_name(name).public_key(key.public_key()).serial_number(4096)
                .not_valid_before(t0).not_valid_after(t0 + datetime.timedelta(days=3650)).sign(key, hashes.SHA256()))
        der = cert.public_bytes(serialization.Encoding.DER)
        twins.append({"name": "twin%d" % i, "fp": "sha256:" + _h.sha256(der).hexdigest(), "pem": cert.public_bytes(serialization.Encoding.PEM),
                      "key_pem": key.private_bytes(serialization.Encoding.PEM, serialization.PrivateFormat.PKCS8, serialization.NoEncryption())})
    async def one(c):
        seen = []
        class MW:
            async def process_request(self, url, ip, fp=None):
                seen.append(fp); return True, None
        cctx = tlsmem.client_ctx()
        cp, kp = os.path.join(tmp, "tw.pem"), os.path.join(tmp, "tw.key")
        open(cp, "wb").write(c["pem"]); open(kp, "wb").write(c["key_pem"])
        cctx.use_certificate_file(cp); cctx.use_privatekey_file(kp)
        pair = tlsmem.Pair(lambda: GeminiServerProtocol(lambda r: GeminiResponse(20, "text/plain", "x"), MW()), cctx=cctx)
        pair.handshake(); pair.client.sendall(b"gemini://localhost/private/x\r\n"); pair.to_server()
        for _ in range(8): await asyncio.sleep(0)
        ip = pair.server.inner_protocol
        if ip is not None and ip.timeout_handle: ip.timeout_handle.cancel()
        if hasattr(pair.server, "_cancel_handshake_timer"): pair.server._cancel_handshake_timer()
        return seen
    async def go():
        order = [twins[0], twins[1], twins[0], twins[2], twins[1]]
        return [(c, await one(c)) for c in order]
    for i, (c, seen) in enumerate(asyncio.run(go())):
        res.evaluations += 1; res.nontriv(("fp-twin", i)); res.count("fingerprint-twins")
        if seen != [c["fp"]]:
            res.violations.append({"clause": "the fingerprint given to the middleware is that of the certificate presented on this connection",
                                   "signature": "%s:fingerprint-twins" % pid,
                                   "case": {"connection": i, "certificates": "same issuer, subject, serial and validity; different keys", "presented": c["name"]},
                                   "trace": {"seen": seen, "expected": c["fp"]}})
