"""The client-side command line run for real: `python -m nauyaca get <url> [-r N] [--no-redirects] [--no-trust]` as a subprocess
(PYTHONPATH = $NV_REPO/src, HOME = a fresh directory: the trust store lives under ~/.nauyaca) against local scripted TLS servers
(livepair.RecordingServer with per-URL answers: redirect chains of a given length, loops, cross-port hops, a non-gemini target, a
final "20 text/plain" body).  Observed per run: the request lines every server received, in order (= the connections made), the
exit status, what stdout / stderr show.  Judged by
  * the extracted model of the command (Dispatch entry "cli_get" = Model.CliClient.cli_get: the wiring of Model/CliClient.v feeding
    Model/Redirect.v; Proofs/C16_cli.v proves it equal to the wiring regenerated from __main__.py): outcome, connections, exit status;
  * the monitor Spec.C16.ok on the observed (outcome, connections), with follow = no --no-redirects and max = the value of -r.
run_get(res, tier) is called by c16.py, run_get_pin(res, tier) by c03.py."""
import os, re, subprocess, threading, time, shutil, tempfile
from concurrent.futures import ThreadPoolExecutor
from common import *
import livepair

PY = "/venv/bin/python"
DEFAULT_MAX = 5            # gen_get_default_max_redirects = MAX_REDIRECTS = 5 (Equiv/EquivCliClient.v: cli_get_defaults)

class ScriptedServer(livepair.RecordingServer):
    """answers by request URL; every request line is appended to a log shared by all servers (arrival order)"""
    def __init__(self, port, certfile, keyfile, routes, log, lock):
        super().__init__(port, certfile, keyfile, threaded=True)
        self.routes, self.log, self.lock = routes, log, lock
    def reply_for(self, data):
        line = data.split(b"\r\n", 1)[0].decode("utf-8", "replace")
        with self.lock:
            self.log.append((self.port, line))
        r = self.routes.get(line)
        return r if r is not None else b"51 Not found\r\n"

def cli_env(home):
    env = {k: v for k, v in os.environ.items() if k not in ("PYTHONPATH", "HOME", "COLUMNS", "NV_REEXEC")}
    env.update({"PYTHONPATH": os.path.join(os.environ.get("NV_REPO", "/repo"), "src"), "HOME": home, "PYTHONHASHSEED": "0",
                "NO_COLOR": "1", "TERM": "dumb", "COLUMNS": "400", "PYTHONDONTWRITEBYTECODE": "1"})
    return env

def run_cli(args, home, timeout=40):
    p = subprocess.run([PY, "-m", "nauyaca"] + args, env=cli_env(home), capture_output=True, text=True, timeout=timeout, cwd=home)
    return p.returncode, p.stdout, p.stderr

def observed_outcome(code, out, err, bodies):
    """what the user sees -> the outcome vocabulary of c16.py: ["final", status, meta, body] / ["fail", kind]"""
    m = re.fullmatch(r"\[(\d\d)\] (.*)\n", out)
    if m: return ["final", int(m.group(1)), m.group(2), ""]
    if out.strip():
        for b, meta in bodies.items():
            if out.strip() == b.strip(): return ["final", 20, meta, b]
        return ["final", 0, "unrecognised-stdout", out[:200]]
    e = err.strip()
    if e.startswith("Error: Redirect loop detected"): return ["fail", "loop"]
    if e.startswith("Error: Maximum redirects"): return ["fail", "too_many"]
    if e.startswith("Error: Redirect response missing URL"): return ["fail", "missing_url"]
    if e.startswith("Error:"): return ["fail", "bad_url"]
    if e.startswith("Timeout:"): return ["fail", "exc:TimeoutError"]
    if e.startswith("Connection error:"): return ["fail", "exc:ConnectionError"]
    if "Certificate Changed" in e: return ["fail", "changed"]
    return ["fail", "unrecognised:" + e[:120]]

def scenarios(tier, ports):
    """-> list of dicts: id, argv options, table {url: (status, meta, body)}, start url"""
    A = ports[0]
    out = []
    def U(i, j, port=None): return "gemini://127.0.0.1:%d/c%d/%d" % (port or A, i, j)
    def add(kind, table, start, n, no_redirects=False, no_trust=False):
        out.append({"id": len(out), "kind": kind, "table": table, "url": start, "n": n, "no_redirects": no_redirects, "no_trust": no_trust})
    def chain(i, length, hop_port=lambda j: None):
        t = {}
        for j in range(length): t[U(i, j, hop_port(j))] = (31 if j % 2 else 30, U(i, j + 1, hop_port(j + 1)), "")
        t[U(i, length, hop_port(length))] = (20, "text/plain", "body-c%d-%d\n" % (i, length))
        return t
    def loop(i, length):
        return {U(i, j): (30, U(i, (j + 1) % length), "") for j in range(length)}
    ns = (0, 1, 2, 5) if tier == "quick" else (0, 1, 2, 3, 4, 5, 6, 7)
    lengths = (0, 1, 2, 3) if tier == "quick" else (0, 1, 2, 3, 4, 5, 6, 7, 8)
    loops = (2,) if tier == "quick" else (1, 2, 3)
    trusts = (False,) if tier == "quick" else (False, True)
    i = [0]
    def nid():
        i[0] += 1; return i[0]
    for n in ns:
        for nr in (False, True):
            for nt in trusts:
                for L in lengths:
                    k = nid(); add("chain%d" % L, chain(k, L), U(k, 0), n, nr, nt)
                for L in loops:
                    k = nid(); add("loop%d" % L, loop(k, L), U(k, 0), n, nr, nt)
    # the default bound (no -r): a chain of exactly 5 redirects is followed, 6 is an error
    for L in (5, 6):
        k = nid(); add("default-bound-chain%d" % L, chain(k, L), U(k, 0), None)
    # hops that change the port (another pin per hop)
    for n in (1, 2):
        k = nid(); add("cross-port-chain2", chain(k, 2, lambda j: ports[j % 2]), U(k, 0), n)
    # a redirect that leaves gemini:// is handed back, never requested
    k = nid(); add("non-gemini-target", {U(k, 0): (30, "https://127.0.0.1:%d/c%d/elsewhere" % (A, k), "")}, U(k, 0), 5)
    k = nid(); add("non-gemini-after-hop", {U(k, 0): (31, U(k, 1), ""), U(k, 1): (30, "http://127.0.0.1:%d/c%d/x" % (A, k), "")}, U(k, 0), 5)
    # a failure status at the end of a chain: content for C16, exit status 1
    k = nid(); add("chain1-to-51", {U(k, 0): (30, U(k, 1), ""), U(k, 1): (51, "Not found", "")}, U(k, 0), 5)
    # --no-trust: the same wiring without the trust store
    for n in (0, 1):
        k = nid(); add("chain1-no-trust", chain(k, 1), U(k, 0), n, False, True)
    return out

def wire(status, meta, body):
    return ("%d %s\r\n" % (status, meta)).encode() + body.encode()

def argv_of(sc):
    a = ["get", sc["url"]]
    if sc["n"] is not None: a += ["-r", str(sc["n"])]
    if sc["no_redirects"]: a.append("--no-redirects")
    if sc["no_trust"]: a.append("--no-trust")
    return a

def run_get(res, tier):
    tmp = scratch_dir("nv-cli-")
    servers = []
    try:
        cert, key = livepair.write_cert(tmp, "srv")
        ports = [livepair.free_port(), livepair.free_port()]
        scs = scenarios(tier, ports)
        routes, log, lock = {}, [], threading.Lock()
        for sc in scs:
            for u, (st, meta, body) in sc["table"].items(): routes[u] = wire(st, meta, body)
        for p in ports:
            s = ScriptedServer(p, cert, key, routes, log, lock); s.start(); servers.append(s)
        def one(sc):
            home = tempfile.mkdtemp(prefix="home%d-" % sc["id"], dir=tmp)
            try:
                code, out, err = run_cli(argv_of(sc), home)
            except subprocess.TimeoutExpired:
                code, out, err = -1, "", "harness: the command did not end within 40 s"
            return code, out, err
        with ThreadPoolExecutor(6) as ex:
            obs = list(ex.map(one, scs))
        time.sleep(0.2)
        with lock: reqs = list(log)
        mcases, iobs, mon, rows = [], [], [], []
        for sc, (code, out, err) in zip(scs, obs):
            tag = "/" + sc["url"].split("/")[3] + "/"
            conns = [line for (_, line) in reqs if tag in line]          # arrival order (the runs are told apart by their path prefix)
            bodies = {b: m for (st, m, b) in sc["table"].values() if st == 20}
            o = observed_outcome(code, out, err, bodies)
            trows = [[u, [st, meta, body]] for u, (st, meta, body) in sc["table"].items()]
            mx = DEFAULT_MAX if sc["n"] is None else sc["n"]
            follow = not sc["no_redirects"]
            mcases.append(("cli_get", enc([sc["no_redirects"], mx, sc["url"], trows, []])))
            iobs.append(enc([o, conns, code]))
            mon.append(("C16.ok", enc([follow, mx, sc["url"], trows, [], o, conns])))
            rows.append((sc, code, out, err, conns, o))
            res.evaluations += 1
            res.count("cli:" + sc["kind"]); res.count("cli-exit:%d" % code); res.count("cli-connections:%d" % len(conns))
            if len(conns) > 1 or o[0] == "fail": res.nontriv(("cli", sc["kind"], sc["n"], sc["no_redirects"], sc["no_trust"]))
        def case_of(sc):
            return {"argv": ["python", "-m", "nauyaca"] + argv_of(sc), "HOME": "<fresh directory>",
                    "servers_answer": {u: "%d %s" % (st, meta) + (" + body %r" % body if body else "") for u, (st, meta, body) in sc["table"].items()}}
        mo = run_model(mon)
        for (sc, code, out, err, conns, o), m in zip(rows, mo):
            bad = []
            if m != enc(True): bad.append("Spec.C16.ok is false of the observed (outcome, connections)")
            shows3x = re.match(r"\[3\d\] gemini://", out) is not None
            if shows3x and not sc["no_redirects"]:
                bad.append("stdout shows a followable 3x header as the result although redirects are to be followed")
            if (code == 0) != (o[0] == "final" and 0 < o[1] < 40):
                bad.append("exit status %d does not match the outcome %s" % (code, o[:2]))
            if bad:
                res.violations.append({"clause": "C16 on the command line: at most max_redirects + 1 connections; loops and over-long chains are errors, never a redirect "
                                                 "shown as final content (exit status 0); --no-redirects = one connection, the 3x unchanged",
                                       "signature": "C16:cli:%s:%s:conn%d:exit%d" % (sc["kind"], "no-redirects" if sc["no_redirects"] else "follow", len(conns), code),
                                       "case": case_of(sc),
                                       "trace": {"problems": bad, "exit_status": code, "stdout": out[:400], "stderr": err[-600:], "connections_in_order": conns,
                                                 "observed_outcome": o}})
        out_m = run_model(mcases)
        compare(res, "cli_get", [c[1] for c in mcases], iobs, out_m, describe=lambda a: pretty(dec(a)))
        for d in res.disagreements:
            if d.get("driver") == "cli_get": d["note"] = "case = [no_redirects, max_redirects, url, table, ip6]; model / impl = [outcome, connections in order, exit status]"
        if rows:
            for idx in (1, len(rows) // 2, len(rows) - 1):
                sc, code, out, err, conns, o = rows[idx]
                res.sample({"argv": argv_of(sc), "exit": code, "stdout": out[:120], "stderr": err[:160], "connections": conns})
        res.rule += (" | plus the REAL command line (`python -m nauyaca get`, subprocess, fresh HOME) against live scripted TLS servers: -r in %s x chain length / loop x "
                     "{follow, --no-redirects}%s, default bound, cross-port hops, non-gemini targets, --no-trust; connections counted at the servers"
                     % ("{0,1,2,5}" if tier == "quick" else "{0..7}", "" if tier == "quick" else " x {--trust, --no-trust}"))
    finally:
        for s in servers: s.stop()
        shutil.rmtree(tmp, ignore_errors=True)

def run_get_pin(res, tier):
    """`get` twice against the same port with a changed certificate: the second run must exit 1, print "Certificate Changed", and the
    second server must have received no application byte; with --no-trust (pin check off by request) the same server is fetched"""
    tmp = scratch_dir("nv-clipin-")
    s1 = s2 = None
    try:
        ca, ka = livepair.write_cert(tmp, "a"); cb, kb = livepair.write_cert(tmp, "b")
        home = tempfile.mkdtemp(prefix="home-", dir=tmp)
        port = livepair.free_port()
        url = "gemini://127.0.0.1:%d/pinned" % port
        s1 = livepair.RecordingServer(port, ca, ka, reply=b"20 text/plain\r\nfirst\n"); s1.start()
        first = run_cli(["get", url], home)
        s1.stop(); s1.join(2); time.sleep(0.1)
        s2 = livepair.RecordingServer(port, cb, kb, reply=b"20 text/plain\r\nsecond\n"); s2.start()
        second = run_cli(["get", url], home)
        time.sleep(0.2)
        leaked = [d for d in s2.received if d]
        third = run_cli(["get", url, "--no-trust"], home)
        fourth = run_cli(["get", url], home)            # --no-trust must not have re-pinned
        time.sleep(0.2)
        res.evaluations += 4; res.count("cli-pin")
        res.nontriv(("cli-pin", "pinned-then-changed"))
        bad = []
        if first[0] != 0 or first[1].strip() != "first": bad.append("first fetch: exit %d, stdout %r, stderr %r" % (first[0], first[1][:80], first[2][-200:]))
        if second[0] != 1 or "Certificate Changed" not in second[2] or second[1].strip(): bad.append("after the change: exit %d, stdout %r, stderr %r" % (second[0], second[1][:80], second[2][-300:]))
        if leaked: bad.append("the second server received application bytes from the refused run: %r" % leaked[0][:80])
        if third[0] != 0 or third[1].strip() != "second": bad.append("--no-trust: exit %d, stdout %r, stderr %r" % (third[0], third[1][:80], third[2][-200:]))
        if fourth[0] != 1 or "Certificate Changed" not in fourth[2]: bad.append("after a --no-trust run the pin no longer holds: exit %d, stdout %r" % (fourth[0], fourth[1][:80]))
        if bad:
            res.violations.append({"clause": "command line: a pinned host presenting a different certificate is refused (exit status 1, 'Certificate Changed') and "
                                             "receives no application byte; --no-trust fetches without touching the pin",
                                   "signature": "C03:cli-pin-change",
                                   "case": {"runs": [["python", "-m", "nauyaca", "get", url], "server restarts with another certificate", ["... get", url],
                                                     ["... get", url, "--no-trust"], ["... get", url]], "HOME": "one fresh directory for the four runs"},
                                   "trace": {"problems": bad}})
    finally:
        for s in (s1, s2):
            if s: s.stop()
        shutil.rmtree(tmp, ignore_errors=True)
