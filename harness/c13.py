"""C13: client protocol replay - server byte streams x segmentations x close/reset at every offset,
compared with the ClientProto model and judged by the whole-stream specification Spec.C13.ok."""
import asyncio, itertools
from common import *
import clientdrv as cd

CHARSETS = ["utf-8", "UTF-8", "iso-8859-1", "latin-1", "utf-16", "shift_jis", "ascii", "cp1252", "bogus-charset", "hex", "", "rot13", "idna", "utf8\x00x",
            # codecs whose failure is a plain UnicodeError / ValueError (not UnicodeDecodeError, not LookupError)
            "undefined", "punycode", "undefined", "punycode"]
def gen_stream(rng):
    k = rng.random()
    status = rng.choice(["20", "20", "20", "21", "29", "10", "30", "31", "40", "51", "59", "60", "69", "09", "70", "99", "2", "200", "+2", " 20", "2_", "ab", "", "٢٠"])
    if k < 0.55:
        mime = rng.choice(["text/gemini", "text/plain", "TEXT/Plain", "", "application/octet-stream", "image/png", " text/gemini ", "text/gemini; lang=en"])
        if rng.random() < 0.5:
            cs = rng.choice(CHARSETS)
            q = rng.choice(["", '"', "'"])
            mime += rng.choice(["; charset=", ";charset=", "; CHARSET=", " ; charset = ", ";x=1;charset="]) + q + cs + q
        meta = mime
    elif k < 0.75:
        meta = rng.choice(["gemini://h/next", "Not found", "Slow down", "é世界", "a\rb", "a\nb", "x" * rng.choice([1020, 1024, 1025, 1030]), "", " "])
    else:
        meta = "".join(rng.choice("abc ;=\"'/\t") for _ in range(rng.randint(0, 12)))
    sep = rng.choice([" ", " ", " ", "", "  "])
    header = (status + sep + meta).encode("utf-8", "replace")
    if rng.random() < 0.05: header = header + b"\xff"
    body = rng.choice([b"", b"hello", "café".encode("latin-1"), "café".encode("utf-8"), "日本".encode("shift_jis"), "hi".encode("utf-16"),
                       bytes(range(256))[: rng.randint(0, 80)], b"x" * rng.choice([63, 64, 65, 100]), b"line1\r\nline2\r\n", b"a..b", b"-"])
    end = rng.choice([b"\r\n", b"\r\n", b"\r\n", b"\r\n", b"\n", b"\r", b""])
    return header + end + body

def segmentations(data, rng, tier):
    n = len(data)
    if n <= (10 if tier == "quick" else 12):
        for mask in range(1 << max(0, n - 1)):
            pts = [0] + [i + 1 for i in range(n - 1) if mask >> i & 1] + [n]
            yield [data[a:b] for a, b in zip(pts, pts[1:])]
    else:
        yield [data]
        for i in range(1, n, max(1, n // (8 if tier == "quick" else 30))):
            yield [data[:i], data[i:]]
        for _ in range(3 if tier == "quick" else 8):
            k = rng.randint(2, 6)
            cuts = sorted(set(rng.randrange(1, n) for _ in range(k)))
            pts = [0] + cuts + [n]
            yield [data[a:b] for a, b in zip(pts, pts[1:])]

def run(tier, seed):
    setup_impl()
    rng = random.Random(seed)
    res = Result()
    res.rule = ("server streams from a response grammar (statuses incl. malformed ones, metas with charset parameters of known/unknown labels, "
                "bodies in several encodings, sizes around the cap) and corruptions; all segmentations of streams <= 10/12 bytes, 1-cut and random "
                "multi-cut segmentations of longer ones; clean close or reset after every prefix; body cap substituted by %d; "
                "non-trivial = distinct (stream, segmentation, ending)" % cd.CAP)
    short = [b"20 \r\nab", b"51\r\n", b"2\r\n", b"20 a\r", b"\r\n\r\n", b"20 t\r\nx", b"99 x\r\n", b"20 \xff\r\n"]
    for n in (1026, 1027, 1028, 1029, 1030):      # header-line boundary (2+1+1024 = 1027), with / without CRLF
        short += [b"20 " + b"m" * (n - 3) + b"\r\nbody", b"20 " + b"m" * (n - 3), b"20 " + b"m" * (n - 3) + b"\r"]
    # bodies around and beyond the cap, delivered with the header in every way (the whole stream in one read included)
    for nbody in (cd.CAP - 1, cd.CAP, cd.CAP + 1, cd.CAP + 40, 3 * cd.CAP):
        short += [b"20 text/plain\r\n" + b"b" * nbody, b"20 \r\n" + b"b" * nbody, b"21 application/octet-stream\r\n" + bytes(range(256))[:nbody % 256] + b"c" * (nbody - nbody % 256),
                  b"51 gone\r\n" + b"b" * nbody]
    # every charset label of the list (and labels that make the codec lookup fail in unusual ways: embedded NUL -> ValueError,
    # over-long, non-ASCII, trailing space) on a 2x text response, with an empty, a valid and an undecodable body
    labels = sorted(set(CHARSETS + ["utf-8\x00", "\x00", "a\x00b", "utf-8 ", "utf_8", "U8", "x" * 300, "utf-\u00e9", "utf-8\t", "-", "."]))
    for cs in labels:
        for mime in ("text/gemini", ""):
            for body in ((b"", b"hello", b"\xff\xfe") if tier != "quick" else (b"hello",)):
                short.append(("20 %s; charset=%s" % (mime, cs)).encode("utf-8") + b"\r\n" + body)
    # an empty media type (text/gemini by default) and a text type with bodies that are not UTF-8
    short += [b"20 \r\n\xff\xfe\x00raw", b"20\r\n\xff\xfe", b"20 text/plain\r\n\xe9t\xe9", b"20 text/gemini\r\n\x80"]
    # a byte order mark at the start of a text body is part of the body (the codec is "utf-8", not "utf-8-sig"), as is one inside
    short += [b"20 text/gemini\r\n\xef\xbb\xbf# title", b"20 \r\n\xef\xbb\xbf", b"20 text/plain; charset=utf-8\r\n\xef\xbb\xbfx", b"20 text/plain\r\na\xef\xbb\xbfb",
              b"20 text/plain; charset=utf-16\r\n\xff\xfeh\x00i\x00"]
    streams = short + [gen_stream(rng) for _ in range(120 if tier == "quick" else 1500)]
    cases = []
    for s in streams:
        for chunks in segmentations(s, rng, tier):
            cases.append((s, chunks, None))
        # close / reset after every prefix (delivered in one piece)
        step = 1 if len(s) <= 40 else max(1, len(s) // 25)
        for i in range(0, len(s) + 1, step):
            cases.append((s[:i], [s[:i]] if i else [], None))
            cases.append((s[:i], [s[:i]] if i else [], "ConnectionResetError"))
    # raw mode (decode_bodies=False, what the reverse proxy uses): the body must come back as the bytes received, whatever the
    # media type and charset say - every fourth case, and every case of the short / corpus streams delivered whole
    short_set = set(short)
    modes = [not (i % 4 == 3 or (len(c[1]) == 1 and c[2] is None and c[0] in short_set and i % 2 == 1)) for i, c in enumerate(cases)]
    async def go():
        out = []
        for (stream, chunks, exc), decode_body in zip(cases, modes):
            out.append(await cd.replay("gemini", ["gemini://h/"], decode_body, chunks, exc))
        return out
    impl = asyncio.run(go())
    mcases, iobs, mon = [], [], []
    for (stream, chunks, exc), (fo, per_event, events, delivered), decode_body in zip(cases, impl, modes):
        header = stream.split(b"\r\n", 1)[0]
        try: meta = header.decode("utf-8").partition(" ")[2]
        except UnicodeDecodeError: meta = ""
        body_full = stream.split(b"\r\n", 1)[1] if b"\r\n" in stream else b""
        bodies = {body_full}
        db = delivered.split(b"\r\n", 1)[1] if b"\r\n" in delivered else b""
        bodies.add(db)
        table = cd.decode_table(meta, sorted(bodies))
        mcases.append(("client", enc([[b"gemini://h/\r\n"], True, decode_body, cd.CAP, table, events])))
        iobs.append(enc([fo, per_event]))
        mon.append(("C13.ok", enc([decode_body, cd.CAP, table, stream, [exc] if exc else [], fo])))
        res.count("mode:" + ("decoded" if decode_body else "raw"))
        res.evaluations += 1
        res.count("outcome:" + (fo[0] if fo[0] != "err" else "err:" + fo[1]))
        res.nontriv((stream, tuple(chunks), exc))
    for i in (0, len(cases) // 3, len(cases) - 1):
        res.sample({"stream": {"hex": cases[i][0].hex()}, "chunks": [c.hex() for c in cases[i][1]], "ending": cases[i][2] or "close", "outcome": impl[i][0]})
    out = run_model_parallel(mcases)
    compare(res, "client", list(range(len(cases))), iobs, out,
            describe=lambda i: {"stream": {"hex": cases[i][0].hex()}, "chunks": [c.hex() for c in cases[i][1]], "ending": cases[i][2] or "close"})
    mo = run_model_parallel(mon)
    for (stream, chunks, exc), (fo, *_), m in zip(cases, impl, mo):
        if m != enc(True):
            res.violations.append({"clause": "whole-stream-spec", "signature": "C13:" + (fo[0] if fo[0] != "err" else fo[1]),
                                   "case": {"stream": {"hex": stream.hex()}, "chunks": [c.hex() for c in chunks], "ending": exc or "close"},
                                   "trace": {"outcome": fo}})
    session_stall_cases(res)
    res.rule += " | plus, through GeminiClient (get / upload / delete, TOFU on and off): a server that stops at every kind of offset of its response and keeps the connection open, and a connection attempt that never completes - cut off at the client's timeout"
    import nauyaca.protocol.constants as k
    if k.MAX_RESPONSE_BODY_SIZE != 10 * 1024 * 1024:
        res.disagreements.append({"driver": "client:cap-constant", "case": "MAX_RESPONSE_BODY_SIZE", "model": 10 * 1024 * 1024, "impl": k.MAX_RESPONSE_BODY_SIZE})
    return res


def session_stall_cases(res):
    """ "A server that never finishes is cut off at the timeout": the timeout lives in the session (client/session.py), not in the
    protocol objects.  GeminiClient(timeout=0.4) against a peer that delivers a prefix of its response and then says nothing while
    keeping the connection open, for get, upload and delete, with and without TOFU; and a connect that never completes.  Every call
    must end by itself (we wait ten times the timeout) with a timeout error."""
    import asyncio, certs as certmod
    from pathlib import Path
    from nauyaca.client.session import GeminiClient
    cs = certmod.certs()
    full = b"20 text/gemini\r\n# stored\n"
    tmp = scratch_dir("nv-c13s-")
    async def one(op, tofu, offset):
        loop = asyncio.get_running_loop()
        async def fake_cc(factory, host=None, port=None, ssl=None, server_hostname=None, **kw):
            if offset is None:
                await asyncio.Event().wait()          # the connection attempt itself never completes
            proto = factory()
            class T(cd.RecTransport):
                def get_extra_info(self_, name, default=None):
                    if name == "ssl_object":
                        class S:
                            def getpeercert(self, binary_form=False): return cs[0]["der"]
                        return S()
                    return default
            tr = T([])
            proto.connection_made(tr)
            if offset: loop.call_soon(lambda: None if tr.closed else proto.data_received(full[:offset]))
            return tr, proto
        client = GeminiClient(timeout=0.4, trust_on_first_use=tofu, tofu_db_path=(Path(tmp) / ("s-%s-%s-%s.db" % (op, tofu, offset))) if tofu else None)
        loop.create_connection = fake_cc
        t0 = loop.time()
        try:
            if op == "get": call = client.get("gemini://stall.example/x", follow_redirects=False)
            elif op == "upload": call = client.upload("gemini://stall.example/x", b"content", mime_type="text/plain", token="t")
            else: call = client.delete("gemini://stall.example/x", token="t")
            try:
                r = await asyncio.wait_for(call, 4.0)
                out = ["returned", getattr(r, "status", None)]
            except asyncio.TimeoutError as e:
                # asyncio.TimeoutError IS TimeoutError: told apart by who raised it - our outer guard fires at 4 s only
                out = ["timeout-error"] if loop.time() - t0 < 3.5 else ["still-waiting-after-4s"]
            except Exception as e:
                out = ["error", type(e).__name__]
        finally:
            del loop.create_connection
        return out, round(loop.time() - t0, 2)
    try:
        async def go():
            outs = []
            for op in ("get", "upload", "delete"):
                for tofu in (False, True):
                    for offset in (None, 0, 5, 16, len(full)):
                        outs.append((op, tofu, offset, await one(op, tofu, offset)))
            return outs
        for op, tofu, offset, (out, took) in asyncio.run(go()):
            res.evaluations += 1; res.count("session-stall:" + op); res.nontriv(("session-stall", op, tofu, offset))
            if out != ["timeout-error"]:
                res.violations.append({"clause": "a server that never finishes is cut off at the timeout (through GeminiClient.%s)" % op, "signature": "C13:session-stall:" + op,
                                       "case": {"operation": op, "trust_on_first_use": tofu, "client_timeout_s": 0.4,
                                                "server": "the connection attempt never completes" if offset is None else "sends %d bytes of %r, then nothing; the connection stays open" % (offset, full.decode("latin-1"))},
                                       "trace": {"outcome": out, "after_s": took}})
    finally:
        shutil.rmtree(tmp, ignore_errors=True)
