"""Independent text -> integer parsing of IPv4/IPv6 addresses and CIDR networks (no `ipaddress`):
the model's oracle for C09.  Accepts exactly the plain forms the generators produce."""
import re

def parse_v4(s):
    parts = s.split(".")
    if len(parts) != 4: return None
    v = 0
    for p in parts:
        if not p.isascii() or not p.isdigit() or len(p) > 3: return None
        if len(p) > 1 and p[0] == "0": return None      # ipaddress rejects leading zeros (3.9.5+)
        n = int(p)
        if n > 255: return None
        v = v * 256 + n
    return v

def parse_v6(s):
    if "%" in s:
        s, _, zone = s.partition("%")
        if not zone or "%" in zone: return None
    if s.count("::") > 1 or ":::" in s: return None
    if "." in s:
        head, _, tail = s.rpartition(":")
        v4 = parse_v4(tail)
        if v4 is None: return None
        s = head + ":%x:%x" % (v4 >> 16, v4 & 0xffff)
    def groups(t):
        if t == "": return []
        gs = t.split(":")
        for g in gs:
            if not (1 <= len(g) <= 4) or not all(c in "0123456789abcdefABCDEF" for c in g): return None
        return [int(g, 16) for g in gs]
    if "::" in s:
        a, b = s.split("::")
        ga, gb = groups(a), groups(b)
        if ga is None or gb is None or len(ga) + len(gb) > 7: return None
        gs = ga + [0] * (8 - len(ga) - len(gb)) + gb
    else:
        gs = groups(s)
        if gs is None or len(gs) != 8: return None
    v = 0
    for g in gs: v = v * 65536 + g
    return v

def parse_addr(s):
    """-> ('4'|'6', int) or None"""
    v = parse_v4(s)
    if v is not None: return ("4", v)
    v = parse_v6(s)
    if v is not None: return ("6", v)
    return None

def parse_net(s):
    """strict ip_network(s): -> ('4'|'6', base, plen) or None (host bits set / bad text)"""
    if s.count("/") > 1: return None
    a, sep, p = s.partition("/")
    ad = parse_addr(a)
    if ad is None: return None
    bits = 32 if ad[0] == "4" else 128
    if sep:
        if not (p.isascii() and p.isdigit()): return None
        plen = int(p)
        if plen > bits: return None
    else:
        plen = bits
    if ad[1] & ((1 << (bits - plen)) - 1): return None
    return (ad[0], ad[1], plen)
