"""C15 (request phase): no stuck state, timeout response, no timer once a request is complete."""
from servercheck import *

def run(tier, seed):
    res, _, _ = run_server_property(
        "C15", ["C15.ok"], tier, seed,
        nontrivial=lambda c, e, o: any(x[0] == "timer" for x in e),
        rule="non-trivial = distinct schedule containing a timer expiry | plus the PyOpenSSL handshake phase: stall after 0, 1, 2 client flights and after completion")
    import tlsextra
    tlsextra.handshake_timer_cases(res)
    tlsextra.silent_after_handshake_cases(res)
    tlsextra.complete_request_in_records_cases(res)
    res.rule += " and a peer that goes silent after the handshake (nothing / partial line / partial upload body) and never answers close_notify; and a complete request arriving as several TLS records in one TCP read (answered, no timer left)"
    return res
