"""Concrete witnesses of the defects found in alanbato/nauyaca @04baf9d.  Each function returns
True when the defect is PRESENT in /repo's working tree.  Used to demonstrate the defect before a
`fix:` commit and as a regression corpus afterwards (python3 /verif/witness/defects.py [id ...])."""
import sys, os, asyncio, tempfile, shutil
sys.path.insert(0, "/repo/src")
sys.path.insert(0, os.path.join(os.path.dirname(os.path.abspath(__file__)), "..", "harness"))
import logging; logging.disable(logging.CRITICAL)
import nauyaca.protocol  # noqa

W = {}
def witness(f):
    W[f.__name__] = f; return f

@witness
def C19_brackets_lost():
    from nauyaca.utils.url import parse_url
    p = parse_url("gemini://[::1]/")
    try:
        q = parse_url(p.normalized)
        return (q.hostname, q.port, q.path) != (p.hostname, p.port, p.path)
    except ValueError:
        return True

@witness
def C16_off_by_one():
    """A loop-free chain of exactly max_redirects redirects must be followed."""
    from nauyaca.client.session import GeminiClient
    from nauyaca.protocol.response import GeminiResponse
    c = GeminiClient(max_redirects=2, trust_on_first_use=False)
    table = {"gemini://h/0": GeminiResponse(30, "gemini://h/1"), "gemini://h/1": GeminiResponse(30, "gemini://h/2"),
             "gemini://h/2": GeminiResponse(20, "text/gemini", "done")}
    async def single(url): return table[url]
    c._get_single = single
    try:
        r = asyncio.run(c.get("gemini://h/0"))
        return r.status != 20
    except ValueError:
        return True

@witness
def C10_cleanup_grants_allowance():
    import types, nauyaca.server.middleware as mw
    clock = types.SimpleNamespace(t=0.0)
    real_time = mw.time
    mw.time = types.SimpleNamespace(monotonic=lambda: clock.t)
    try:
        rl = mw.RateLimiter(mw.RateLimitConfig(capacity=1, refill_rate=1 / 1024, retry_after=30))
        async def go():
            admitted = 0
            ok, _ = await rl.process_request("gemini://h/", "1.2.3.4"); admitted += ok
            # run one clean-up pass at t=900 exactly as _cleanup_loop does
            clock.t = 900.0
            real_sleep = asyncio.sleep
            calls = {"n": 0}
            async def fake_sleep(d):
                calls["n"] += 1
                if calls["n"] > 1: raise asyncio.CancelledError()
            mw.asyncio.sleep = fake_sleep
            try:
                await rl._cleanup_loop()
            except asyncio.CancelledError:
                pass
            finally:
                mw.asyncio.sleep = real_sleep
            clock.t = 901.0
            ok, _ = await rl.process_request("gemini://h/", "1.2.3.4"); admitted += ok
            return admitted
        return asyncio.run(go()) > 1   # capacity 1 + 901/1024 < 2
    finally:
        mw.time = real_time

@witness
def C09_default_deny_dropped():
    from nauyaca.server.config import ServerConfig
    d = tempfile.mkdtemp(dir="/var/tmp")
    try:
        sc = ServerConfig(document_root=d, access_control_default_allow=False)
        return sc.get_access_control_config() is None   # None => no AccessControl component => everyone admitted
    finally:
        shutil.rmtree(d)


# ---------------------------------------------------------------- server protocol witnesses
class FakeTransport:
    def __init__(self, peer=("192.0.2.1", 5555)):
        self.writes = []; self.closed = False; self.post_close_writes = []; self.peer = peer
    def write(self, b):
        (self.post_close_writes if self.closed else self.writes).append(bytes(b))
    def close(self): self.closed = True
    def is_closing(self): return self.closed
    def get_extra_info(self, name, default=None):
        return self.peer if name == "peername" else default
    def wire(self): return b"".join(self.writes)

def _drive(handler, chunks, middleware=None, upload=None, settle=3):
    from nauyaca.server.protocol import GeminiServerProtocol
    async def go():
        p = GeminiServerProtocol(handler, middleware, upload)
        t = FakeTransport(); p.connection_made(t)
        err = None
        try:
            for c in chunks:
                p.data_received(c)
                for _ in range(settle): await asyncio.sleep(0)
        except Exception as e:
            err = e
        for _ in range(settle): await asyncio.sleep(0)
        if p.timeout_handle: p.timeout_handle.cancel()
        return t, p, err
    return asyncio.run(go())

def _wellformed(wire):
    """one header line `dd meta\\r\\n`, status 10..69, meta <=1024 bytes w/o CR LF, body only for 2x"""
    i = wire.find(b"\r\n")
    if i < 0: return False
    h, body = wire[:i], wire[i + 2:]
    if len(h) < 3 or not h[:2].isdigit() or h[2:3] != b" ": return False
    st, meta = int(h[:2]), h[3:]
    if not 10 <= st <= 69 or b"\n" in meta or b"\r" in meta or len(meta) > 1024: return False
    return st // 10 == 2 or body == b""

@witness
def C01_bare_lf_in_meta():
    from nauyaca.protocol.response import GeminiResponse
    t, p, err = _drive(lambda r: GeminiResponse(20, "text/plain", "x"), [b"foo\nbar\r\n"])
    return not _wellformed(t.wire())

@witness
def C01_body_after_non2x():
    from nauyaca.protocol.response import GeminiResponse
    t, p, err = _drive(lambda r: GeminiResponse(51, "text/gemini", "# not found"), [b"gemini://h/\r\n"])
    return not _wellformed(t.wire())

@witness
def C01_bad_status_and_long_meta():
    from nauyaca.protocol.response import GeminiResponse
    t1, _, _ = _drive(lambda r: GeminiResponse(99, "x"), [b"gemini://h/\r\n"])
    t2, _, _ = _drive(lambda r: GeminiResponse(20, "a" * 2000, "b"), [b"gemini://h/\r\n"])
    return not _wellformed(t1.wire()) or not _wellformed(t2.wire())

@witness
def C01_half_response_on_unencodable_body():
    from nauyaca.protocol.response import GeminiResponse
    async def h(r): return GeminiResponse(20, "text/gemini", "=> /\udcff name")
    t, p, err = _drive(lambda r: h(r), [b"gemini://h/\r\n"])
    w = t.wire()
    return w.count(b"\r\n") > 1 and w.startswith(b"20 ") and b"40 " in w or not t.closed or err is not None

@witness
def C01_C15_middleware_deny_without_text_hangs():
    from nauyaca.protocol.response import GeminiResponse
    class MW:
        async def process_request(self, url, ip, fp=None): return False, None
    t, p, err = _drive(lambda r: GeminiResponse(20, "text/plain", "x"), [b"gemini://h/\r\n"], middleware=MW())
    return t.wire() == b"" and not t.closed and p.timeout_handle is None

@witness
def C07_titan_redispatch():
    from nauyaca.protocol.response import GeminiResponse
    calls = []
    class Up:
        async def handle_upload(self, req):
            calls.append(req.content); await asyncio.sleep(0); await asyncio.sleep(0); await asyncio.sleep(0); await asyncio.sleep(0)
            return GeminiResponse(20, "text/gemini", "ok")
    t, p, err = _drive(lambda r: GeminiResponse(20, "text/plain", "x"), [b"titan://h/f;size=3\r\nabc", b"x", b"y"], upload=Up(), settle=1)
    return len(calls) > 1

@witness
def C04_titan_bypasses_middleware():
    from nauyaca.protocol.response import GeminiResponse
    calls = []
    class Up:
        async def handle_upload(self, req):
            calls.append(req.content); return GeminiResponse(20, "text/gemini", "ok")
    class DenyAll:
        async def process_request(self, url, ip, fp=None): return False, "53 Access denied\r\n"
    t, p, err = _drive(lambda r: GeminiResponse(20, "text/plain", "x"), [b"titan://h/f;size=3\r\nabc"], middleware=DenyAll(), upload=Up())
    return len(calls) > 0

# ---------------------------------------------------------------- filesystem handlers
def _tree():
    d = tempfile.mkdtemp(dir="/var/tmp", prefix="nvw-")
    root = os.path.join(d, "root"); os.makedirs(os.path.join(root, "sub")); os.makedirs(os.path.join(root, "admin"))
    open(os.path.join(d, "outside.txt"), "w").write("OUTSIDE-SECRET")
    open(os.path.join(root, "a b.gmi"), "w").write("SPACE-FILE")
    open(os.path.join(root, "admin", "index.gmi"), "w").write("ADMIN-INDEX")
    open(os.path.join(root, "admin", "secret.gmi"), "w").write("ADMIN-SECRET")
    os.symlink(os.path.join(d, "outside.txt"), os.path.join(root, "sub", "index.gmi"))
    return d, root

def _static(root, line):
    from nauyaca.server.handler import StaticFileHandler
    from nauyaca.protocol.request import GeminiRequest
    return StaticFileHandler(root).handle(GeminiRequest.from_line(line))

@witness
def C02_index_symlink_escapes():
    d, root = _tree()
    try:
        r = _static(root, "gemini://h/sub/")
        return r.status == 20 and "OUTSIDE-SECRET" in (r.body or "")
    finally: shutil.rmtree(d)

@witness
def C02_percent_encoded_name_unreachable():
    d, root = _tree()
    try:
        return _static(root, "gemini://h/a%20b.gmi").status != 20
    finally: shutil.rmtree(d)

def _cert_auth_decision(rules, url, fp=None):
    from nauyaca.server.middleware import CertificateAuth, CertificateAuthConfig
    ca = CertificateAuth(CertificateAuthConfig(path_rules=rules))
    return asyncio.run(ca.process_request(url, "1.2.3.4", fp))

@witness
def C05_path_spelling_bypasses_rule():
    from nauyaca.server.middleware import CertificateAuthPathRule
    rules = [CertificateAuthPathRule(prefix="/admin/", require_cert=True)]
    d, root = _tree()
    try:
        bad = []
        for url in ["gemini://h//admin/secret.gmi", "gemini://h/admin", "gemini://h/sub/../admin/secret.gmi"]:
            allowed, _ = _cert_auth_decision(rules, url)
            served = _static(root, url)
            if allowed and served.status == 20 and "ADMIN" in (served.body or ""):
                bad.append(url)
        return bool(bad)
    finally: shutil.rmtree(d)

@witness
def C05_empty_allow_list_from_toml_admits_everyone():
    from nauyaca.server.config import ServerConfig
    d = tempfile.mkdtemp(dir="/var/tmp")
    try:
        sc = ServerConfig(document_root=d, certificate_auth_paths=[{"prefix": "/admin/", "allowed_fingerprints": []}])
        rules = sc.get_certificate_auth_config().path_rules
        allowed, _ = _cert_auth_decision(rules, "gemini://h/admin/x", "sha256:" + "0" * 64)
        return allowed
    finally: shutil.rmtree(d)

@witness
def C14_failed_write_truncates_existing_file():
    from nauyaca.server.handler import FileUploadHandler
    from nauyaca.protocol.request import TitanRequest
    from pathlib import Path
    d = tempfile.mkdtemp(dir="/var/tmp")
    try:
        up = os.path.join(d, "up"); os.makedirs(up)
        target = os.path.join(up, "f.txt"); open(target, "w").write("ORIGINAL")
        h = FileUploadHandler(up)
        req = TitanRequest.from_line("titan://h/f.txt;size=6"); req.content = b"NEWNEW"
        import builtins, io
        real_open = builtins.open
        class Failing(io.RawIOBase):
            def __init__(self, f): self.f = f
            def writable(self): return True
            def write(self, b):
                self.f.write(b[:2]); self.f.flush(); raise OSError(28, "No space left on device")
            def close(self):
                try: self.f.close()
                finally: super().close()
        def fake_open(file, mode="r", *a, **k):
            f = real_open(file, mode, *a, **k)
            if "w" in mode and "b" in mode and (str(file).startswith(up)): return Failing(f)
            return f
        builtins.open = fake_open
        import pathlib, io as _io
        real_io_open = _io.open
        _io.open = fake_open
        try:
            r = asyncio.run(h.handle_upload(req))
        finally:
            builtins.open = real_open; _io.open = real_io_open
        after = real_open(target).read() if os.path.exists(target) else None
        return r.status != 20 and after != "ORIGINAL"
    finally: shutil.rmtree(d)

# ---------------------------------------------------------------- client side
def _client_proto(chunks, exc=None):
    from nauyaca.client.protocol import GeminiClientProtocol
    async def go():
        loop = asyncio.get_running_loop(); fut = loop.create_future()
        p = GeminiClientProtocol("gemini://h/", fut)
        class T:
            closed = False
            def write(self, b): pass
            def close(self): self.closed = True
            def get_extra_info(self, *a, **k): return None
        tr = T(); p.connection_made(tr)
        err = None
        try:
            for c in chunks:
                if tr.closed: break          # a closed transport delivers no further reads
                p.data_received(c)
            p.connection_lost(exc)
        except Exception as e:
            err = e
        if not fut.done(): return ("pending", err)
        if fut.exception(): return ("exception", fut.exception())
        return ("result", fut.result())
    return asyncio.run(go())

@witness
def C13_unknown_charset_leaves_future_pending():
    kind, x = _client_proto([b"20 text/plain; charset=bogus-charset\r\nhello"])
    return kind == "pending"

@witness
def C13_oversized_header_depends_on_segmentation():
    big = b"20 " + b"a" * (10 * 1024 * 1024 + 10) + b"\r\nbody"
    one = _client_proto([big])
    two = _client_proto([big[:-9], big[-9:]])
    return one[0] != two[0]

@witness
def C03_unreadable_certificate_treated_as_unpinned():
    """TOFU on, peer certificate cannot be read: the call must be refused; today it proceeds and pins nothing."""
    from nauyaca.client.session import GeminiClient
    import nauyaca.client.session as sess
    d = tempfile.mkdtemp(dir="/var/tmp")
    try:
        from pathlib import Path
        c = GeminiClient(tofu_db_path=Path(d) / "t.db", timeout=2)
        async def go():
            loop = asyncio.get_running_loop()
            async def fake_cc(factory, host=None, port=None, ssl=None, server_hostname=None, **kw):
                proto = factory()
                class T:
                    def write(self, b): pass
                    def close(self): pass
                    def is_closing(self): return False
                    def get_extra_info(self, name, default=None):
                        class S:   # a TLS object whose certificate cannot be parsed
                            def getpeercert(self, binary_form=False): return b"\x30\x03\x01\x01\x07"
                        return S() if name == "ssl_object" else default
                proto.connection_made(T())
                loop.call_soon(lambda: (proto.data_received(b"20 text/plain\r\nsecret"), proto.connection_lost(None)))
                return T(), proto
            loop.create_connection = fake_cc
            try:
                r = await c.get("gemini://victim.example/")
                return r.status == 20
            except Exception:
                return False
            finally:
                del loop.create_connection
        return asyncio.run(go())
    finally: shutil.rmtree(d)

@witness
def C06_large_body_truncated_on_pyopenssl_backend():
    """A 20000-byte body through TLSServerProtocol/TLSTransportWrapper: the client must receive all of it."""
    import tlsmem
    from nauyaca.server.protocol import GeminiServerProtocol
    from nauyaca.protocol.response import GeminiResponse
    body = bytes(range(256)) * 80   # 20480 bytes
    async def go():
        pair = tlsmem.Pair(lambda: GeminiServerProtocol(lambda req: GeminiResponse(20, "application/octet-stream", body)))
        pair.handshake()
        pair.client_send(b"gemini://localhost/\r\n"); pair.to_server()
        got = pair.client_read_all()
        if pair.server.inner_protocol and pair.server.inner_protocol.timeout_handle:
            pair.server.inner_protocol.timeout_handle.cancel()
        return got
    got = asyncio.run(go())
    return got != b"20 application/octet-stream\r\n" + body

@witness
def C12_failed_replace_import_empties_store():
    from nauyaca.security.tofu import TOFUDatabase
    from pathlib import Path
    import sqlite3
    d = tempfile.mkdtemp(dir="/var/tmp")
    try:
        db = TOFUDatabase(Path(d) / "t.db")
        con = sqlite3.connect(str(Path(d) / "t.db"))
        con.execute("INSERT INTO known_hosts VALUES ('keep.example', 1965, 'sha256:" + "a" * 64 + "', 't0', 't0')"); con.commit(); con.close()
        bad = Path(d) / "bad.toml"
        bad.write_text('[hosts."x.example:1965"]\nhostname = "x.example"\nport = 1965\nfingerprint = "not-a-fingerprint"\nfirst_seen = "t"\nlast_seen = "t"\n')
        try:
            db.import_toml(bad, merge=False)
            return True       # a malformed file must not import
        except ValueError:
            pass
        return len(db.list_hosts()) != 1
    finally: shutil.rmtree(d)

@witness
def C15_no_timer_during_pyopenssl_handshake():
    """A peer that connects to the PyOpenSSL-backed server and stays silent (or stops mid-handshake) must be
    disconnected by a timer; before the fix no timer exists until the handshake has completed."""
    import tlsmem
    from nauyaca.server.protocol import GeminiServerProtocol
    from nauyaca.protocol.response import GeminiResponse
    async def go():
        loop = asyncio.get_running_loop()
        timers = []
        real = loop.call_later
        def spy(delay, cb, *a, **k):
            h = real(delay, cb, *a, **k); timers.append((delay, h)); return h
        loop.call_later = spy
        try:
            pair = tlsmem.Pair(lambda: GeminiServerProtocol(lambda r: GeminiResponse(20, "text/plain", "x")))
            # the client sends only its ClientHello and then goes silent
            try: pair.client.do_handshake()
            except Exception: pass
            pair.to_server()
            armed = [t for t in timers if not t[1].cancelled()]
            if not armed: return True
            # fire it: the TCP connection must get closed
            for d, h in armed: h._run()
            closed = pair.tcp.closed
            for d, h in timers: h.cancel()
            return not closed
        finally:
            del loop.call_later
    return asyncio.run(go())

class _RecTransport:
    def __init__(self): self.written = []; self.closed = False
    def write(self, b): self.written.append(bytes(b))
    def close(self): self.closed = True
    def is_closing(self): return self.closed
    def get_extra_info(self, name, default=None): return default

def _proxy_relay(upstream_bytes):
    """Real ProxyHandler + real GeminiClient (create_connection replaced) behind a real GeminiServerProtocol."""
    from nauyaca.server.proxy import ProxyHandler
    from nauyaca.server.protocol import GeminiServerProtocol
    async def go():
        loop = asyncio.get_running_loop()
        async def fake_cc(factory, host=None, port=None, ssl=None, server_hostname=None, **kw):
            proto = factory(); tr = _RecTransport(); proto.connection_made(tr)
            def fin():
                try: proto.data_received(upstream_bytes); proto.connection_lost(None)
                except Exception as e: proto.connection_lost(e)
            loop.call_soon(fin)
            return tr, proto
        loop.create_connection = fake_cc
        try:
            h = ProxyHandler("gemini://up.example", prefix="/", strip_prefix=False, timeout=2)
            p = GeminiServerProtocol(h.handle); t = FakeTransport(); p.connection_made(t)
            p.data_received(b"gemini://front.example/x\r\n")
            for _ in range(20): await asyncio.sleep(0)
            if p.timeout_handle: p.timeout_handle.cancel()
            return t.wire()
        finally:
            del loop.create_connection
    return asyncio.run(go())

@witness
def C18_non_utf8_text_body_reencoded():
    up = b"20 text/plain; charset=iso-8859-1\r\ncaf\xe9"
    return _proxy_relay(up) != up

@witness
def C18_malformed_upstream_header_relayed():
    """bare LF in the meta, or a status spelled '+20', are malformed: the proxy must answer 43"""
    a = _proxy_relay(b"20 text/plain\nX-Injected: 1\r\nbody")
    b = _proxy_relay(b"+20 text/plain\r\nbody")
    return not a.startswith(b"43 ") or not b.startswith(b"43 ")

@witness
def C11_request_sent_before_pin_check():
    """Pinned host presents a different certificate: the impostor must not receive the request line."""
    from nauyaca.client.session import GeminiClient
    from nauyaca.security.tofu import TOFUDatabase, CertificateChangedError
    from nauyaca.security.certificates import generate_self_signed_cert
    from cryptography import x509
    from cryptography.hazmat.primitives import serialization
    from pathlib import Path
    d = tempfile.mkdtemp(dir="/var/tmp")
    try:
        pem_a, _ = generate_self_signed_cert(hostname="a", key_size=2048, valid_days=3)
        pem_b, _ = generate_self_signed_cert(hostname="b", key_size=2048, valid_days=3)
        cert_a = x509.load_pem_x509_certificate(pem_a); cert_b = x509.load_pem_x509_certificate(pem_b)
        db = TOFUDatabase(Path(d) / "t.db"); db.trust("victim.example", 1965, cert_a)
        c = GeminiClient(tofu_db_path=Path(d) / "t.db", timeout=2)
        seen = []
        async def go():
            loop = asyncio.get_running_loop()
            async def fake_cc(factory, host=None, port=None, ssl=None, server_hostname=None, **kw):
                proto = factory(); tr = _RecTransport()
                der = cert_b.public_bytes(serialization.Encoding.DER)
                class S:
                    def getpeercert(self, binary_form=False): return der
                tr.get_extra_info = lambda name, default=None: S() if name == "ssl_object" else default
                seen.append(tr)
                proto.connection_made(tr)
                return tr, proto
            loop.create_connection = fake_cc
            try:
                await c.get("gemini://victim.example/secret?token=abc")
                return "accepted"
            except CertificateChangedError:
                return "changed"
            finally:
                del loop.create_connection
        r = asyncio.run(go())
        return r != "changed" or any(t.written for t in seen)
    finally: shutil.rmtree(d)

@witness
def C13_trailing_bytes_after_non2x_depend_on_segmentation():
    tail = b"x" * (10 * 1024 * 1024 + 1)
    one = _client_proto([b"51 Not found\r\n" + tail])
    two = _client_proto([b"51 Not found\r\n", tail])
    return one[0] != two[0]

@witness
def C02_symlink_loop_defeats_containment():
    """Path.resolve() (non-strict) gives up at a symlink loop and returns a lexically normalised, partly
    unresolved path: /loop/../out/secret.txt passes the containment test although `out` points outside."""
    d = tempfile.mkdtemp(dir="/var/tmp", prefix="nvw-")
    try:
        root = os.path.join(d, "root"); os.makedirs(root); os.makedirs(os.path.join(d, "outside"))
        open(os.path.join(d, "outside", "secret.txt"), "w").write("OUTSIDE-SECRET")
        os.symlink("loop", os.path.join(root, "loop")); os.symlink("../outside", os.path.join(root, "out"))
        try:
            r = _static(root, "gemini://h/loop/../out/secret.txt")
            return r.status == 20 and "OUTSIDE-SECRET" in (r.body or "")
        except Exception:
            return False
    finally: shutil.rmtree(d)

@witness
def C14_symlink_loop_defeats_upload_containment():
    from nauyaca.server.handler import FileUploadHandler
    from nauyaca.protocol.request import TitanRequest
    d = tempfile.mkdtemp(dir="/var/tmp", prefix="nvw-")
    try:
        up = os.path.join(d, "up"); os.makedirs(up); os.makedirs(os.path.join(d, "outside"))
        os.symlink("loop", os.path.join(up, "loop")); os.symlink("../outside", os.path.join(up, "out"))
        h = FileUploadHandler(up)
        req = TitanRequest.from_line("titan://h/loop/../out/planted.txt;size=3"); req.content = b"abc"
        try: asyncio.run(h.handle_upload(req))
        except Exception: pass
        return os.path.exists(os.path.join(d, "outside", "planted.txt"))
    finally: shutil.rmtree(d)

@witness
def C05_rule_on_index_file_bypassed_by_directory_url():
    from nauyaca.server.middleware import CertificateAuthPathRule
    rules = [CertificateAuthPathRule(prefix="/admin/index.gmi", require_cert=True)]
    d, root = _tree()
    try:
        allowed, _ = _cert_auth_decision(rules, "gemini://h/admin/")
        served = _static(root, "gemini://h/admin/")
        return allowed and served.status == 20 and "ADMIN-INDEX" in (served.body or "")
    finally: shutil.rmtree(d)

@witness
def C05_file_named_like_a_rule_directory_gets_the_wrong_rule():
    """rules [(/admin/, public), (/, cert required)] and a regular FILE called 'admin' in the root: its own
    location /admin is covered only by the catch-all rule, so it must not be delivered without a certificate."""
    from nauyaca.server.middleware import CertificateAuthPathRule
    rules = [CertificateAuthPathRule(prefix="/pubdir/", require_cert=False), CertificateAuthPathRule(prefix="/", require_cert=True)]
    d = tempfile.mkdtemp(dir="/var/tmp", prefix="nvw-")
    try:
        root = os.path.join(d, "root"); os.makedirs(root); open(os.path.join(root, "pubdir"), "w").write("FILE-NAMED-PUBDIR")
        allowed, _ = _cert_auth_decision(rules, "gemini://h/pubdir")
        served = _static(root, "gemini://h/pubdir")
        return allowed and served.status == 20 and "FILE-NAMED-PUBDIR" in (served.body or "")
    finally: shutil.rmtree(d)

@witness
def C05_climbing_out_of_and_back_into_the_root_bypasses_rules():
    """document root directory is called 'root': /../root/admin/secret.gmi is served by the handler (the resolved
    path is inside the root) while the middleware canonicalises it to /root/admin/secret.gmi, which no rule covers."""
    from nauyaca.server.middleware import CertificateAuthPathRule
    rules = [CertificateAuthPathRule(prefix="/admin/", require_cert=True)]
    d, root = _tree()
    try:
        url = "gemini://h/../root/admin/secret.gmi"
        allowed, _ = _cert_auth_decision(rules, url)
        served = _static(root, url)
        return allowed and served.status == 20 and "ADMIN-SECRET" in (served.body or "")
    finally: shutil.rmtree(d)

@witness
def C19_normalized_request_line_exceeds_the_limit():
    """A 1022-byte URL without a path passes validate_url, but its normalized form (trailing '/' added) is 1023 bytes:
    the client puts a 1025-byte request on the wire, which every server must refuse."""
    from nauyaca.client.session import GeminiClient
    url = "gemini://" + "a" * (1022 - len("gemini://"))
    c = GeminiClient(trust_on_first_use=False, timeout=1)
    sent = []
    async def go():
        loop = asyncio.get_running_loop()
        async def fake_cc(factory, host=None, port=None, ssl=None, server_hostname=None, **kw):
            proto = factory(); tr = _RecTransport(); proto.connection_made(tr); sent.append(b"".join(tr.written))
            loop.call_soon(lambda: (proto.data_received(b"59 too long\r\n"), proto.connection_lost(None)))
            return tr, proto
        loop.create_connection = fake_cc
        try:
            await c.get(url)
        except ValueError:
            return "refused-by-client"
        finally:
            del loop.create_connection
        return "sent"
    r = asyncio.run(go())
    return r == "sent" and len(sent[0]) > 1024

@witness
def C14_failed_upload_deletes_a_file_it_did_not_create():
    """A file that happens to carry the temporary name of an upload (".<name>.<16 hex>.tmp") makes the upload fail - and the
    clean-up of the failed upload must not delete that file (found by the Gen = Model proof of the upload handler)."""
    from nauyaca.server import handler as H
    from nauyaca.protocol.request import TitanRequest
    d = tempfile.mkdtemp(dir="/var/tmp", prefix="nvw-")
    saved = H.secrets.token_hex
    try:
        up = os.path.join(d, "up"); os.makedirs(up)
        H.secrets.token_hex = lambda n=None: "00112233aabbccdd"
        foreign = os.path.join(up, ".note.gmi.00112233aabbccdd.tmp")
        open(foreign, "wb").write(b"someone else's data")
        h = H.FileUploadHandler(up)
        req = TitanRequest.from_line("titan://h/note.gmi;size=3"); req.content = b"abc"
        try: r = asyncio.run(h.handle_upload(req)); status = r.status
        except Exception: status = None
        gone = not os.path.exists(foreign) or open(foreign, "rb").read() != b"someone else's data"
        return status != 20 and gone
    finally:
        H.secrets.token_hex = saved
        shutil.rmtree(d)

@witness
def C01_upload_handler_fails_before_returning_an_awaitable():
    """An upload handler whose call raises (or that hands back a response object instead of a coroutine) must still be answered
    with one response and a close: before 091b306 only RuntimeError was caught around the call; with a middleware chain the
    exception ended in a done-callback and the connection stayed open for ever, without one it escaped from data_received."""
    from nauyaca.server.protocol import GeminiServerProtocol
    from nauyaca.protocol.response import GeminiResponse
    class T:
        def __init__(self): self.out = b""; self.closed = False
        def write(self, b): self.out += bytes(b)
        def close(self): self.closed = True
        def is_closing(self): return self.closed
        def get_extra_info(self, name, default=None): return ("192.0.2.1", 5) if name == "peername" else default
    class Allow:
        async def process_request(self, url, ip, fp=None): return True, None
    class Raises:
        def handle_upload(self, request): raise ValueError("cannot store")
    class Returns:
        def handle_upload(self, request): return GeminiResponse(20, "text/gemini", "stored")
    async def one(up, mw):
        loop = asyncio.get_running_loop(); loop.set_exception_handler(lambda l, c: None)
        p = GeminiServerProtocol(lambda r: GeminiResponse(20, "text/plain", "x"), mw, up)
        t = T(); p.connection_made(t)
        escaped = False
        try: p.data_received(b"titan://h.example/f.gmi;size=5;mime=text/gemini\r\nhello")
        except Exception: escaped = True
        for _ in range(50):
            if t.closed: break
            await asyncio.sleep(0.002)
        if p.timeout_handle: p.timeout_handle.cancel()
        head = t.out.split(b"\r\n")[0]
        return escaped or not t.closed or not (len(head) >= 3 and head[:2].isdigit() and t.out.count(b"\r\n") == 1)
    async def main():
        return [await one(up, mw) for up in (Raises(), Returns()) for mw in (None, Allow())]
    return any(asyncio.run(main()))

# MAIN
if __name__ == "__main__":
    names = sys.argv[1:] or sorted(W)
    for n in names:
        print(n, "DEFECT-PRESENT" if W[n]() else "ok")
