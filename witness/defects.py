"""Concrete witnesses of the defects found in alanbato/nauyaca @04baf9d.  Each function returns
True when the defect is PRESENT in /repo's working tree.  Used to demonstrate the defect before a
`fix:` commit and as a regression corpus afterwards (python3 /verif/witness/defects.py [id ...])."""
import sys, os, asyncio, tempfile, shutil
sys.path.insert(0, "/repo/src")
sys.path.insert(0, os.path.join(os.path.dirname(os.path.abspath(__file__)), "..", "harness"))
import logging; logging.disable(logging.CRITICAL)
import nauyaca.protocol  # noqa

W = {}
def witness(f):
    W[f.__name__] = f; return f

@witness
def C19_brackets_lost():
    from nauyaca.utils.url import parse_url
    p = parse_url("gemini://[::1]/")
    try:
        q = parse_url(p.normalized)
        return (q.hostname, q.port, q.path) != (p.hostname, p.port, p.path)
    except ValueError:
        return True

@witness
def C16_off_by_one():
    """A loop-free chain of exactly max_redirects redirects must be followed."""
    from nauyaca.client.session import GeminiClient
    from nauyaca.protocol.response import GeminiResponse
    c = GeminiClient(max_redirects=2, trust_on_first_use=False)
    table = {"gemini://h/0": GeminiResponse(30, "gemini://h/1"), "gemini://h/1": GeminiResponse(30, "gemini://h/2"),
             "gemini://h/2": GeminiResponse(20, "text/gemini", "done")}
    async def single(url): return table[url]
    c._get_single = single
    try:
        r = asyncio.run(c.get("gemini://h/0"))
        return r.status != 20
    except ValueError:
        return True

@witness
def C10_cleanup_grants_allowance():
    import types, nauyaca.server.middleware as mw
    clock = types.SimpleNamespace(t=0.0)
    real_time = mw.time
    mw.time = types.SimpleNamespace(monotonic=lambda: clock.t)
    try:
        rl = mw.RateLimiter(mw.RateLimitConfig(capacity=1, refill_rate=1 / 1024, retry_after=30))
        async def go():
            admitted = 0
            ok, _ = await rl.process_request("gemini://h/", "1.2.3.4"); admitted += ok
            # run one clean-up pass at t=900 exactly as _cleanup_loop does
            clock.t = 900.0
            real_sleep = asyncio.sleep
            calls = {"n": 0}
            async def fake_sleep(d):
                calls["n"] += 1
                if calls["n"] > 1: raise asyncio.CancelledError()
            mw.asyncio.sleep = fake_sleep
            try:
                await rl._cleanup_loop()
            except asyncio.CancelledError:
                pass
            finally:
                mw.asyncio.sleep = real_sleep
            clock.t = 901.0
            ok, _ = await rl.process_request("gemini://h/", "1.2.3.4"); admitted += ok
            return admitted
        return asyncio.run(go()) > 1   # capacity 1 + 901/1024 < 2
    finally:
        mw.time = real_time

@witness
def C09_default_deny_dropped():
    from nauyaca.server.config import ServerConfig
    d = tempfile.mkdtemp(dir="/var/tmp")
    try:
        sc = ServerConfig(document_root=d, access_control_default_allow=False)
        return sc.get_access_control_config() is None   # None => no AccessControl component => everyone admitted
    finally:
        shutil.rmtree(d)

if __name__ == "__main__":
    names = sys.argv[1:] or sorted(W)
    for n in names:
        print(n, "DEFECT-PRESENT" if W[n]() else "ok")
