#!/usr/bin/env python3
"""py2coq: fail-closed translator from a small, typed subset of Python ("PyCore") to Gallina.

It regenerates coq/Gen/PyGen.v from /repo's CURRENT sources for the pure decision functions listed in
SPECS.  Hand-written lemmas in coq/Equiv/Equiv.v state `forall inputs, Gen.f inputs = Model.f inputs`
and are re-checked by coqc on every run, so that the theorems proved about the models are tied to what
the code says now.  Anything outside the subset raises Untranslatable (exit 2): the tie is then broken
and the check reports it.

Subset: assignments to locals and to `self.<field>` (record threading: state fields become parameters and
results), if/elif/else, return, raise ValueError, try/except ValueError around one modelled call, `for x in xs`
loops whose body may `continue`, `return`, `raise` and update declared accumulators (compiled to a local
`fix`), self-recursive calls (compiled to recursion on explicit fuel), expression statements that are
docstrings or logger calls (ignored); expressions: names, constants, attribute reads (via a table),
comparisons, and/or/not, + - *, min, len, in / not in, is None / is not None, conditional expressions, list
displays, f-strings, slices s[n:], and a whitelist of str/list methods mapped to Prelude functions."""
import ast, sys, os, textwrap

SRC = os.environ.get("NV_SRC", os.path.join(os.environ.get("NV_REPO", "/repo"), "src", "nauyaca"))   # NV_SRC: a scratch copy, for testing the translators on modified sources

class Untranslatable(Exception):
    pass

def bad(node, why):
    raise Untranslatable("%s (line %s): %s" % (why, getattr(node, "lineno", "?"), ast.dump(node)[:200]))

# ------------------------------------------------------------------ Coq string literals
def coq_str(s):
    if all(32 <= ord(c) < 127 and c not in '"' for c in s):
        return '(lit "%s")' % s
    return "[" + "; ".join(str(ord(c)) for c in s) + "]%N"

SAFE_LOG_CALLS = {"len", "round", "str", "type", "getattr", "time.time", "repr", "int", "float"}
def safe_log_arg(e):
    """expressions allowed as arguments of an ignored logging call: no calls except a few total built-ins, no subscripts
    except a constant index into a name/attribute (guarded tuples like self.peer_name[0])"""
    if isinstance(e, (ast.Constant, ast.Name)): return True
    if isinstance(e, ast.Attribute): return safe_log_arg(e.value)
    if isinstance(e, ast.JoinedStr): return all(safe_log_arg(v) for v in e.values)
    if isinstance(e, ast.FormattedValue): return safe_log_arg(e.value) and e.format_spec is None
    if isinstance(e, ast.IfExp): return safe_log_arg(e.test) and safe_log_arg(e.body) and safe_log_arg(e.orelse)
    if isinstance(e, ast.BoolOp): return all(safe_log_arg(v) for v in e.values)
    if isinstance(e, ast.UnaryOp): return safe_log_arg(e.operand)
    if isinstance(e, ast.BinOp) and isinstance(e.op, (ast.Add, ast.Sub, ast.Mult)): return safe_log_arg(e.left) and safe_log_arg(e.right)
    if isinstance(e, ast.Compare): return safe_log_arg(e.left) and all(safe_log_arg(c) for c in e.comparators)
    if isinstance(e, ast.Subscript):
        return isinstance(e.slice, ast.Constant) and isinstance(e.value, (ast.Name, ast.Attribute)) and safe_log_arg(e.value)
    if isinstance(e, ast.Call):
        try: name = ast.unparse(e.func)
        except Exception: return False
        return name in SAFE_LOG_CALLS and all(safe_log_arg(a) for a in e.args) and not e.keywords
    return False

# ------------------------------------------------------------------ the translator proper
class Fn:
    """one function under translation"""
    def __init__(self, spec, node):
        self.spec, self.node = spec, node
        self.env = dict(spec.get("types", {}))          # variable -> type
        self.may_raise = spec.get("may_raise", False)
        self.state = list(spec.get("state", []))          # self fields that are assigned (returned alongside the result)
        self.loop_id = 0
        self.fuel = spec.get("fuel")                      # name of the self-recursive function, if any

    # ---- types
    def typeof(self, e):
        if isinstance(e, ast.Constant):
            if isinstance(e.value, bool): return "bool"
            if isinstance(e.value, str): return "str"
            if isinstance(e.value, int): return self.spec.get("int", "nat")
            if isinstance(e.value, float): return "Q"
            if e.value is None: return "none"
        if isinstance(e, ast.Name):
            if e.id in self.env: return self.env[e.id]
            bad(e, "unknown variable type")
        if isinstance(e, ast.Attribute):
            k = self.attr_key(e)
            if k in self.spec.get("attrs", {}): return self.spec["attrs"][k][1]
            bad(e, "unknown attribute")
        if isinstance(e, ast.JoinedStr): return "str"
        if isinstance(e, ast.BinOp):
            return self.typeof(e.left)
        if isinstance(e, ast.Subscript): return self.typeof(e.value)
        if isinstance(e, ast.IfExp): return self.typeof(e.body) if not (isinstance(e.body, ast.List) and not e.body.elts) else self.typeof(e.orelse)
        if isinstance(e, ast.Tuple) and e.elts and all(isinstance(x, ast.Constant) and isinstance(x.value, str) for x in e.elts):
            return ("list", "str")     # a tuple of string constants used as a set: `x in ("", ".")`
        if isinstance(e, ast.List):
            return ("list", self.typeof(e.elts[0])) if e.elts else ("list", "str")
        if isinstance(e, ast.Call):
            f = e.func
            if isinstance(f, ast.Attribute):
                if f.attr in ("startswith", "endswith"): return "bool"
                if f.attr in ("rstrip", "lstrip", "strip"): return "str"
                if f.attr == "split": return ("list", "str")
            if isinstance(f, ast.Name):
                if f.id == "len": return "nat"
                if f.id == "min": return self.typeof(e.args[0])
            k = self.call_key(e)
            if k in self.spec.get("calls", {}): return self.spec["calls"][k][1]
            bad(e, "unknown call type")
        if isinstance(e, (ast.Compare, ast.BoolOp)) or (isinstance(e, ast.UnaryOp) and isinstance(e.op, ast.Not)): return "bool"
        if isinstance(e, ast.Await): return self.typeof(e.value)
        bad(e, "cannot type expression")

    def attr_key(self, e):
        parts = []
        while isinstance(e, ast.Attribute):
            parts.append(e.attr); e = e.value
        if isinstance(e, ast.Name): parts.append(e.id)
        else: bad(e, "attribute base")
        return ".".join(reversed(parts))

    def call_key(self, e):
        f = e.func
        if isinstance(f, ast.Name): return f.id
        if isinstance(f, ast.Attribute):
            b = f
            while isinstance(b, ast.Attribute): b = b.value
            if not isinstance(b, ast.Name): return "<method-of-expression>"
            return self.attr_key(f)
        bad(e, "call target")

    # ---- truthiness of a value of a given type
    def truthy(self, e):
        t = self.typeof(e)
        x = self.expr(e)
        if t == "bool": return x
        if t == "str" or (isinstance(t, tuple) and t[0] == "list"):
            return "(match %s with [] => false | _ => true end)" % x
        if isinstance(t, tuple) and t[0] == "opt":
            return "(match %s with Some _ => true | None => false end)" % x
        bad(e, "truthiness of type %s" % (t,))

    def cond(self, e):
        """a Python condition as a Coq bool"""
        if isinstance(e, ast.BoolOp):
            op = " && " if isinstance(e.op, ast.And) else " || "
            return "(" + op.join(self.cond(v) for v in e.values) + ")"
        if isinstance(e, ast.UnaryOp) and isinstance(e.op, ast.Not):
            return "(negb %s)" % self.cond(e.operand)
        if isinstance(e, ast.Compare):
            return self.expr(e)
        return self.truthy(e)

    # ---- expressions
    def expr(self, e):
        if isinstance(e, ast.Await): return self.expr(e.value)
        if isinstance(e, ast.Constant):
            v = e.value
            if isinstance(v, bool): return "true" if v else "false"
            if isinstance(v, str): return coq_str(v)
            if v is None: return "None"
            if isinstance(v, int):
                t = self.spec.get("int", "nat")
                return {"nat": "%d%%nat", "Q": "(inject_Z %d)", "Z": "%d%%Z", "N": "%d%%N"}[t] % v
            bad(e, "constant")
        if isinstance(e, ast.Name):
            if e.id in self.spec.get("rename", {}): return self.spec["rename"][e.id]
            if e.id not in self.env: bad(e, "unknown name")
            return e.id
        if isinstance(e, ast.Attribute):
            k = self.attr_key(e)
            if k in self.spec.get("attrs", {}): return self.spec["attrs"][k][0]
            bad(e, "unknown attribute")
        if isinstance(e, ast.JoinedStr):
            parts = []
            for v in e.values:
                if isinstance(v, ast.Constant): parts.append(coq_str(v.value))
                elif isinstance(v, ast.FormattedValue):
                    if v.format_spec is not None or v.conversion != -1: bad(e, "format spec")
                    t = self.typeof(v.value)
                    if t == "str": parts.append(self.expr(v.value))
                    elif t == "nat": parts.append("(dec (N.of_nat %s))" % self.expr(v.value))
                    elif t == "N": parts.append("(dec %s)" % self.expr(v.value))
                    else: bad(e, "f-string of type %s" % (t,))
            return "(" + " ++ ".join(parts) + ")" if parts else "[]"
        if isinstance(e, ast.BinOp):
            t = self.typeof(e.left)
            l, r = self.expr(e.left), self.expr(e.right)
            if isinstance(e.op, ast.Add):
                if t == "str" or isinstance(t, tuple): return "(%s ++ %s)" % (l, r)
                if t == "Q": return "(%s + %s)%%Q" % (l, r)
                if t == "nat": return "(%s + %s)%%nat" % (l, r)
            if isinstance(e.op, ast.Sub) and t == "Q": return "(%s - %s)%%Q" % (l, r)
            if isinstance(e.op, ast.Mult) and t == "Q": return "(%s * %s)%%Q" % (l, r)
            bad(e, "binary operator")
        if isinstance(e, ast.IfExp):
            return "(if %s then %s else %s)" % (self.cond(e.test), self.expr(e.body), self.expr(e.orelse))
        if isinstance(e, ast.List) or (isinstance(e, ast.Tuple) and e.elts and all(isinstance(x, ast.Constant) and isinstance(x.value, str) for x in e.elts)):
            return "[" + "; ".join(self.expr(x) for x in e.elts) + "]"
        if isinstance(e, ast.Subscript):
            s = e.slice
            if isinstance(s, ast.Slice) and s.upper is None and s.step is None and s.lower is not None and self.typeof(e.value) == "str":
                return "(drop %s %s)" % (self.expr(s.lower), self.expr(e.value))
            bad(e, "subscript")
        if isinstance(e, ast.Compare) and len(e.ops) == 2 and all(isinstance(o, (ast.Lt, ast.LtE)) for o in e.ops) \
           and self.typeof(e.comparators[0]) == "Z":
            zc = lambda x: ("%d%%Z" % x.value) if isinstance(x, ast.Constant) and isinstance(x.value, int) else self.expr(x)
            a, b, c = zc(e.left), zc(e.comparators[0]), zc(e.comparators[1])
            o1 = "<=?" if isinstance(e.ops[0], ast.LtE) else "<?"
            o2 = "<=?" if isinstance(e.ops[1], ast.LtE) else "<?"
            return "((%s %s %s)%%Z && (%s %s %s)%%Z)" % (a, o1, b, b, o2, c)
        if isinstance(e, ast.Compare):
            if len(e.ops) != 1: bad(e, "chained comparison")
            op, l, r = e.ops[0], e.left, e.comparators[0]
            if isinstance(op, (ast.Is, ast.IsNot)) and isinstance(r, ast.Constant) and r.value is None:
                t = self.typeof(l)
                if not (isinstance(t, tuple) and t[0] == "opt"): bad(e, "is None on non-optional")
                x = "(match %s with None => true | Some _ => false end)" % self.expr(l)
                return x if isinstance(op, ast.Is) else "(negb %s)" % x
            if isinstance(op, (ast.In, ast.NotIn)):
                tr = self.typeof(r)
                if isinstance(tr, tuple) and tr[0] == "list" and tr[1] == "str":
                    tl = self.typeof(l)
                    if tl == "str": x = "(existsb (eqb %s) %s)" % (self.expr(l), self.expr(r))
                    elif tl == ("opt", "str"):
                        x = "(match %s with Some v__ => existsb (eqb v__) %s | None => false end)" % (self.expr(l), self.expr(r))
                    else: bad(e, "membership of type %s" % (tl,))
                elif tr == ("opt", ("list", "str")) and self.typeof(l) == ("opt", "str"):
                    x = "(match %s, %s with Some v__, Some l__ => existsb (eqb v__) l__ | _, _ => false end)" % (self.expr(l), self.expr(r))
                elif tr == "net_list_elem":
                    bad(e, "membership")
                else:
                    k = "in:" + (self.typeof(r) if isinstance(self.typeof(r), str) else str(self.typeof(r)))
                    if k in self.spec.get("calls", {}):
                        x = "(%s %s %s)" % (self.spec["calls"][k][0], self.expr(r), self.expr(l))
                    else: bad(e, "membership in type %s" % (tr,))
                return x if isinstance(op, ast.In) else "(negb %s)" % x
            t = self.typeof(l)
            a, b = self.expr(l), self.expr(r)
            if isinstance(op, (ast.Eq, ast.NotEq)):
                if t == "str": x = "(eqb %s %s)" % (a, b)
                elif t == "nat": x = "(Nat.eqb %s %s)" % (a, b)
                elif t == "N": x = "(N.eqb %s %s)" % (a, b)
                else: bad(e, "equality at type %s" % (t,))
                return x if isinstance(op, ast.Eq) else "(negb %s)" % x
            if t == "Q":
                if isinstance(op, ast.GtE): return "(Qle_bool %s %s)" % (b, a)
                if isinstance(op, ast.LtE): return "(Qle_bool %s %s)" % (a, b)
                if isinstance(op, ast.Gt): return "(negb (Qle_bool %s %s))" % (a, b)
                if isinstance(op, ast.Lt): return "(negb (Qle_bool %s %s))" % (b, a)
            if t == "nat":
                if isinstance(op, ast.Gt): return "(Nat.ltb %s %s)" % (b, a)
                if isinstance(op, ast.Lt): return "(Nat.ltb %s %s)" % (a, b)
                if isinstance(op, ast.GtE): return "(Nat.leb %s %s)" % (b, a)
                if isinstance(op, ast.LtE): return "(Nat.leb %s %s)" % (a, b)
            bad(e, "comparison")
        if isinstance(e, (ast.BoolOp,)) or (isinstance(e, ast.UnaryOp) and isinstance(e.op, ast.Not)):
            return self.cond(e)
        if isinstance(e, ast.Call):
            f = e.func
            if isinstance(f, ast.Attribute) and not self.call_key(e) in self.spec.get("calls", {}):
                recv_t = self.typeof(f.value)
                recv = self.expr(f.value)
                args = [self.expr(a) for a in e.args]
                if recv_t == "str":
                    if f.attr == "startswith" and len(args) == 1: return "(prefixb %s %s)" % (args[0], recv)
                    if f.attr == "endswith" and len(args) == 1: return "(suffixb %s %s)" % (args[0], recv)
                    if f.attr == "rstrip" and len(e.args) == 1 and isinstance(e.args[0], ast.Constant) and len(e.args[0].value) == 1:
                        return "(rstrip_by (fun c__ => N.eqb c__ %d%%N) %s)" % (ord(e.args[0].value), recv)
                    if f.attr == "split" and len(e.args) == 1 and isinstance(e.args[0], ast.Constant) and len(e.args[0].value) == 1:
                        return "(split_on %d%%N %s)" % (ord(e.args[0].value), recv)
                bad(e, "method call")
            if isinstance(f, ast.Name) and f.id == "len" and len(e.args) == 1:
                return "(length %s)" % self.expr(e.args[0])
            if isinstance(f, ast.Name) and f.id == "min" and len(e.args) == 2 and self.typeof(e.args[0]) == "Q":
                return "(Qmin' %s %s)" % (self.expr(e.args[0]), self.expr(e.args[1]))
            k = self.call_key(e)
            if k in self.spec.get("calls", {}):
                tgt = self.spec["calls"][k][0]
                args = " ".join(self.expr(a) for a in e.args)
                return "(%s %s)" % (tgt, args) if args else tgt
            bad(e, "call")
        bad(e, "expression")

    # ---- results
    def wrap_value(self, v):
        """a normal return value"""
        if self.state:
            v = "(%s, %s)" % (v, ", ".join(self.state)) if v is not None else "(%s)" % ", ".join(self.state)
        return "(Ok %s)" % v if self.may_raise else v

    def ret(self, node):
        if node.value is None: return self.wrap_value(None)
        v = node.value
        if isinstance(v, ast.Tuple):
            return self.wrap_value("(" + ", ".join(self.ret_elem(x) for x in v.elts) + ")")
        # recursive tail call on fuel
        if self.fuel and self.is_self_call(v):
            return self.self_call(v)
        return self.wrap_value(self.ret_elem(v))

    def ret_elem(self, e):
        rt = self.spec.get("ret_opt")
        x = self.expr(e)
        if rt and not (isinstance(e, ast.Constant) and e.value is None):
            t = self.typeof(e) if not isinstance(e, ast.Constant) else None
            if not (isinstance(t, tuple) and t[0] == "opt") and rt == "wrap": return "(Some %s)" % x
        if isinstance(e, ast.Constant) and isinstance(e.value, str) and self.spec.get("tuple_opt_str"):
            return "(Some %s)" % x
        return x

    def is_self_call(self, v):
        if isinstance(v, ast.Await): v = v.value
        return isinstance(v, ast.Call) and self.call_key(v) == self.fuel

    def self_call(self, v):
        if isinstance(v, ast.Await): v = v.value
        kw = {k.arg: self.expr(k.value) for k in v.keywords}
        pos = [self.expr(a) for a in v.args]
        order = self.spec["self_call_params"]
        args = []
        for i, pname in enumerate(order):
            if i < len(pos): args.append(pos[i])
            elif pname in kw: args.append(kw[pname])
            else: bad(v, "missing argument %s in recursive call" % pname)
        return "(rec__ %s)" % " ".join(args)

    # ---- statements.  `k` is the Coq term for "what happens when this block falls off its end"
    def block(self, stmts, k, kc=None):
        """k: continuation when the block falls off its end; kc: target of `continue` (inside a loop)"""
        if not stmts: return k
        s, rest = stmts[0], stmts[1:]
        if isinstance(s, ast.Expr):
            v = s.value
            if isinstance(v, ast.Constant) and isinstance(v.value, str): return self.block(rest, k, kc)          # docstring
            if isinstance(v, ast.Call):
                key = self.call_key(v) if isinstance(v.func, (ast.Name, ast.Attribute)) else ""
                if key.startswith("logger."):
                    # a log call is ignored only if evaluating its arguments cannot raise or have effects
                    for a in list(v.args) + [kw.value for kw in v.keywords]:
                        if not safe_log_arg(a): bad(a, "argument of a logging call that may raise")
                    return self.block(rest, k, kc)
                # list mutation: x.append(e) / x.extend(gen) / x.pop()
                if isinstance(v.func, ast.Attribute) and isinstance(v.func.value, ast.Name) and v.func.value.id in self.env:
                    name = v.func.value.id
                    if v.func.attr == "append" and len(v.args) == 1:
                        return "(let %s := %s ++ [%s] in %s)" % (name, name, self.expr(v.args[0]), self.block(rest, k, kc))
                    if v.func.attr == "pop" and not v.args:
                        return "(let %s := removelast %s in %s)" % (name, name, self.block(rest, k, kc))
                    if v.func.attr == "extend" and len(v.args) == 1 and isinstance(v.args[0], ast.GeneratorExp):
                        g = v.args[0]
                        if len(g.generators) != 1 or g.generators[0].ifs or not isinstance(g.generators[0].target, ast.Name): bad(s, "generator")
                        var = g.generators[0].target.id
                        it = g.generators[0].iter
                        self.env[var] = self.elem_type(it)
                        body = self.expr(g.elt)
                        return "(let %s := %s ++ map (fun %s => %s) %s in %s)" % (name, name, var, body, self.expr(it), self.block(rest, k, kc))
            bad(s, "expression statement")
        if isinstance(s, ast.AnnAssign) and s.value is not None and isinstance(s.target, ast.Name):
            s = ast.Assign(targets=[s.target], value=s.value, lineno=s.lineno)
        if isinstance(s, ast.Assign):
            if len(s.targets) != 1: bad(s, "multiple targets")
            t = s.targets[0]
            if isinstance(t, ast.Name):
                # try-less modelled call that may fail (res) ?
                val = s.value
                if isinstance(val, ast.Await): val = val.value
                if isinstance(val, ast.Call) and self.call_key(val) in self.spec.get("res_calls", {}):
                    tgt, ty = self.spec["res_calls"][self.call_key(val)]
                    self.env[t.id] = ty
                    args = " ".join(self.expr(a) for a in val.args)
                    return "(match %s %s with Ok %s => %s | Err k__ m__ => Err k__ m__ | OutOfModel => OutOfModel end)" % (tgt, args, t.id, self.block(rest, k, kc))
                ty = self.typeof(s.value)
                if isinstance(s.value, ast.Constant) and s.value.value is None: ty = self.spec["types"].get(t.id, "none")
                self.env[t.id] = self.spec.get("types", {}).get(t.id, ty)
                return "(let %s := %s in %s)" % (t.id, self.expr(s.value), self.block(rest, k, kc))
            if isinstance(t, ast.Attribute):
                key = self.attr_key(t)
                if key in self.spec.get("attrs", {}) and self.spec["attrs"][key][0] in self.state:
                    var = self.spec["attrs"][key][0]
                    return "(let %s := %s in %s)" % (var, self.expr(s.value), self.block(rest, k, kc))
            bad(s, "assignment target")
        if isinstance(s, ast.AugAssign):
            t = s.target
            fake = ast.BinOp(left=t, op=s.op, right=s.value)
            if isinstance(t, ast.Attribute):
                key = self.attr_key(t)
                if key in self.spec.get("attrs", {}) and self.spec["attrs"][key][0] in self.state:
                    var = self.spec["attrs"][key][0]
                    return "(let %s := %s in %s)" % (var, self.expr(fake), self.block(rest, k, kc))
            if isinstance(t, ast.Name) and t.id in self.env:
                return "(let %s := %s in %s)" % (t.id, self.expr(fake), self.block(rest, k, kc))
            bad(s, "augmented assignment")
        if isinstance(s, ast.Return):
            return self.ret(s)
        if isinstance(s, ast.Raise):
            if not self.may_raise: bad(s, "raise in a function declared total")
            e = s.exc
            if isinstance(e, ast.Call) and isinstance(e.func, ast.Name) and e.func.id == "ValueError" and len(e.args) == 1:
                cls = self.spec.get("raise_kinds", {})
                msg = e.args[0]
                first = msg.values[0].value if isinstance(msg, ast.JoinedStr) and isinstance(msg.values[0], ast.Constant) else (msg.value if isinstance(msg, ast.Constant) else "")
                kind = next((v for p, v in cls.items() if first.startswith(p)), "ValueError")
                return "(Err %s %s)" % (coq_str(kind), self.expr(msg) if self.spec.get("keep_messages", True) else "[]")
            bad(s, "raise")
        if isinstance(s, ast.If):
            after = self.block(rest, k, kc)
            return "(if %s then %s else %s)" % (self.cond(s.test), self.block(s.body, after, kc), self.block(s.orelse, after, kc))
        if isinstance(s, ast.Continue):
            if rest: bad(s, "code after continue")
            if kc is None: bad(s, "continue outside a loop")
            return kc
        if isinstance(s, ast.For):
            if s.orelse or not isinstance(s.target, ast.Name): bad(s, "for form")
            self.loop_id += 1
            lid = "loop%d__" % self.loop_id
            var = s.target.id
            self.env[var] = self.elem_type(s.iter)
            accs = self.loop_accs(s)
            after = self.block(rest, k, kc)
            rec = "(%s l'__%s)" % (lid, "".join(" " + a for a in accs))
            body = self.block(s.body, rec, rec)
            binders = "".join(" " + a for a in accs)
            return ("((fix %s (l__ : list _)%s {struct l__} := match l__ with [] => %s | %s :: l'__ => %s end) %s%s)"
                    % (lid, binders, after, var, body, self.expr(s.iter), binders))
        if isinstance(s, ast.Try):
            # try: x = call(...) except ValueError: <handler>   (the call is a modelled external returning option)
            if len(s.body) == 1 and isinstance(s.body[0], ast.Assign) and len(s.handlers) == 1 and not s.orelse and not s.finalbody:
                a = s.body[0]
                h = s.handlers[0]
                if isinstance(h.type, ast.Name) and h.type.id == "ValueError" and isinstance(a.targets[0], ast.Name) and isinstance(a.value, ast.Call):
                    key = self.call_key(a.value)
                    if key in self.spec.get("opt_calls", {}):
                        tgt, ty = self.spec["opt_calls"][key]
                        self.env[a.targets[0].id] = ty
                        args = " ".join(self.expr(x) for x in a.value.args)
                        after = self.block(rest, k, kc)
                        return "(match %s %s with Some %s => %s | None => %s end)" % (tgt, args, a.targets[0].id, after, self.block(h.body, after, kc))
            bad(s, "try form")
        if isinstance(s, ast.Pass):
            return self.block(rest, k, kc)
        bad(s, "statement")

    def elem_type(self, it):
        t = self.typeof(it)
        if isinstance(t, tuple) and t[0] == "list": return t[1]
        bad(it, "iteration over non-list")

    def loop_accs(self, loop):
        """variables declared as accumulators that the loop body updates"""
        declared = self.spec.get("accs", [])
        used = set()
        for n in ast.walk(loop):
            if isinstance(n, ast.Assign):
                for t in n.targets:
                    if isinstance(t, ast.Name): used.add(t.id)
            if isinstance(n, ast.AugAssign) and isinstance(n.target, ast.Name): used.add(n.target.id)
            if isinstance(n, ast.Call) and isinstance(n.func, ast.Attribute) and n.func.attr in ("append", "pop", "extend") and isinstance(n.func.value, ast.Name):
                used.add(n.func.value.id)
        inner = {loop.target.id}
        for n in ast.walk(loop):
            if isinstance(n, ast.Assign):
                for t in n.targets:
                    if isinstance(t, ast.Name) and t.id not in declared: inner.add(t.id)
        for u in used - inner:
            if u not in declared: bad(loop, "loop updates undeclared accumulator %s" % u)
        return [a for a in declared if a in used]

    def translate(self):
        params = self.spec["params"]
        for p, t in params: self.env[p] = t
        body_stmts = self.node.body
        if self.spec.get("slice"):
            body_stmts = self.spec["slice"](self.node)
        end = self.spec.get("fallthrough")
        k = end if end is not None else "FALLTHROUGH__"
        body = self.block(body_stmts, k)
        if "FALLTHROUGH__" in body: raise Untranslatable("%s: control can fall off the end" % self.spec["name"])
        ps = " ".join("(%s : %s)" % (p, coq_type(t)) for p, t in params)
        if self.fuel:
            fps = " ".join("(%s : %s)" % (p, coq_type(dict(params)[p])) for p in self.spec["self_call_params"])
            fixed = [p for p, t in params if p not in self.spec["self_call_params"]]
            fx = " ".join("(%s : %s)" % (p, coq_type(dict(params)[p])) for p in fixed)
            return ("Definition %s %s :=\n  fix go__ (fuel__ : nat) %s {struct fuel__} :=\n  match fuel__ with\n  | O => %s\n  | S fuel'__ =>\n    let rec__ := go__ fuel'__ in\n    %s\n  end.\n"
                    % (self.spec["name"], fx, fps, self.spec["out_of_fuel"], wrap(body)))
        return "Definition %s %s :=\n  %s.\n" % (self.spec["name"], ps, wrap(body))

def wrap(s):
    return s

def coq_type(t):
    if isinstance(t, str):
        return {"str": "str", "bool": "bool", "Q": "Q", "nat": "nat", "N": "N", "Z": "Z"}.get(t, t)
    if t[0] == "list": return "(list %s)" % coq_type(t[1])
    if t[0] == "opt": return "(option %s)" % coq_type(t[1])
    if t[0] == "fun": return "(%s)" % " -> ".join(coq_type(x) for x in t[1:])
    raise Untranslatable("type %s" % (t,))

# ------------------------------------------------------------------ which functions, and how their environment is modelled
def proxy_slice(fn):
    """the straight-line prefix of ProxyHandler._handle_async that builds `upstream_url` (up to the logging call)"""
    out = []
    for s in fn.body:
        if isinstance(s, ast.Expr) and isinstance(s.value, ast.Call) and isinstance(s.value.func, ast.Attribute) and \
           isinstance(s.value.func.value, ast.Name) and s.value.func.value.id == "logger":
            break
        out.append(s)
    out.append(ast.Return(value=ast.Name(id="upstream_url", ctx=ast.Load())))
    return out

SPECS = [
    dict(file="server/middleware.py", cls="TokenBucket", func="consume", name="gen_consume", int="Q",
         params=[("self_capacity", "Q"), ("self_refill_rate", "Q"), ("self_tokens", "Q"), ("self_last_update", "Q"), ("now_in", "Q"), ("tokens", "Q")],
         attrs={"self.capacity": ("self_capacity", "Q"), "self.refill_rate": ("self_refill_rate", "Q"), "self.tokens": ("self_tokens", "Q"),
                "self.last_update": ("self_last_update", "Q")},
         calls={"time.monotonic": ("now_in", "Q")}, state=["self_tokens", "self_last_update"]),
    dict(file="server/middleware.py", cls="AccessControl", func="_is_allowed", name="gen_is_allowed",
         params=[("ip_address", ("fun", "str", ("opt", "addr"))), ("self_deny_networks", ("list", "net")), ("self_allow_networks", ("list", "net")),
                 ("self_default_allow", "bool"), ("ip", "str")],
         attrs={"self.deny_networks": ("self_deny_networks", ("list", "net")), "self.allow_networks": ("self_allow_networks", ("list", "net")),
                "self.config.default_allow": ("self_default_allow", "bool")},
         opt_calls={"ip_address": ("ip_address", "addr")}, calls={"in:net": ("contains", "bool")}),
    dict(file="server/middleware.py", cls="CertificateAuth", func="_find_matching_rule", name="gen_find_matching_rule", ret_opt="wrap",
         params=[("self_rules", ("list", "rule")), ("path", "str")],
         attrs={"self.config.path_rules": ("self_rules", ("list", "rule")), "rule.prefix": ("(ru_prefix rule)", "str")}),
    dict(file="server/middleware.py", cls="CertificateAuth", func="_candidate_locations", name="gen_candidate_locations",
         params=[("INDEX_FILE_NAMES", ("list", "str")), ("path", "str")], types={"locations": ("list", "str")}),
    dict(file="server/middleware.py", cls="CertificateAuth", func="process_request", name="gen_certauth_process", tuple_opt_str=True,
         params=[("extract_path", ("fun", "str", "str")), ("candidate_locations", ("fun", "str", ("list", "str"))),
                 ("find_matching_rule", ("fun", "str", ("opt", "rule"))), ("request_url", "str"), ("client_ip", "str"),
                 ("client_cert_fingerprint", ("opt", "str"))],
         calls={"self._extract_path": ("extract_path", "str"), "self._candidate_locations": ("candidate_locations", ("list", "str")),
                "self._find_matching_rule": ("find_matching_rule", ("opt", "rule_or_none"))},
         attrs={"rule.require_cert": ("(match rule with Some r__ => ru_require r__ | None => false end)", "bool"),
                "rule.allowed_fingerprints": ("(match rule with Some r__ => ru_allowed r__ | None => None end)", ("opt", ("list", "str")))},
         types={"rule": ("opt", "rule")}),
    dict(file="utils/url.py", cls=None, func="canonical_path_segments", name="gen_canonical_path_segments", may_raise=True, keep_messages=False,
         params=[("unquote", ("fun", "str", "str")), ("path", "str"), ("clamp", "bool")], calls={"unquote": ("unquote", "str")},
         types={"segments": ("list", "str")}, accs=["segments"]),
    dict(file="server/proxy.py", cls="ProxyHandler", func="_handle_async", name="gen_upstream_url", slice=proxy_slice,
         params=[("self_upstream", "str"), ("self_prefix", "str"), ("self_strip_prefix", "bool"), ("request_path", "str"), ("request_query", "str")],
         attrs={"self.upstream": ("self_upstream", "str"), "self.prefix": ("self_prefix", "str"), "self.strip_prefix": ("self_strip_prefix", "bool"),
                "request.path": ("request_path", "str"), "request.query": ("request_query", "str")}),
    dict(file="client/session.py", cls="GeminiClient", func="_get_with_redirects", name="gen_get_with_redirects", may_raise=True, keep_messages=False,
         fuel="self._get_with_redirects", self_call_params=["url", "max_redirects", "redirect_chain"],
         out_of_fuel="(Err (lit \"OutOfFuel\") [])",
         params=[("get_single", ("fun", "nat", "str", "(res response)")), ("url", "str"), ("max_redirects", "nat"), ("redirect_chain", ("list", "str"))],
         res_calls={"self._get_single": ("get_single (length redirect_chain)", "response")},
         calls={"is_redirect": ("is_redirect", "bool")},
         attrs={"response.status": ("(r_status response)", "Z"), "response.redirect_url": ("(r_meta response)", "str"), "response.meta": ("(r_meta response)", "str")},
         types={"redirect_url": "str"},
         raise_kinds={"Redirect loop": "loop", "Maximum redirects": "too_many", "Redirect response missing": "missing_url"},
         drop_none_default=["redirect_chain"]),
    # protocol/status.py is_redirect, protocol/response.py GeminiResponse.is_redirect / redirect_url: what the redirect walk reads
    dict(file="protocol/status.py", cls=None, func="is_redirect", name="gen_status_is_redirect", params=[("status", "Z")]),
    dict(file="protocol/response.py", cls="GeminiResponse", func="is_redirect", name="gen_response_is_redirect",
         params=[("self_status", "Z")], attrs={"self.status": ("self_status", "Z")}, calls={"is_redirect": ("gen_status_is_redirect", "bool")}),
    dict(file="protocol/response.py", cls="GeminiResponse", func="redirect_url", name="gen_response_redirect_url", ret_opt="wrap",
         params=[("self_status", "Z"), ("self_meta", "str")], attrs={"self.meta": ("self_meta", "str")},
         calls={"self.is_redirect": ("(gen_response_is_redirect self_status)", "bool")}),
    dict(file="server/middleware.py", cls="MiddlewareChain", func="process_request", name="gen_chain_process", tuple_opt_str=False,
         params=[("self_middlewares", ("list", "(str -> str -> option str -> bool * option str)")), ("request_url", "str"), ("client_ip", "str"),
                 ("client_cert_fingerprint", ("opt", "str"))],
         attrs={"self.middlewares": ("self_middlewares", ("list", "mw"))}, special="chain"),
]

def find_function(tree, cls, func):
    for node in ast.walk(tree):
        if cls is None and isinstance(node, (ast.FunctionDef, ast.AsyncFunctionDef)) and node.name == func: return node
        if isinstance(node, ast.ClassDef) and node.name == cls:
            for n in node.body:
                if isinstance(n, (ast.FunctionDef, ast.AsyncFunctionDef)) and n.name == func: return n
    raise Untranslatable("function %s.%s not found" % (cls, func))

def preprocess(spec, fn):
    """source-level normalisations that are part of the documented subset"""
    body = list(fn.body)
    # `if redirect_chain is None: redirect_chain = []` : the default argument is supplied by the caller of the generated function
    for name in spec.get("drop_none_default", []):
        body = [s for s in body if not (isinstance(s, ast.If) and isinstance(s.test, ast.Compare) and isinstance(s.test.left, ast.Name)
                                        and s.test.left.id == name and isinstance(s.test.ops[0], ast.Is))]
    fn.body = body
    return fn

def translate_chain(spec, fn):
    """MiddlewareChain.process_request: `allow, response = await middleware.process_request(...)` inside a for loop.
    Checked structurally, emitted from a fixed template (tuple unpacking of an awaited call is outside the generic subset)."""
    loops = [s for s in fn.body if isinstance(s, ast.For)]
    if len(loops) != 1: raise Untranslatable("chain: expected one loop")
    lp = loops[0]
    ok = (isinstance(lp.iter, ast.Attribute) and lp.iter.attr == "middlewares" and len(lp.body) == 2
          and isinstance(lp.body[0], ast.Assign) and isinstance(lp.body[0].targets[0], ast.Tuple)
          and [t.id for t in lp.body[0].targets[0].elts] == ["allow", "response"]
          and isinstance(lp.body[0].value, ast.Await) and isinstance(lp.body[0].value.value, ast.Call)
          and [ast.unparse(a) for a in lp.body[0].value.value.args] == ["request_url", "client_ip", "client_cert_fingerprint"]
          and isinstance(lp.body[1], ast.If) and ast.unparse(lp.body[1].test) == "not allow"
          and len(lp.body[1].body) == 1 and isinstance(lp.body[1].body[0], ast.Return) and ast.unparse(lp.body[1].body[0].value) == "(False, response)"
          and not lp.body[1].orelse)
    last = fn.body[-1]
    ok = ok and isinstance(last, ast.Return) and ast.unparse(last.value) == "(True, None)"
    if not ok: raise Untranslatable("chain: process_request no longer has the expected shape")
    return ("Definition gen_chain_process (self_middlewares : list (str -> str -> option str -> bool * option str)) (request_url client_ip : str) (client_cert_fingerprint : option str) : bool * option str :=\n"
            "  (fix loop1__ (l__ : list _) {struct l__} := match l__ with [] => (true, None) | middleware :: l'__ =>\n"
            "     let '(allow, response) := middleware request_url client_ip client_cert_fingerprint in\n"
            "     if negb allow then (false, response) else loop1__ l'__ end) self_middlewares.\n")

HEADER = """(* GENERATED by /verif/translate/py2coq.py from /repo/src/nauyaca - do not edit *)
From Coq Require Import List NArith ZArith QArith Bool.
From NV Require Import Prelude.Str Prelude.Res Model.Bucket Model.Ip Model.CertAuth Model.Redirect.
Import ListNotations.
Open Scope list_scope.

"""

def main(out_path):
    chunks = [HEADER]
    cache = {}
    for spec in SPECS:
        path = os.path.join(SRC, spec["file"])
        if path not in cache: cache[path] = ast.parse(open(path).read(), path)
        fn = find_function(cache[path], spec["cls"], spec["func"])
        import copy
        fn = preprocess(spec, copy.deepcopy(fn))
        try:
            if spec.get("special") == "chain":
                chunks.append(translate_chain(spec, fn))
            else:
                chunks.append(Fn(spec, fn).translate())
        except Untranslatable as e:
            raise Untranslatable("%s:%s.%s: %s" % (spec["file"], spec["cls"], spec["func"], e))
        chunks.append("\n")
    open(out_path, "w").write("".join(chunks))
    print("py2coq: %d functions translated" % len(SPECS))

if __name__ == "__main__":
    try:
        main(sys.argv[1] if len(sys.argv) > 1 else os.path.join(os.path.dirname(os.path.dirname(os.path.abspath(__file__))), "coq", "Gen", "PyGen.v"))
    except Untranslatable as e:
        print("UNTRANSLATABLE:", e); sys.exit(2)
