#!/usr/bin/env python3
"""py2coq_tofu: extension of py2coq for the trust store (security/tofu.py, class TOFUDatabase) and for the
TOFU block of the client session (client/session.py: _get_single and upload).  Output: coq/Gen/TofuGen.v.

A method of TOFUDatabase that works on a connection becomes

    gen_m <callees> (s__ : store) args [now_in] : list stmt * res T

`s__` is the store the method finds; the first component is the list of the model's statements
(Model/Tofu.v: SInsert, SUpdateFp, STouch, SDelete, SDeleteHost, SDeleteAll, SCommit) the method issues, in
order; the second is its Python return value (Ok v) or the exception that leaves it (Err kind []).  The
translation threads three variables by shadowing: q__ (statements issued so far), w__ (the working store of
the connection: every issued statement is applied to it with the model's `exec`; a statement `exec` rejects
raises sqlite3.IntegrityError) and, only if the method reads cursor.rowcount, rc__.

The TOFU block of the session becomes  gen_<f>_tofu verify get_host_info trust (s__ : store) hostname port
cert_in : store * sess_outcome : the three TOFUDatabase methods are parameters (each call runs on a
connection of its own: the store afterwards is TofuGlue.db_run s__ <its statements>), the result says how the
block ends (request sent / CertificateChangedError / ConnectionError).

General rules added to py2coq's (all AST-driven; anything else raises Untranslatable, exit status 2):
  * `if X is None` / `if X is not None` / `if X` / `if not X` for an optional X (the last two only when the
    value under the option is always truthy): a `match` that re-binds X to the value in the Some branch; same
    for conditional expressions; `if <always true>` is inlined.
  * `for x in xs` / `for a, b in <pairs>`: a local fix; its accumulators are the variables the body assigns that
    exist before the loop (plus q__, w__, rc__ when the body talks to the database).
  * `v["field"]` for a database row / a TOML host table: the record projection given by FIELDS.
  * `a <= v <= b` and isinstance(v, int) for a value that may not be an int (TofuGlue.dynint); such a value is
    converted with Z.to_N where a port (N) is expected, i.e. after the range check.
  * re.match(P, s) where P is a string constant of the shape ^(<char>|[<class>])({n})?...$ is compiled to
    TofuGlue.re_match_anchored (the `$` accepts a final line feed); bool(x) is the truthiness of x.
  * `raise E(...)`: Err "E" (messages are not kept) / the outcome constructors of RAISES.
  * the Python signature of every translated function must be the one in its SPEC (pyparams).

TRUSTED TABLES (every entry is an assumption about a library; keep them few):
  SQL       whitespace-normalised SQL text -> model statement / query, with the type of each `?`:
              SELECT fingerprint FROM known_hosts WHERE hostname = ? AND port = ?            lookup w__ h p   (+ fetchone)
              SELECT hostname, port, fingerprint, first_seen, last_seen FROM known_hosts
                     WHERE hostname = ? AND port = ?                                         lookup w__ h p   (+ fetchone)
              INSERT INTO known_hosts (hostname, port, fingerprint, first_seen, last_seen)
                     VALUES (?, ?, ?, ?, ?)                                                  SInsert {h; p; fp; first}   (last_seen: not modelled)
              UPDATE known_hosts SET fingerprint = ?, last_seen = ? WHERE hostname = ? AND port = ?   SUpdateFp h p fp
              UPDATE known_hosts SET last_seen = ? WHERE hostname = ? AND port = ?           STouch h p
              DELETE FROM known_hosts WHERE hostname = ? AND port = ?                        SDelete h p
              DELETE FROM known_hosts WHERE hostname = ?                                     SDeleteHost h
              DELETE FROM known_hosts                                                        SDeleteAll
  IDIOMS    `with self._connection() as conn:` (one per function, last statement; the text of _connection itself
            is compared with CONNECTION_BODY: a fresh connection, closed on exit, no implicit commit) - structural;
            `cur = conn.cursor()` - structural; `conn.commit()` -> SCommit;
            `cur.execute(<SELECT>, (h, p))` immediately followed by `X = cur.fetchone()` -> X := lookup w__ h p (option row);
            `cur.rowcount` -> TofuGlue.rowcount of the last executed statement.
  CALLS     get_certificate_fingerprint(c) -> c   (a certificate is represented by its fingerprint: it is used in no other way);
            datetime.datetime.now(datetime.timezone.utc).isoformat() -> the input now_in;
            dict(row) -> row;  s.lower() -> Prelude.Str.lower (ASCII; no other character lower-cases into the pattern's alphabet);
            protocol.get_peer_certificate() -> the input cert_in : option cert;  protocol.send_request() -> outcome OSend (last statement);
            data['hosts'].items() -> the input entries;  `k in host_data` -> TofuGlue.has_key;
            on_conflict(h, p, old, new) -> the model's cb_result (CbRaise: the callback raises; CbUpdate/CbSkip: its truthiness).
  TRUTHY    values that are never falsy: an x509 certificate, a function, a sqlite3.Row / the dict made from it, a Match object.
  FIELDS    row: hostname port fingerprint first_seen -> r_host r_port r_fp r_first;
            host table: hostname port fingerprint first_seen -> pe_host pe_port pe_fp pe_first (hostname, fingerprint, first_seen are assumed to be strings).
  RAISES    ValueError (database methods); ConnectionError -> OConnectionError, CertificateChangedError(h, p, old, new) -> OChanged h p old new.
  SKIP      the statements of import_toml before the transaction (file existence, tomllib.load, the two checks of data['hosts']): IMPORT_SKIP.
  TYPES     `port: int` is N (the model's ports); counters are nat."""
import ast, sys, os, copy
sys.path.insert(0, os.path.dirname(os.path.abspath(__file__)))
from py2coq import Fn, Untranslatable, bad, coq_str, find_function, SRC

# ------------------------------------------------------------------ tables
STR_N = ["str", "N"]
LOOKUP = "(Tofu.lookup w__ {0} {1})"
SQL = {
    "SELECT fingerprint FROM known_hosts WHERE hostname = ? AND port = ?": ("query", LOOKUP, STR_N),
    "SELECT hostname, port, fingerprint, first_seen, last_seen FROM known_hosts WHERE hostname = ? AND port = ?": ("query", LOOKUP, STR_N),
    "INSERT INTO known_hosts (hostname, port, fingerprint, first_seen, last_seen) VALUES (?, ?, ?, ?, ?)":
        ("stmt", "(Tofu.SInsert (Tofu.Build_row {0} {1} {2} {3}))", ["str", "N", "str", "str", None]),
    "UPDATE known_hosts SET fingerprint = ?, last_seen = ? WHERE hostname = ? AND port = ?":
        ("stmt", "(Tofu.SUpdateFp {2} {3} {0})", ["str", None, "str", "N"]),
    "UPDATE known_hosts SET last_seen = ? WHERE hostname = ? AND port = ?": ("stmt", "(Tofu.STouch {1} {2})", [None, "str", "N"]),
    "DELETE FROM known_hosts WHERE hostname = ? AND port = ?": ("stmt", "(Tofu.SDelete {0} {1})", STR_N),
    "DELETE FROM known_hosts WHERE hostname = ?": ("stmt", "(Tofu.SDeleteHost {0})", ["str"]),
    "DELETE FROM known_hosts": ("stmt", "Tofu.SDeleteAll", []),
}
CONNECTION_BODY = "conn = sqlite3.connect(str(self.db_path))\nconn.row_factory = sqlite3.Row\ntry:\n    yield conn\nfinally:\n    conn.close()"
NOW_TEXT = "datetime.datetime.now(datetime.timezone.utc).isoformat()"
ALWAYS_TRUTHY = {"cert", "callback", "row", "unit"}
FIELDS = {
    "row": {"hostname": ("Tofu.r_host", "str"), "port": ("Tofu.r_port", "N"), "fingerprint": ("Tofu.r_fp", "str"), "first_seen": ("Tofu.r_first", "str")},
    "pyentry": {"hostname": ("TofuGlue.pe_host", "str"), "port": ("TofuGlue.pe_port", "dynint"), "fingerprint": ("TofuGlue.pe_fp", "str"),
                "first_seen": ("TofuGlue.pe_first", "str")},
}
DB_RAISES = {"ValueError"}
CALLBACK_PARAMS = ["str", "N", "str", "str"]
IMPORT_SKIP = [
    "if not file_path.exists():\n    raise FileNotFoundError(f'TOML file not found: {file_path}')",
    "with open(file_path, 'rb') as f:\n    data = tomllib.load(f)",
    "if 'hosts' not in data:\n    raise ValueError(\"Invalid TOML: missing 'hosts' section\")",
    "if not isinstance(data['hosts'], dict):\n    raise ValueError(\"Invalid TOML: 'hosts' must be a table\")",
]
COQ_TYPES = {"str": "str", "bool": "bool", "nat": "nat", "N": "N", "Z": "Z", "unit": "unit", "cert": "str", "row": "Tofu.row", "dynint": "TofuGlue.dynint",
             "pyentry": "TofuGlue.pyentry", "callback": "(str -> N -> str -> str -> Tofu.cb_result)"}

def ctype(t):
    if isinstance(t, str):
        if t in COQ_TYPES: return COQ_TYPES[t]
        raise Untranslatable("type %s" % t)
    if t[0] == "list": return "(list %s)" % ctype(t[1])
    if t[0] == "opt": return "(option %s)" % ctype(t[1])
    if t[0] in ("pair", "tuple"): return "(%s)" % " * ".join(ctype(x) for x in t[1:])
    raise Untranslatable("type %s" % (t,))

# ------------------------------------------------------------------ regular expressions of one fixed shape
RE_SPECIAL = set(".^$*+?{}[]\\|()")
def compile_regex(pat, node):
    if len(pat) < 2 or pat[0] != "^" or pat[-1] != "$": bad(node, "regex must be anchored: ^...$")
    body, i, items = pat[1:-1], 0, []
    if any(ord(c) >= 128 for c in body): bad(node, "non-ASCII regex")
    while i < len(body):
        c = body[i]
        if c == "[":
            j = body.find("]", i + 1)
            cls = body[i + 1:j] if j > 0 else ""
            if not cls or cls[0] == "^" or "\\" in cls or "[" in cls: bad(node, "character class")
            ranges, n = [], 0
            while n < len(cls):
                if n + 2 < len(cls) and cls[n + 1] == "-":
                    lo, hi = ord(cls[n]), ord(cls[n + 2]); n += 3
                else:
                    if cls[n] == "-": bad(node, "character class")
                    lo = hi = ord(cls[n]); n += 1
                if lo > hi: bad(node, "character range")
                ranges.append((lo, hi))
            atom, i = ("class", ranges), j + 1
        elif c in RE_SPECIAL: bad(node, "regex operator %r" % c)
        else: atom, i = ("lit", c), i + 1
        count = 1
        if i < len(body) and body[i] == "{":
            j = body.find("}", i)
            num = body[i + 1:j] if j > 0 else ""
            if not (num.isascii() and num.isdigit()): bad(node, "regex repetition")
            count, i = int(num), j + 1
        elif i < len(body) and body[i] in "*+?": bad(node, "regex operator %r" % body[i])
        items.append((atom, count))
    parts, lits = [], ""
    def flush():
        nonlocal lits
        if lits: parts.append("TofuGlue.re_lit %s" % coq_str(lits)); lits = ""
    for atom, count in items:
        if atom[0] == "lit" and count == 1: lits += atom[1]; continue
        flush()
        a = "TofuGlue.RLit %d%%N" % ord(atom[1]) if atom[0] == "lit" else \
            "TofuGlue.RClass [%s]" % "; ".join("(%d%%N, %d%%N)" % r for r in atom[1])
        parts.append("[(%s, %d%%nat)]" % (a, count))
    flush()
    return "(" + " ++ ".join(parts) + ")" if parts else "[]"

# ------------------------------------------------------------------ database methods
def names_of(t):
    if isinstance(t, ast.Name): return [t.id]
    if isinstance(t, ast.Tuple) and all(isinstance(x, ast.Name) for x in t.elts): return [x.id for x in t.elts]
    return None

class DbFn(Fn):
    def __init__(self, spec, node):
        super().__init__(spec, node)
        self.db = spec.get("db", True)
        self.conn, self.cursors, self.strconst = None, set(), {}
        self.uses_rowcount = any(isinstance(n, ast.Attribute) and n.attr == "rowcount" for n in ast.walk(node))
        self.uses_now = any(isinstance(n, ast.Call) and ast.unparse(n) == NOW_TEXT for n in ast.walk(node))

    # ---- types
    def is_cursor(self, e): return isinstance(e, ast.Name) and e.id in self.cursors and e.id not in self.env
    def field(self, e):
        if isinstance(e, ast.Subscript) and isinstance(e.slice, ast.Constant) and isinstance(e.slice.value, str):
            t = self.typeof(e.value)
            if isinstance(t, str) and e.slice.value in FIELDS.get(t, {}): return FIELDS[t][e.slice.value]
            bad(e, "no field %r in a value of type %s" % (e.slice.value, t))
        return None

    def narrow_test(self, t):
        """(X, True): the test holds exactly when X is None; (X, False): exactly when X is not None"""
        opt = lambda n: isinstance(self.env.get(n), tuple) and self.env[n][0] == "opt"
        if isinstance(t, ast.Compare) and len(t.ops) == 1 and isinstance(t.left, ast.Name) and isinstance(t.ops[0], (ast.Is, ast.IsNot)) \
           and isinstance(t.comparators[0], ast.Constant) and t.comparators[0].value is None and opt(t.left.id):
            return t.left.id, isinstance(t.ops[0], ast.Is)
        if isinstance(t, ast.Name) and opt(t.id) and self.env[t.id][1] in ALWAYS_TRUTHY: return t.id, False
        if isinstance(t, ast.UnaryOp) and isinstance(t.op, ast.Not) and isinstance(t.operand, ast.Name) and opt(t.operand.id) \
           and self.env[t.operand.id][1] in ALWAYS_TRUTHY: return t.operand.id, True
        return None

    def narrowed(self, name, f):
        saved = self.env[name]
        self.env[name] = saved[1]
        try: return f()
        finally: self.env[name] = saved

    def typeof(self, e):
        if isinstance(e, ast.Call):
            f, u = e.func, ast.unparse(e)
            plain = not e.keywords
            if u == NOW_TEXT: return "str"
            if isinstance(f, ast.Name) and plain and len(e.args) == 1:
                if f.id == "get_certificate_fingerprint" and self.typeof(e.args[0]) == "cert": return "str"
                if f.id == "dict" and self.typeof(e.args[0]) == "row": return "row"
                if f.id == "bool": return "bool"
            if isinstance(f, ast.Name) and f.id == "isinstance": return "bool"
            if isinstance(f, ast.Name) and self.env.get(f.id) == "callback": bad(e, "a callback may only be called as `X = callback(...)`")
            if isinstance(f, ast.Attribute) and f.attr == "lower" and plain and not e.args and self.typeof(f.value) == "str": return "str"
            if ast.unparse(f) == "re.match" and "re" not in self.env: return ("opt", "unit")
        if isinstance(e, ast.Attribute) and e.attr == "rowcount" and self.is_cursor(e.value): return "nat"
        if isinstance(e, ast.Subscript):
            fd = self.field(e)
            if fd: return fd[1]
        if isinstance(e, ast.IfExp):
            nt = self.narrow_test(e.test)
            if nt:
                some_e, none_e = (e.orelse, e.body) if nt[1] else (e.body, e.orelse)
                ts = self.narrowed(nt[0], lambda: self.typeof(some_e))
                if isinstance(none_e, ast.Constant) and none_e.value is None: return ts if isinstance(ts, tuple) and ts[0] == "opt" else ("opt", ts)
                if self.typeof(none_e) != ts: bad(e, "branches of different types")
                return ts
        return super().typeof(e)

    # ---- expressions
    def num(self, e, ty):
        if isinstance(e, ast.Constant) and isinstance(e.value, int) and not isinstance(e.value, bool):
            return {"Z": "%d%%Z", "N": "%d%%N", "nat": "%d%%nat"}[ty] % e.value
        if self.typeof(e) == "dynint" and ty == "Z": return "(TofuGlue.dv %s)" % self.expr(e)
        if self.typeof(e) == ty: return self.expr(e)
        bad(e, "number of type %s expected" % ty)

    def expr(self, e):
        if isinstance(e, ast.Call):
            f, u = e.func, ast.unparse(e)
            plain = not e.keywords
            if u == NOW_TEXT: return "now_in"
            if isinstance(f, ast.Name) and plain and len(e.args) == 1:
                if f.id == "get_certificate_fingerprint" and self.typeof(e.args[0]) == "cert": return self.expr(e.args[0])
                if f.id == "dict" and self.typeof(e.args[0]) == "row": return self.expr(e.args[0])
                if f.id == "bool": return self.cond(e.args[0])
            if isinstance(f, ast.Name) and f.id == "isinstance":
                if plain and len(e.args) == 2 and isinstance(e.args[1], ast.Name) and e.args[1].id == "int" and self.typeof(e.args[0]) == "dynint":
                    return "(TofuGlue.dv_is_int %s)" % self.expr(e.args[0])
                bad(e, "isinstance")
            if isinstance(f, ast.Attribute) and f.attr == "lower" and plain and not e.args and self.typeof(f.value) == "str":
                return "(lower %s)" % self.expr(f.value)
            if ast.unparse(f) == "re.match" and "re" not in self.env:
                if not plain or len(e.args) != 2 or self.typeof(e.args[1]) != "str": bad(e, "re.match form")
                p = e.args[0]
                pat = p.value if isinstance(p, ast.Constant) and isinstance(p.value, str) else self.strconst.get(p.id) if isinstance(p, ast.Name) else None
                if pat is None: bad(e, "the pattern must be a string constant")
                return "(TofuGlue.re_match_anchored %s %s)" % (compile_regex(pat, e), self.expr(e.args[1]))
        if isinstance(e, ast.Attribute) and e.attr == "rowcount" and self.is_cursor(e.value): return "rc__"
        if isinstance(e, ast.Subscript):
            fd = self.field(e)
            if fd: return "(%s %s)" % (fd[0], self.expr(e.value))
        if isinstance(e, ast.IfExp):
            nt = self.narrow_test(e.test)
            if nt:
                some_e, none_e = (e.orelse, e.body) if nt[1] else (e.body, e.orelse)
                so = self.narrowed(nt[0], lambda: self.expr(some_e))
                if isinstance(none_e, ast.Constant) and none_e.value is None:
                    ts = self.narrowed(nt[0], lambda: self.typeof(some_e))
                    if not (isinstance(ts, tuple) and ts[0] == "opt"): so = "(Some %s)" % so
                self.typeof(e)
                return "(match %s with None => %s | Some %s => %s end)" % (nt[0], self.expr(none_e), nt[0], so)
        if isinstance(e, ast.Compare) and len(e.ops) == 2 and all(isinstance(o, ast.LtE) for o in e.ops) and self.typeof(e.comparators[0]) in ("dynint", "Z"):
            a, b, c = self.num(e.left, "Z"), self.num(e.comparators[0], "Z"), self.num(e.comparators[1], "Z")
            return "((%s <=? %s)%%Z && (%s <=? %s)%%Z)" % (a, b, b, c)
        return super().expr(e)

    def truthy(self, e):
        t = self.typeof(e)
        if t in ALWAYS_TRUTHY:
            self.expr(e)
            return "true"
        if isinstance(t, tuple) and t[0] == "opt":
            if t[1] in ALWAYS_TRUTHY: return "(match %s with Some _ => true | None => false end)" % self.expr(e)
            bad(e, "truthiness of an optional %s" % (t[1],))
        if t in ("bool", "str") or (isinstance(t, tuple) and t[0] == "list"): return super().truthy(e)
        bad(e, "truthiness of type %s" % (t,))

    def param(self, p, want):
        """an argument of a SQL statement / callback / database method, at the type the model expects"""
        x = self.expr(p)
        if want is None: return x            # a column the model does not have
        got = self.typeof(p)
        if got == want: return x
        if want == "N" and got == "dynint": return "(Z.to_N (TofuGlue.dv %s))" % x
        bad(p, "argument of type %s where %s is expected" % (got, want))

    # ---- results
    def wrap_value(self, v):
        v = "tt" if v is None else v
        return "(q__, Ok %s)" % v if self.db else v

    def raise_(self, e):
        if not self.db or e.func.id not in DB_RAISES: bad(e, "raise")
        return "(q__, Err (lit \"%s\") [])" % e.func.id

    # ---- statements
    def threaded(self, stmts):
        """does this code talk to the database?"""
        for s in stmts:
            for n in ast.walk(s):
                if isinstance(n, ast.Call) and isinstance(n.func, ast.Attribute) and isinstance(n.func.value, ast.Name) and \
                   (n.func.value.id in self.cursors or n.func.value.id == self.conn): return True
        return False

    def execute(self, v, rest, k, kc):
        if v.keywords or not 1 <= len(v.args) <= 2 or not (isinstance(v.args[0], ast.Constant) and isinstance(v.args[0].value, str)): bad(v, "execute form")
        key = " ".join(v.args[0].value.split())
        if key not in SQL: bad(v, "SQL text not in the table: %r" % key)
        kind, templ, ptypes = SQL[key]
        if len(v.args) == 2 and not isinstance(v.args[1], ast.Tuple): bad(v, "SQL parameters must be a tuple display")
        params = v.args[1].elts if len(v.args) == 2 else []
        if len(params) != len(ptypes): bad(v, "number of SQL parameters")
        term = templ.format(*[self.param(p, t) for p, t in zip(params, ptypes)])
        if kind == "query":
            nxt = rest[0] if rest else None
            if not (isinstance(nxt, ast.Assign) and len(nxt.targets) == 1 and isinstance(nxt.targets[0], ast.Name) and isinstance(nxt.value, ast.Call)
                    and ast.unparse(nxt.value) == "%s.fetchone()" % v.func.value.id):
                bad(v, "a SELECT must be followed by `X = <cursor>.fetchone()`")
            name = nxt.targets[0].id
            self.env[name] = ("opt", "row")
            return "(let %s := %s in %s)" % (name, term, self.block(rest[1:], k, kc))
        rc = "let rc__ := TofuGlue.rowcount w__ st__ in " if self.uses_rowcount else ""
        return ("(let st__ := %s in match Tofu.exec w__ st__ with Some w'__ => %slet q__ := q__ ++ [st__] in let w__ := w'__ in %s "
                "| None => (q__ ++ [st__], Err (lit \"sqlite3.IntegrityError\") []) end)" % (term, rc, self.block(rest, k, kc)))

    def loop(self, s, rest, k, kc):
        if s.orelse: bad(s, "for-else")
        self.loop_id += 1
        n = self.loop_id
        targets = names_of(s.target)
        if targets is None: bad(s, "loop target")
        it = ast.unparse(s.iter)
        if it in self.spec.get("iters", {}):
            src, etypes = self.spec["iters"][it]
        else:
            src, t = self.expr(s.iter), self.typeof(s.iter)
            if not (isinstance(t, tuple) and t[0] == "list"): bad(s, "iteration over a non-list")
            etypes = list(t[1][1:]) if isinstance(t[1], tuple) and t[1][0] == "pair" else [t[1]]
        if len(etypes) != len(targets): bad(s, "loop target shape")
        assigned = []
        for x in s.body:
            for m in ast.walk(x):
                ts = m.targets if isinstance(m, ast.Assign) else [m.target] if isinstance(m, (ast.AugAssign, ast.AnnAssign)) else []
                for t in ts:
                    for nm in names_of(t) or bad(m, "assignment target in a loop"):
                        if nm not in assigned: assigned.append(nm)
        accs = [a for a in assigned if a in self.env and a not in targets]
        binders = [(a, ctype(self.env[a])) for a in accs]
        if self.threaded(s.body):
            binders = [("q__", "list Tofu.stmt"), ("w__", "Tofu.store")] + ([("rc__", "nat")] if self.uses_rowcount else []) + binders
        after = self.block(rest, k, kc)
        for nm, t in zip(targets, etypes): self.env[nm] = t
        args = "".join(" " + a for a, _ in binders)
        rec = "(loop%d__ l'%d__%s)" % (n, n, args)
        body = self.block(s.body, rec, rec)
        pat = targets[0] if len(targets) == 1 else "(" + ", ".join(targets) + ")"
        return ("((fix loop%d__ (l%d__ : list _)%s {struct l%d__} := match l%d__ with [] => %s | %s :: l'%d__ => %s end) %s%s)"
                % (n, n, "".join(" (%s : %s)" % b for b in binders), n, n, after, pat, n, body, src, args))

    def with_(self, s, rest, k, kc):
        if not self.db or self.conn is not None: bad(s, "with")
        if rest: bad(rest[0], "code after the connection block")
        if len(s.items) != 1 or ast.unparse(s.items[0].context_expr) != "self._connection()" or not isinstance(s.items[0].optional_vars, ast.Name):
            bad(s, "with form")
        self.conn = s.items[0].optional_vars.id
        return self.block(s.body, k, kc)

    def block(self, stmts, k, kc=None):
        if not stmts: return k
        s, rest = stmts[0], stmts[1:]
        if ast.unparse(s) in self.spec.get("skip", ()): return self.block(rest, k, kc)
        if isinstance(s, ast.With): return self.with_(s, rest, k, kc)
        if isinstance(s, ast.For): return self.loop(s, rest, k, kc)
        if isinstance(s, ast.Raise):
            e = s.exc
            if not (isinstance(e, ast.Call) and isinstance(e.func, ast.Name)) or s.cause is not None: bad(s, "raise form")
            return self.raise_(e)
        if isinstance(s, ast.Assign) and len(s.targets) == 1 and isinstance(s.targets[0], ast.Name):
            name, v = s.targets[0].id, s.value
            if isinstance(v, ast.Constant) and isinstance(v.value, str): self.strconst[name] = v.value
            else: self.strconst.pop(name, None)
            if isinstance(v, ast.Call):
                f = v.func
                if self.conn and ast.unparse(v) == "%s.cursor()" % self.conn and name not in self.env:
                    self.cursors.add(name)
                    return self.block(rest, k, kc)
                if isinstance(f, ast.Attribute) and f.attr == "fetchone": bad(s, "fetchone() that does not directly follow its SELECT")
                if isinstance(f, ast.Name) and self.env.get(f.id) == "callback":
                    if v.keywords or len(v.args) != len(CALLBACK_PARAMS): bad(s, "callback arguments")
                    args = " ".join(self.param(a, t) for a, t in zip(v.args, CALLBACK_PARAMS))
                    self.env[name] = "bool"
                    r = self.block(rest, k, kc)
                    return ("(match %s %s with Tofu.CbRaise => (q__, Err (lit \"callback\") []) | Tofu.CbUpdate => (let %s := true in %s) "
                            "| Tofu.CbSkip => (let %s := false in %s) end)" % (f.id, args, name, r, name, r))
        if isinstance(s, ast.Expr) and isinstance(s.value, ast.Call) and isinstance(s.value.func, ast.Attribute) and isinstance(s.value.func.value, ast.Name):
            v, f = s.value, s.value.func
            if self.is_cursor(f.value) and f.attr == "execute": return self.execute(v, rest, k, kc)
            if self.conn and f.value.id == self.conn and f.attr == "commit" and not v.args and not v.keywords:
                return "(let q__ := q__ ++ [Tofu.SCommit] in %s)" % self.block(rest, k, kc)
        if isinstance(s, ast.If):
            nt = self.narrow_test(s.test)
            if nt:
                some_b, none_b = (s.orelse, s.body) if nt[1] else (s.body, s.orelse)
                ty = self.env[nt[0]]
                none_t = self.block(none_b + rest, k, kc)
                self.env[nt[0]] = ty
                some_t = self.narrowed(nt[0], lambda: self.block(some_b + rest, k, kc))
                return "(match %s with None => %s | Some %s => %s end)" % (nt[0], none_t, nt[0], some_t)
            if self.cond(s.test) == "true": return self.block(s.body + rest, k, kc)
        return super().block(stmts, k, kc)

    # ---- the definition
    def check_signature(self):
        a = self.node.args
        got = [x.arg for x in a.posonlyargs + a.args]
        if got != self.spec["pyparams"] or a.vararg or a.kwonlyargs or a.kwarg: bad(self.node, "signature changed: %s" % got)

    def translate(self):
        self.check_signature()
        params = self.spec["params"]
        for p, t in params: self.env[p] = t
        stmts = self.spec["slice"](self.node) if self.spec.get("slice") else self.node.body
        ps = "".join(" (%s : %s)" % (n, ty) for n, ty in self.spec.get("callee_params", []))
        if self.db: ps += " (s__ : Tofu.store)"
        ps += "".join(" (%s : %s)" % (p, ctype(t)) for p, t in params)
        if self.uses_now: ps += " (now_in : str)"
        if self.db:
            body = self.block(stmts, "(q__, Ok tt)")
            pre = "let q__ : list Tofu.stmt := [] in let w__ : Tofu.store := s__ in " + ("let rc__ := 0%nat in " if self.uses_rowcount else "")
            return "Definition %s%s : list Tofu.stmt * res %s :=\n  (%s%s).\n" % (self.spec["name"], ps, self.spec["ret"], pre, body)
        body = self.block(stmts, "FALLTHROUGH__")
        if "FALLTHROUGH__" in body: raise Untranslatable("%s: control can fall off the end" % self.spec["name"])
        return "Definition %s%s : %s :=\n  %s.\n" % (self.spec["name"], ps, self.spec["ret"], body)

# ------------------------------------------------------------------ the TOFU block of the session
class SessFn(DbFn):
    """state: the committed store s__; every TOFUDatabase method call runs on a connection of its own"""
    def raise_(self, e):
        if e.func.id == "ConnectionError" and len(e.args) == 1 and not e.keywords: return "(s__, TofuGlue.OConnectionError)"
        if e.func.id == "CertificateChangedError" and len(e.args) == 4 and not e.keywords:
            return "(s__, TofuGlue.OChanged %s)" % " ".join(self.param(a, t) for a, t in zip(e.args, ["str", "N", "str", "str"]))
        bad(e, "raise")

    def block(self, stmts, k, kc=None):
        if not stmts: return k
        s, rest = stmts[0], stmts[1:]
        call, targets = None, None
        if isinstance(s, ast.Expr) and isinstance(s.value, ast.Call): call, targets = s.value, []
        if isinstance(s, ast.Assign) and len(s.targets) == 1 and isinstance(s.value, ast.Call): call, targets = s.value, names_of(s.targets[0])
        if call is not None and isinstance(call.func, ast.Attribute) and ast.unparse(call.func) in self.spec["callees"]:
            name, ptypes, rtype = self.spec["callees"][ast.unparse(call.func)]
            if call.keywords or len(call.args) != len(ptypes) or targets is None: bad(s, "database method call form")
            args = "".join(" " + self.param(a, t) for a, t in zip(call.args, ptypes))
            if not targets: pat = "_"
            elif isinstance(s.targets[0], ast.Name): pat = targets[0]; self.env[pat] = rtype
            else:
                if not (isinstance(rtype, tuple) and rtype[0] == "tuple" and len(rtype) - 1 == len(targets)): bad(s, "unpacking")
                pat = "(" + ", ".join(targets) + ")"
                for nm, t in zip(targets, rtype[1:]): self.env[nm] = t
            return ("(match %s s__%s with (l__, r__) => let s__ := TofuGlue.db_run s__ l__ in match r__ with Ok %s => %s "
                    "| Err k__ _ => (s__, TofuGlue.ODbError k__) | OutOfModel => (s__, TofuGlue.ODbError []) end end)" % (name, args, pat, self.block(rest, k, kc)))
        if call is not None and targets == [] and ast.unparse(call) == "protocol.send_request()":
            if rest: bad(rest[0], "code after send_request()")
            return "(s__, TofuGlue.OSend)"
        return super().block(stmts, k, kc)

def tofu_slice(fn):
    """the body of `if self.tofu_db:` at the head of the try block that follows the connection set-up"""
    found = [s.body[0] for s in fn.body if isinstance(s, ast.Try) and s.body and isinstance(s.body[0], ast.If) and ast.unparse(s.body[0].test) == "self.tofu_db"]
    if len(found) != 1 or found[0].orelse: raise Untranslatable("%s: the TOFU block was not found" % fn.name)
    if any(ast.unparse(n) == "self.tofu_db" for s in fn.body for n in ast.walk(s) if isinstance(n, ast.If) and n is not found[0]):
        raise Untranslatable("%s: a second TOFU block" % fn.name)
    return found[0].body

# ------------------------------------------------------------------ which functions
HPC = [("hostname", "str"), ("port", "N"), ("cert", "cert")]
HP = HPC[:2]
LRES = "Tofu.store -> str -> N -> %s list Tofu.stmt * res %s"
SESSION = dict(file="client/session.py", cls="GeminiClient", db=False, slice=tofu_slice, ret="Tofu.store * TofuGlue.sess_outcome", cls_out=SessFn,
               params=[("s__", "store"), ("hostname", "str"), ("port", "N"), ("cert_in", ("opt", "cert"))],
               attrs={"parsed.hostname": ("hostname", "str"), "parsed.port": ("port", "N")},
               calls={"protocol.get_peer_certificate": ("cert_in", ("opt", "cert"))},
               callee_params=[("verify", LRES % ("str ->", "(bool * str)")), ("get_host_info", LRES % ("", "(option Tofu.row)")), ("trust", LRES % ("str ->", "unit"))],
               callees={"self.tofu_db.verify": ("verify", ["str", "N", "cert"], ("tuple", "bool", "str")),
                        "self.tofu_db.get_host_info": ("get_host_info", ["str", "N"], ("opt", "row")),
                        "self.tofu_db.trust": ("trust", ["str", "N", "cert"], "unit")})
COQ_TYPES["store"] = "Tofu.store"
T = dict(file="security/tofu.py", cls="TOFUDatabase")
SPECS = [
    dict(T, func="_validate_fingerprint", name="gen_validate_fingerprint", db=False, pyparams=["self", "fingerprint"], params=[("fingerprint", "str")], ret="bool"),
    dict(T, func="trust", name="gen_trust", pyparams=["self", "hostname", "port", "cert"], params=HPC, ret="unit"),
    dict(T, func="verify", name="gen_verify", pyparams=["self", "hostname", "port", "cert"], params=HPC, ret="(bool * str)"),
    dict(T, func="revoke", name="gen_revoke", pyparams=["self", "hostname", "port"], params=HP, ret="bool"),
    dict(T, func="revoke_by_hostname", name="gen_revoke_by_hostname", pyparams=["self", "hostname"], params=HP[:1], ret="nat"),
    dict(T, func="clear", name="gen_clear", pyparams=["self"], params=[], ret="nat"),
    dict(T, func="get_host_info", name="gen_get_host_info", pyparams=["self", "hostname", "port"], params=HP, ret="(option Tofu.row)", ret_opt="wrap"),
    dict(T, func="import_toml", name="gen_import_toml", pyparams=["self", "file_path", "merge", "on_conflict"], ret="(nat * nat * nat)", skip=IMPORT_SKIP,
         params=[("merge", "bool"), ("on_conflict", ("opt", "callback")), ("entries", ("list", ("pair", "str", "pyentry")))],
         callee_params=[("validate_fingerprint", "str -> bool")],
         calls={"self._validate_fingerprint": ("validate_fingerprint", "bool"), "in:pyentry": ("TofuGlue.has_key", "bool")},
         iters={"data['hosts'].items()": ("entries", ["str", "pyentry"])}),
    dict(SESSION, func="_get_single", name="gen_get_single_tofu", pyparams=["self", "url"]),
    dict(SESSION, func="upload", name="gen_upload_tofu", pyparams=["self", "url", "content", "mime_type", "token"]),
]

HEADER = """(* GENERATED by /verif/translate/py2coq_tofu.py from /repo/src/nauyaca/security/tofu.py and client/session.py - do not edit *)
From Coq Require Import List NArith ZArith Bool.
From NV Require Import Prelude.Str Prelude.Res Model.Tofu Equiv.TofuGlue.
Import ListNotations.
Open Scope list_scope.

"""

def check_connection(tree):
    fn = find_function(tree, "TOFUDatabase", "_connection")
    body = [s for s in fn.body if not (isinstance(s, ast.Expr) and isinstance(s.value, ast.Constant))]
    if "\n".join(ast.unparse(s) for s in body) != CONNECTION_BODY or [ast.unparse(d) for d in fn.decorator_list] != ["contextmanager"]:
        raise Untranslatable("security/tofu.py: TOFUDatabase._connection is not the connection idiom of the table")

def main(out_path):
    chunks, cache = [HEADER], {}
    for spec in SPECS:
        path = os.path.join(SRC, spec["file"])
        if path not in cache:
            cache[path] = ast.parse(open(path).read(), path)
            if spec["file"] == "security/tofu.py": check_connection(cache[path])
        try:
            fn = copy.deepcopy(find_function(cache[path], spec["cls"], spec["func"]))
            chunks.append(spec.get("cls_out", DbFn)(spec, fn).translate())
        except Untranslatable as e:
            raise Untranslatable("%s:%s.%s: %s" % (spec["file"], spec["cls"], spec["func"], e))
        chunks.append("\n")
    open(out_path, "w").write("".join(chunks))
    print("py2coq_tofu: %d functions translated" % len(SPECS))

if __name__ == "__main__":
    try:
        main(sys.argv[1] if len(sys.argv) > 1 else os.path.join(os.path.dirname(os.path.dirname(os.path.abspath(__file__))), "coq", "Gen", "TofuGen.v"))
    except (Untranslatable, OSError, SyntaxError) as e:
        print("UNTRANSLATABLE:", e); sys.exit(2)
