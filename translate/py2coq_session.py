#!/usr/bin/env python3
"""py2coq_session: the WHOLE control flow of one client call (client/session.py: GeminiClient._get_single and
GeminiClient.upload, plus the attributes GeminiClient.__init__ derives from the configuration flags) -> coq/Gen/SessionGen.v.
py2coq_tofu.py translates the TOFU block of the two methods as a slice; this translator translates the methods from their
first statement to their last, with that block in place (by py2coq_tofu.SessFn's rules) and everything around it: URL
parsing, construction of the protocol object, the awaited connection, the deferred send, the awaited response, the
exception handlers and the `finally`.

    gen_MAX_REDIRECTS (protocol/constants.py), gen_init_default_<parameter> (the defaults of the constructor)
    gen_init timeout max_redirects ssl_context verify_ssl trust_on_first_use decode_bodies : SessionGlue.client_cfg
                   (EVERY attribute __init__ assigns is a field of the record; an attribute outside it is refused)
    gen_get {A} validate_url parse_url get_with_redirects get_single self__ url follow_redirects : res A
                   (GeminiClient.get: the validate_url statements - an exception is the res value Err, the first one is the result -
                   and the dispatch; the two coroutine methods are callees; arguments are matched to the callee's signature by
                   position / keyword, the redirect_chain default is read from _get_with_redirects)
    gen_get_single {P} parse_url verify get_host_info trust new_protocol connection_made send_request wait_response
                   self__ s__ url conn_in cert_in            : Tofu.store * SessionGlue.outcome * list SessionGlue.gevent
    gen_upload     {P} str_replace parse_url verify get_host_info trust new_protocol connection_made send_request wait_response
                   self__ s__ url content mime_type token conn_in cert_in   : (the same)

P is the protocol object (abstract: the callees new_protocol / connection_made / send_request / wait_response are parameters,
instantiated in Equiv/EquivSession.v by the model's cstep / deliver); verify / get_host_info / trust are the TOFUDatabase
methods (instantiated by the generated ones of Gen/TofuGen.v); self__ is the client (gen_init of the flags), s__ the
committed trust store; conn_in, cert_in and wait_response are the peer's behaviour (the oracles below).  The result is the
store the call leaves, how it ends (Returned response / Raised exception) and the events an observer sees, in order.

The translation threads s__ (store), ev__ (events so far) and the protocol variable by shadowing.  Rules (all AST-driven;
anything else raises Untranslatable, exit status 2):
  * try / except C [as e] / finally: an exception is a value (SessionGlue.pyexc); where one originates the event GRaise is
    appended and the term walks the enclosing try statements from the inside out: `except C` becomes
    `if SessionGlue.catches gen_exc_bases e "C" then <handler> else ...` in source order, the statements of `finally` are
    copied into EVERY way out of the try statement (normal end, return, caught-and-handled, propagating).  An exception
    raised inside a handler skips the handlers of its own try statement and runs its finally.  try-else is not translated.
  * raise C(<message>) [from e]: XNew "C" / XNewFrom "C" e for a class C of EXC_BASES; the message is dropped but must be
    built from names, constants and f-strings only; raise CertificateChangedError(h, p, old, new): XChanged.
  * return X: X must be the awaited response; the enclosing finally blocks run first.
  * if / elif / else: the statements after the `if` are copied into both branches (so a branch may bind what follows uses);
    `if C: x = E` / `x += E` without else on a bound x is `let x := if C then E' else x`.  Tests: a boolean expression of
    py2coq / py2coq_tofu; `self.tofu_db` / `X` / `X is None` / `X is not None` on an optional; isinstance(X, str) on a
    `bytes | str` value (match, X is re-bound); truthiness of an optional str only in the conditional-update form.
  * everything else is py2coq.Fn / py2coq_tofu.SessFn (assignments, f-strings, slices, startswith, len, conditional
    expressions, row["field"], get_certificate_fingerprint, calls of the TOFUDatabase methods: each on a connection of its
    own, the store afterwards is TofuGlue.db_run s__ <its statements>; an exception leaving one is XLib <its class>).

TRUSTED TABLES (every entry is an assumption about a library or about how an event names an action; keep them few):
  ORACLES   `T, Q = await asyncio.wait_for(L.create_connection(lambda: P, host=H, port=N, ssl=C, server_hostname=S), timeout=self.timeout)`
              -> event GConnect C H N S; conn_in = ConnOk: the protocol's connection_made has run (Q := connection_made P, its
              actions become events) and T is the transport; ConnFail c: an exception of class c leaves the await (TimeoutError
              when wait_for gives up: CPython >= 3.11, where asyncio.TimeoutError is the builtin).  Once per call.
            `X = await asyncio.wait_for(F, timeout=self.timeout)` for the future F given to the protocol -> event GWait, then
              wait_response P: WResult r (X := r), WExc k (the exception the protocol set, model label k: XFuture k),
              WTimeout (XLib "TimeoutError").  Once per call.
            `X = Q.get_peer_certificate()` -> cert_in (event GCert); once per call.  A certificate is its fingerprint.
  PROTOCOL  GeminiClientProtocol(url, future, decode_body=, send_on_connect=) / TitanClientProtocol(titan_url, content, future,
              send_on_connect=) -> new_protocol ... (event GProto send_on_connect); the parameter names, their order and the
              defaults are read from client/protocol.py.  `Q.send_request()` -> event GSend, then send_request Q (its actions
              become events; an escaping exception is raised as XLib).  `T.close()` -> event GClose.
  IDIOMS    `L = asyncio.get_running_loop()`, `F = L.create_future()`: structural (L, F are not values).
  CALLS     parse_url(u): res (Err: ValueError, the only class parse_url raises); parsed.hostname / .port / .normalized ->
              Url.p_host / p_port / p_norm;  s.encode("utf-8") -> Utf8.encode (None: UnicodeEncodeError);
              s.replace(a, b) -> the callee str_replace.
  TRUTHY    a TOFUDatabase object is never falsy (checked: the class has no base class, no __bool__, no __len__).
  EXC_BASES class -> direct bases, emitted as gen_exc_bases; every pair of classes of the table that the running interpreter
              can resolve is checked against issubclass; the base of CertificateChangedError is read from security/tofu.py.
  INIT      GeminiClient.__init__ is a sequence of `self.f = <value>` and if-trees of such assignments; a value is a parameter, a
              constant session.py imports from ..protocol.constants (non-negative int literal there, never re-bound), a literal,
              not / and / or (Python's `a or b` on ints: b when a is 0), an attribute already set, or:
              TOFUDatabase(path) -> Some tt (the object; its content is s__), create_client_context(verify_mode=ssl.CERT_REQUIRED /
              ssl.CERT_NONE, check_hostname=True / False, certfile=.., keyfile=..) -> CtxCreated, the caller's context -> CtxGiven;
              timeout is a rational (Q), max_redirects a nat (negative ints have no counterpart); INIT_SKIP (the two client_cert / client_key checks) is skipped;
              no other method of the class assigns an attribute of self (checked).
  TYPES     url, mime_type: str; content: SessionGlue.pycontent; token: option str; bytes and str are both `str` in Coq
              (kept apart by the translator)."""
import ast, sys, os, copy, builtins, importlib
sys.path.insert(0, os.path.dirname(os.path.abspath(__file__)))
from py2coq import Untranslatable, bad, coq_str, find_function, SRC, safe_log_arg
import py2coq_tofu
from py2coq_tofu import SessFn, names_of, LRES, SESSION

py2coq_tofu.ALWAYS_TRUTHY.add("db")        # TRUTHY (check_truthy below)

# ------------------------------------------------------------------ tables
EXC_BASES = [
    ("TimeoutError", ["OSError"]), ("ConnectionError", ["OSError"]), ("ConnectionRefusedError", ["ConnectionError"]),
    ("ConnectionResetError", ["ConnectionError"]), ("ConnectionAbortedError", ["ConnectionError"]), ("BrokenPipeError", ["ConnectionError"]),
    ("ssl.SSLError", ["OSError"]), ("ssl.SSLCertVerificationError", ["ssl.SSLError", "ValueError"]), ("socket.gaierror", ["OSError"]),
    ("OSError", ["Exception"]), ("ValueError", ["Exception"]), ("UnicodeError", ["ValueError"]), ("UnicodeDecodeError", ["UnicodeError"]),
    ("UnicodeEncodeError", ["UnicodeError"]), ("LookupError", ["Exception"]), ("sqlite3.IntegrityError", ["sqlite3.DatabaseError"]),
    ("sqlite3.DatabaseError", ["sqlite3.Error"]), ("sqlite3.Error", ["Exception"]), ("Exception", []),
]
PARSED_FIELDS = {"hostname": ("Url.p_host", "str"), "port": ("Url.p_port", "N"), "normalized": ("Url.p_norm", "str")}
PROTO_ROLES = {"url": "url", "titan_url": "url", "content": "content", "response_future": "future", "decode_body": "bool", "send_on_connect": "soc"}
DB_EVENTS = {"verify": "SessionGlue.GVerify v__", "trust": "SessionGlue.GTrust"}
INIT_SKIP = [
    "if client_cert and (not client_key):\n    raise ValueError('client_key is required when client_cert is provided')",
    "if client_key and (not client_cert):\n    raise ValueError('client_cert is required when client_key is provided')",
]
INIT_PARAMS = {"timeout": "Q", "max_redirects": "nat", "ssl_context": "option N", "verify_ssl": "bool", "trust_on_first_use": "bool", "decode_bodies": "bool"}
INIT_FIELDS = {"timeout": "Q", "max_redirects": "nat", "verify_ssl": "bool", "trust_on_first_use": "bool", "tofu_db": "db?", "ssl_context": "ctx",
               "decode_bodies": "bool"}          # SessionGlue.client_cfg, in this order: EVERY attribute __init__ assigns
TIMEOUT_KW = "self.timeout"
R = "SessionGlue."

def subclass_walk(table, c, t, fuel=None):
    fuel = len(table) if fuel is None else fuel
    if c == t: return True
    if fuel == 0: return False
    return any(subclass_walk(table, b, t, fuel - 1) for b in dict(table).get(c, []))

def resolve_class(name):
    try:
        if "." in name:
            mod, attr = name.rsplit(".", 1)
            return getattr(importlib.import_module(mod), attr)
        return getattr(builtins, name)
    except Exception:
        return None

def exc_table(tofu_tree):
    """EXC_BASES + the class of security/tofu.py, checked against the interpreter that runs the translator"""
    table = list(EXC_BASES)
    found = [n for n in tofu_tree.body if isinstance(n, ast.ClassDef) and n.name == "CertificateChangedError"]
    if len(found) != 1 or not all(isinstance(b, ast.Name) and b.id in dict(table) for b in found[0].bases) or not found[0].bases:
        raise Untranslatable("security/tofu.py: CertificateChangedError must derive from classes of EXC_BASES")
    table.append(("CertificateChangedError", [b.id for b in found[0].bases]))
    live = {n: resolve_class(n) for n, _ in EXC_BASES}
    for a, ca in live.items():
        for b, cb in live.items():
            if ca is not None and cb is not None and issubclass(ca, cb) != subclass_walk(table, a, b):
                raise Untranslatable("EXC_BASES disagrees with the interpreter on issubclass(%s, %s)" % (a, b))
    return table

def check_truthy(tofu_tree):
    c = [n for n in tofu_tree.body if isinstance(n, ast.ClassDef) and n.name == "TOFUDatabase"]
    if len(c) != 1 or c[0].bases or c[0].keywords or any(isinstance(n, (ast.FunctionDef, ast.AsyncFunctionDef)) and n.name in ("__bool__", "__len__") for n in c[0].body):
        raise Untranslatable("security/tofu.py: a TOFUDatabase object may be falsy")

def proto_signatures(tree):
    """class -> [(parameter, role, default term or None)] from client/protocol.py"""
    out = {}
    for cls in ("GeminiClientProtocol", "TitanClientProtocol"):
        fn = find_function(tree, cls, "__init__")
        a = fn.args
        if a.vararg or a.kwarg or a.kwonlyargs or a.posonlyargs: raise Untranslatable("%s.__init__: signature form" % cls)
        names = [x.arg for x in a.args][1:]
        defaults = [None] * (len(names) - len(a.defaults)) + list(a.defaults)
        sig = []
        for n, d in zip(names, defaults):
            if n not in PROTO_ROLES: raise Untranslatable("%s.__init__: unknown parameter %s" % (cls, n))
            if d is not None and not (isinstance(d, ast.Constant) and isinstance(d.value, bool)): raise Untranslatable("%s.__init__: default of %s" % (cls, n))
            sig.append((n, PROTO_ROLES[n], None if d is None else ("true" if d.value else "false")))
        if [r for _, r, _ in sig].count("future") != 1 or [r for _, r, _ in sig].count("soc") != 1: raise Untranslatable("%s.__init__: signature" % cls)
        # the attribute the protocol reads must be the parameter: `self.send_on_connect = send_on_connect`
        if not any(isinstance(s, ast.Assign) and ast.unparse(s) == "self.send_on_connect = send_on_connect" for s in fn.body):
            raise Untranslatable("%s.__init__ does not keep send_on_connect" % cls)
        out[cls] = sig
    return out

# ------------------------------------------------------------------ one call
class CallFn(SessFn):
    def __init__(self, spec, node):
        super().__init__(spec, node)
        self.tries, self.tmp = [], 0
        self.loops, self.futures, self.transports, self.future_of = set(), set(), set(), {}
        self.used, self.seen = set(), set()      # oracles consumed on the current path / anywhere
        self.db_present = False

    def snapshot(self):     # what is known at a program point (the continuation of an `if` is translated once per branch)
        return (dict(self.env), self.db_present, self.used, set(self.loops), set(self.futures), set(self.transports), dict(self.future_of))
    def restore(self, snap):
        self.env, self.db_present, self.used, self.loops, self.futures, self.transports, self.future_of = snap
    def fresh(self):
        self.tmp += 1
        return self.tmp
    def kont(self, k): return k() if callable(k) else k
    def under(self, stack, fn):
        saved, self.tries = self.tries, stack
        try: return fn()
        finally: self.tries = saved
    def once(self, node, what):
        if what in self.used: bad(node, "a second %s in one call (one oracle value per call)" % what)
        self.used = self.used | {what}
        self.seen.add(what)
    def bind(self, node, name):
        if name in self.loops | self.futures | self.transports or name in ("s__", "ev__", "self__", "conn_in", "cert_in") or name in dict(self.spec["callee_params"]):
            bad(node, "re-binding of %s" % name)

    # ---- types and expressions
    def is_parsed(self, e): return isinstance(e, ast.Attribute) and isinstance(e.value, ast.Name) and self.env.get(e.value.id) == "parsed"
    def is_replace(self, e):
        return isinstance(e, ast.Call) and isinstance(e.func, ast.Attribute) and e.func.attr == "replace" and not e.keywords and len(e.args) == 2 \
               and "str_replace" in dict(self.spec["callee_params"]) and all(self.typeof(x) == "str" for x in [e.func.value] + e.args)
    def typeof(self, e):
        if self.is_parsed(e):
            if e.attr in PARSED_FIELDS: return PARSED_FIELDS[e.attr][1]
            bad(e, "field of a parsed URL")
        if isinstance(e, ast.Call) and isinstance(e.func, ast.Attribute) and e.func.attr == "replace":
            if self.is_replace(e): return "str"
            bad(e, "replace form")
        if isinstance(e, ast.Call) and isinstance(e.func, ast.Name) and e.func.id == "len" and len(e.args) == 1 and not e.keywords:
            if self.typeof(e.args[0]) in ("str", "bytes"): return "nat"
            bad(e, "len of a value that is not str / bytes")
        if isinstance(e, ast.Await): bad(e, "await outside the oracle forms")
        return super().typeof(e)
    def expr(self, e):
        if self.is_parsed(e):
            self.typeof(e)
            return "(%s %s)" % (PARSED_FIELDS[e.attr][0], e.value.id)
        if isinstance(e, ast.Call) and isinstance(e.func, ast.Attribute) and e.func.attr == "replace":
            self.typeof(e)
            return "(str_replace %s %s %s)" % (self.expr(e.func.value), self.expr(e.args[0]), self.expr(e.args[1]))
        if isinstance(e, ast.Await): bad(e, "await outside the oracle forms")
        if isinstance(e, (ast.BinOp, ast.JoinedStr, ast.Subscript, ast.Call, ast.Compare)): self.typeof(e)
        return super().expr(e)

    # ---- exceptions
    def throw(self, exc_term):
        v = "e__%d" % self.fresh()
        return "(let %s := %s in let ev__ := ev__ ++ [%sGRaise %s] in %s)" % (v, exc_term, R, v, self.propagate(v, len(self.tries)))

    def propagate(self, v, depth):
        if depth == 0: return "(s__, %sRaised %s, ev__)" % (R, v)
        fr, outer = self.tries[depth - 1], self.tries[:depth - 1]
        uncaught = lambda: self.under(outer, lambda: self.block(fr["final"], lambda: self.propagate(v, depth - 1)))
        if not fr["active"]: return uncaught()
        arms = []
        for h in fr["handlers"]:
            def body(h=h):
                saved = self.snapshot()
                if h.name:
                    self.bind(h, h.name)
                    self.env[h.name] = "exc"
                t = self.block(h.body, fr["after"])
                self.restore(saved)
                return "(let %s := %s in %s)" % (h.name, v, t) if h.name else t
            arms.append((h.type.id, self.under(outer + [dict(fr, active=False)], body)))
        out = uncaught()
        for cls, t in reversed(arms):
            out = "(if %scatches gen_exc_bases %s %s then %s else %s)" % (R, v, coq_str(cls), t, out)
        return out

    def try_(self, s, rest, k):
        if s.orelse: bad(s, "try-else")
        if not s.handlers and not s.finalbody: bad(s, "try form")
        for h in s.handlers:
            if not (isinstance(h.type, ast.Name) and h.type.id in self.spec["exc_names"]): bad(h, "except clause: one class of EXC_BASES")
        for f in s.finalbody:
            if any(isinstance(n, (ast.Return, ast.Raise, ast.Try, ast.If, ast.Await, ast.Assign, ast.AugAssign, ast.AnnAssign)) for n in ast.walk(f)): bad(f, "finally: effect statements only")
        outer = list(self.tries)
        after = lambda: self.under(outer, lambda: self.block(s.finalbody, lambda: self.block(rest, k)))
        fr = dict(handlers=s.handlers, final=s.finalbody, active=True, after=after)
        return self.under(outer + [fr], lambda: self.block(s.body, after))

    def raise_stmt(self, s):
        e = s.exc
        if not (isinstance(e, ast.Call) and isinstance(e.func, ast.Name)): bad(s, "raise form")
        cls = e.func.id
        if cls == "CertificateChangedError":
            if s.cause is not None or e.keywords or len(e.args) != 4: bad(s, "CertificateChangedError form")
            return self.throw("(%sXChanged %s)" % (R, " ".join(self.param(a, t) for a, t in zip(e.args, ["str", "N", "str", "str"]))))
        if cls not in self.spec["exc_names"] or "." in cls: bad(s, "raise of a class outside EXC_BASES")
        for a in list(e.args) + [kw.value for kw in e.keywords]:
            if not safe_log_arg(a): bad(a, "exception message that may itself raise")
        if s.cause is None: return self.throw("(%sXNew %s)" % (R, coq_str(cls)))
        if not (isinstance(s.cause, ast.Name) and self.env.get(s.cause.id) == "exc"): bad(s, "raise ... from <the caught exception>")
        return self.throw("(%sXNewFrom %s %s)" % (R, coq_str(cls), s.cause.id))

    def ret_(self, s):
        if s.value is None or self.typeof(s.value) != "response": bad(s, "return of something that is not the awaited response")
        v = "r__%d" % self.fresh()
        def chain(depth):
            if depth == 0: return "(s__, %sReturned %s, ev__)" % (R, v)
            fr = self.tries[depth - 1]
            return self.under(self.tries[:depth - 1], lambda: self.block(fr["final"], lambda: chain(depth - 1)))
        return "(let %s := %s in %s)" % (v, self.expr(s.value), chain(len(self.tries)))

    # ---- if
    def skeleton(self, t, general=True):
        """-> f(then_thunk, else_thunk): the Coq term of the test with the two branches in place"""
        def run(thunk, narrow=None, flag=None):
            saved = self.snapshot()
            if narrow: self.env[narrow[0]] = narrow[1]
            if flag is not None: self.db_present = flag
            try: return thunk()
            finally: self.restore(saved)
        neg = False
        u = t
        if isinstance(u, ast.UnaryOp) and isinstance(u.op, ast.Not): neg, u = True, u.operand
        is_none = None
        if isinstance(u, ast.Compare) and len(u.ops) == 1 and isinstance(u.ops[0], (ast.Is, ast.IsNot)) and isinstance(u.comparators[0], ast.Constant) \
           and u.comparators[0].value is None and not neg:
            is_none, u = isinstance(u.ops[0], ast.Is), u.left
        if isinstance(u, ast.Attribute) and ast.unparse(u) == "self.tofu_db":
            x = self.expr(u)
            some_is_then = (not neg) if is_none is None else (not is_none)
            def f(th, el):
                a = run(th, flag=True) if some_is_then else run(th, flag=False)
                b = run(el, flag=False) if some_is_then else run(el, flag=True)
                some, none = (a, b) if some_is_then else (b, a)
                return "(match %s with None => %s | Some _ => %s end)" % (x, none, some)
            return f
        if isinstance(u, ast.Name) and isinstance(self.env.get(u.id), tuple) and self.env[u.id][0] == "opt":
            inner = self.env[u.id][1]
            if is_none is not None or inner in py2coq_tofu.ALWAYS_TRUTHY:
                some_is_then = (not neg) if is_none is None else (not is_none)
                def f(th, el):
                    a = run(th, narrow=(u.id, inner)) if some_is_then else run(th)
                    b = run(el) if some_is_then else run(el, narrow=(u.id, inner))
                    some, none = (a, b) if some_is_then else (b, a)
                    return "(match %s with None => %s | Some %s => %s end)" % (u.id, none, u.id, some)
                return f
            if inner == "str" and not general and not neg:
                def f(th, el):       # truthiness of an optional str: None and "" are falsy (the else term does not mention the variable)
                    truthy, falsy = run(th, narrow=(u.id, "str")), run(el)
                    return "(match %s with None => %s | Some %s => (match %s with [] => %s | _ => %s end) end)" % (u.id, falsy, u.id, u.id, falsy, truthy)
                return f
            bad(t, "truthiness of an optional %s" % (inner,))
        if isinstance(u, ast.Call) and isinstance(u.func, ast.Name) and u.func.id == "isinstance" and not neg and is_none is None:
            if not (len(u.args) == 2 and not u.keywords and isinstance(u.args[0], ast.Name) and self.env.get(u.args[0].id) == "pycontent"
                    and isinstance(u.args[1], ast.Name) and u.args[1].id == "str"): bad(t, "isinstance form")
            x = u.args[0].id
            return lambda th, el: "(match %s with %sPStr %s => %s | %sPBytes %s => %s end)" % (x, R, x, run(th, narrow=(x, "str")), R, x, run(el, narrow=(x, "bytes")))
        c = self.cond(t)
        if c == "true": return lambda th, el: run(th)
        if c == "false": return lambda th, el: run(el)
        return lambda th, el: "(if %s then %s else %s)" % (c, run(th), run(el))

    def if_(self, s, rest, k):
        b = s.body[0] if len(s.body) == 1 and not s.orelse else None
        if isinstance(b, (ast.Assign, ast.AugAssign)):
            tgt = b.targets[0] if isinstance(b, ast.Assign) and len(b.targets) == 1 else b.target if isinstance(b, ast.AugAssign) else None
            val = b.value if isinstance(b, ast.Assign) else ast.BinOp(left=ast.Name(id=tgt.id, ctx=ast.Load()), op=b.op, right=b.value) if isinstance(tgt, ast.Name) else None
            if isinstance(tgt, ast.Name) and tgt.id in self.env and val is not None and not any(isinstance(n, (ast.Call, ast.Await)) and not self.total_call(n) for n in ast.walk(val)):
                name, ty = tgt.id, self.env[tgt.id]
                def then():
                    if self.typeof(val) != ty: bad(b, "conditional update changes the type of %s" % name)
                    return self.expr(val)
                term = self.skeleton(s.test, general=False)(then, lambda: name)
                return "(let %s := %s in %s)" % (name, term, self.block(rest, k))
        return self.skeleton(s.test)(lambda: self.block(s.body + rest, k), lambda: self.block(s.orelse + rest, k))

    def total_call(self, n):
        return isinstance(n, ast.Call) and isinstance(n.func, ast.Name) and n.func.id == "len"

    # ---- statements
    def block(self, stmts, k, kc=None):
        if not stmts: return self.kont(k)
        s, rest = stmts[0], stmts[1:]
        if isinstance(s, ast.Expr) and isinstance(s.value, ast.Constant) and isinstance(s.value.value, str): return self.block(rest, k)
        if isinstance(s, ast.Pass): return self.block(rest, k)
        if isinstance(s, ast.Try): return self.try_(s, rest, k)
        if isinstance(s, ast.Raise): return self.raise_stmt(s)
        if isinstance(s, ast.Return): return self.ret_(s)
        if isinstance(s, ast.If): return self.if_(s, rest, k)
        if isinstance(s, ast.AnnAssign) and s.value is not None and isinstance(s.target, ast.Name) and s.simple:
            s = ast.copy_location(ast.Assign(targets=[s.target], value=s.value), s)
        call = targets = None
        if isinstance(s, ast.Expr): call, targets = s.value, []
        elif isinstance(s, ast.Assign) and len(s.targets) == 1: call, targets = s.value, names_of(s.targets[0])
        awaited = isinstance(call, ast.Await)
        if awaited: call = call.value
        if isinstance(call, ast.Call) and targets is not None:
            for t in targets: self.bind(s, t)
            r = self.call_stmt(s, call, targets, awaited, rest, k)
            if r is not None: return r
        if awaited: bad(s, "await outside the oracle forms")
        if isinstance(s, ast.Assign) and len(s.targets) == 1 and isinstance(s.targets[0], ast.Name) or isinstance(s, ast.AugAssign) and isinstance(s.target, ast.Name):
            self.bind(s, s.targets[0].id if isinstance(s, ast.Assign) else s.target.id)
            return super().block([s] + rest, k, kc)
        bad(s, "statement")

    def call_stmt(self, s, call, targets, awaited, rest, k):
        u, f = ast.unparse(call), call.func
        fu = ast.unparse(f)
        nxt = lambda: self.block(rest, k)
        one = targets[0] if len(targets) == 1 and isinstance(getattr(s, "targets", [None])[0], ast.Name) else None
        recv = f.value.id if isinstance(f, ast.Attribute) and isinstance(f.value, ast.Name) else None
        # IDIOMS
        if u == "asyncio.get_running_loop()" and one and not awaited and one not in self.env:
            self.loops.add(one); return nxt()
        if recv in self.loops and f.attr == "create_future" and not call.args and not call.keywords and one and not awaited and one not in self.env:
            self.futures.add(one); return nxt()
        # PROTOCOL
        if isinstance(f, ast.Name) and f.id in self.spec["protos"]:
            if not one or awaited: bad(s, "protocol construction form")
            if f.id != self.spec["proto_class"]: bad(s, "protocol class %s where %s is expected" % (f.id, self.spec["proto_class"]))
            sig = self.spec["protos"][f.id]
            given = dict(zip([n for n, _, _ in sig], call.args))
            if len(call.args) > len(sig): bad(s, "too many arguments")
            for kw in call.keywords:
                if kw.arg is None or kw.arg in given or kw.arg not in [n for n, _, _ in sig]: bad(s, "keyword argument")
                given[kw.arg] = kw.value
            args, soc, fut = [], None, None
            for n, role, default in sig:
                if n not in given:
                    if default is None: bad(s, "missing argument %s" % n)
                    term = default
                elif role == "future":
                    if not (isinstance(given[n], ast.Name) and given[n].id in self.futures): bad(s, "the future argument")
                    fut = given[n].id; continue
                else:
                    want = {"url": "str", "content": "bytes", "bool": "bool", "soc": "bool"}[role]
                    if self.typeof(given[n]) != want: bad(given[n], "argument %s: %s expected" % (n, want))
                    term = self.cond(given[n]) if want == "bool" else self.expr(given[n])
                if role == "soc": soc, term = term, "soc__"
                args.append(term)
            if fut is None or fut in self.future_of.values(): bad(s, "each protocol needs a future of its own")
            self.env[one] = "proto"; self.future_of[one] = fut
            return "(let soc__ := %s in let %s := new_protocol %s in let ev__ := ev__ ++ [%sGProto soc__] in %s)" % (soc, one, " ".join(args), R, nxt())
        if fu == "asyncio.wait_for":
            if not awaited or len(call.args) != 1 or [(kw.arg, ast.unparse(kw.value)) for kw in call.keywords] != [("timeout", TIMEOUT_KW)]: bad(s, "wait_for form")
            a = call.args[0]
            # ORACLES: the connection
            if isinstance(a, ast.Call) and isinstance(a.func, ast.Attribute) and a.func.attr == "create_connection":
                if not (isinstance(a.func.value, ast.Name) and a.func.value.id in self.loops): bad(s, "create_connection on something that is not the running loop")
                if len(targets) != 2 or not isinstance(s.targets[0], ast.Tuple): bad(s, "create_connection: `transport, protocol = await ...`")
                fac = a.args[0] if len(a.args) == 1 else None
                if not (isinstance(fac, ast.Lambda) and not ast.unparse(fac.args) and isinstance(fac.body, ast.Name) and self.env.get(fac.body.id) == "proto"):
                    bad(s, "protocol factory: `lambda: <the protocol>`")
                kws = {kw.arg: kw.value for kw in a.keywords}
                if sorted(k_ for k_ in kws if k_) != ["host", "port", "server_hostname", "ssl"] or len(a.keywords) != 4: bad(s, "create_connection keywords: host, port, ssl, server_hostname")
                for n, want in (("ssl", "ctx"), ("host", "str"), ("port", "N"), ("server_hostname", "str")):
                    if self.typeof(kws[n]) != want: bad(kws[n], "%s: %s expected" % (n, want))
                self.once(s, "create_connection")
                p, (tr, q) = fac.body.id, targets
                if tr == q or tr in self.env: bad(s, "transport name")
                ev = "%sGConnect %s" % (R, " ".join(self.expr(kws[n]) for n in ("ssl", "host", "port", "server_hostname")))
                failed = self.throw("(%sXLib c__)" % R)
                self.transports.add(tr)
                fut = self.future_of.pop(p)
                if q != p: del self.env[p]
                self.env[q] = "proto"; self.future_of[q] = fut
                return ("(let ev__ := ev__ ++ [%s] in match conn_in with %sConnOk => let '(%s, a__) := connection_made %s in let ev__ := ev__ ++ %sgevents a__ in %s "
                        "| %sConnFail c__ => %s end)" % (ev, R, q, p, R, nxt(), R, failed))
            # ORACLES: the response
            if isinstance(a, ast.Name) and a.id in self.futures:
                owners = [p for p, fu_ in self.future_of.items() if fu_ == a.id and self.env.get(p) == "proto"]
                if len(owners) != 1 or not one: bad(s, "wait_for(<the future of the protocol>)")
                self.once(s, "wait for the response")
                timeout = self.throw("(%sXLib %s)" % (R, coq_str("TimeoutError")))
                failed = self.throw("(%sXFuture k__)" % R)
                self.env[one] = "response"
                return ("(let ev__ := ev__ ++ [%sGWait] in match wait_response %s with %sWResult %s => %s | %sWExc k__ => %s | %sWTimeout => %s end)"
                        % (R, owners[0], R, one, nxt(), R, failed, R, timeout))
            bad(s, "wait_for form")
        if awaited: bad(s, "await outside the oracle forms")
        # CALLS
        if fu == "parse_url" and "parse_url" not in self.env:
            if not one or call.keywords or len(call.args) != 1 or self.typeof(call.args[0]) != "str": bad(s, "parse_url form")
            arg = self.expr(call.args[0])
            e1, e2 = self.throw("(%sXLib %s)" % (R, coq_str("ValueError"))), self.throw("(%sXLib %s)" % (R, coq_str("OutOfModel")))
            self.env[one] = "parsed"
            return "(match parse_url %s with Ok %s => %s | Err _ _ => %s | OutOfModel => %s end)" % (arg, one, nxt(), e1, e2)
        if isinstance(f, ast.Attribute) and f.attr == "encode" and one and self.typeof(f.value) == "str":
            if call.keywords or [ast.unparse(x) for x in call.args] not in ([], ["'utf-8'"]): bad(s, "encode form")
            arg, e1 = self.expr(f.value), self.throw("(%sXLib %s)" % (R, coq_str("UnicodeEncodeError")))
            self.env[one] = "bytes"
            return "(match encode %s with Some %s => %s | None => %s end)" % (arg, one, nxt(), e1)
        # the TOFUDatabase methods
        if fu in self.spec["callees"]:
            if not self.db_present: bad(s, "%s where self.tofu_db may be None" % fu)
            name, ptypes, rtype = self.spec["callees"][fu]
            if call.keywords or len(call.args) != len(ptypes): bad(s, "database method call form")
            args = "".join(" " + self.param(a, t) for a, t in zip(call.args, ptypes))
            if not targets: pat = "_"
            elif one: pat = one; self.env[one] = rtype
            else:
                if not (isinstance(rtype, tuple) and rtype[0] == "tuple" and len(rtype) - 1 == len(targets)): bad(s, "unpacking")
                pat = "'(" + ", ".join(targets) + ")"
                for nm, t in zip(targets, rtype[1:]): self.env[nm] = t
            ev = "let ev__ := ev__ ++ [%s] in " % DB_EVENTS[name] if name in DB_EVENTS else ""
            e1, e2 = self.throw("(%sXLib k__)" % R), self.throw("(%sXLib %s)" % (R, coq_str("OutOfModel")))
            return ("(match %s s__%s with (l__, r__) => let s__ := TofuGlue.db_run s__ l__ in match r__ with Ok v__ => %slet %s := v__ in %s "
                    "| Err k__ _ => %s | OutOfModel => %s end end)" % (name, args, ev, pat, nxt(), e1, e2))
        # methods of the protocol object and of the transport
        if recv is not None and self.env.get(recv) == "proto" and not call.args and not call.keywords:
            if f.attr == "get_peer_certificate" and one:
                self.once(s, "get_peer_certificate")
                self.env[one] = ("opt", "cert")
                return "(let %s := cert_in in let ev__ := ev__ ++ [%sGCert %s] in %s)" % (one, R, one, nxt())
            if f.attr == "send_request" and targets == []:
                e1 = self.throw("(%sXLib k__)" % R)
                return ("(let ev__ := ev__ ++ [%sGSend] in let '(%s, a__) := send_request %s in let ev__ := ev__ ++ %sgevents a__ in "
                        "match %sescaped a__ with Some k__ => %s | None => %s end)" % (R, recv, recv, R, R, e1, nxt()))
            bad(s, "method of the protocol object")
        if recv in self.transports:
            if f.attr == "close" and targets == [] and not call.args and not call.keywords:
                return "(let ev__ := ev__ ++ [%sGClose] in %s)" % (R, nxt())
            bad(s, "method of the transport")
        return None

    def translate(self):
        self.check_signature()
        for p, t in self.spec["params"]: self.env[p] = t
        def off_the_end(): raise Untranslatable("%s: control can fall off the end (the call would return None)" % self.spec["name"])
        body = self.block(self.node.body, off_the_end)
        missing = {"create_connection", "wait for the response"} - self.seen
        if missing: raise Untranslatable("%s: no %s" % (self.spec["name"], ", ".join(sorted(missing))))
        ps = " {P : Type}" + "".join(" (%s : %s)" % nt for nt in self.spec["callee_params"])
        ps += " (self__ : %sclient_cfg) (s__ : Tofu.store)" % R + "".join(" (%s : %s)" % (p, PARAM_COQ[t if isinstance(t, str) else t[0] + " " + t[1]]) for p, t in self.spec["params"])
        ps += " (conn_in : %sconn_outcome) (cert_in : option str)" % R
        return ("Definition %s%s : Tofu.store * %soutcome * list %sgevent :=\n  (let ev__ : list %sgevent := [] in %s).\n"
                % (self.spec["name"], ps, R, R, R, body))

PARAM_COQ = {"str": "str", "pycontent": R + "pycontent", "opt str": "option str"}

# ------------------------------------------------------------------ GeminiClient.__init__
def module_constants(session, constants):
    """names session.py imports from ..protocol.constants whose value there is an int literal -> (Coq name, value)"""
    imported = set()
    for n in session.body:
        if isinstance(n, ast.ImportFrom) and n.level == 2 and n.module == "protocol.constants": imported |= {a.name for a in n.names if a.asname is None}
    out = {}
    for n in constants.body:
        if isinstance(n, ast.Assign) and len(n.targets) == 1 and isinstance(n.targets[0], ast.Name) and n.targets[0].id in imported \
           and isinstance(n.value, ast.Constant) and isinstance(n.value.value, int) and not isinstance(n.value.value, bool) and n.value.value >= 0:
            out[n.targets[0].id] = ("gen_" + n.targets[0].id, n.value.value)
    for n in ast.walk(session):       # a constant must not be re-bound anywhere in session.py
        if isinstance(n, ast.Name) and isinstance(n.ctx, (ast.Store, ast.Del)) and n.id in out: bad(n, "re-binding of the constant %s" % n.id)
        if isinstance(n, ast.arg) and n.arg in out: bad(n, "a parameter shadows the constant %s" % n.arg)
    return out

def q_literal(v):
    from fractions import Fraction
    f = Fraction(repr(v)) if isinstance(v, float) else Fraction(v)
    if f < 0: raise Untranslatable("negative timeout default")
    return "(QArith_base.Qmake %d %d)" % (f.numerator, f.denominator)

def translate_init(tree, consts):
    fn = find_function(tree, "GeminiClient", "__init__")
    cls = [n for n in ast.walk(tree) if isinstance(n, ast.ClassDef) and n.name == "GeminiClient"][0]
    for m in cls.body:
        if isinstance(m, (ast.FunctionDef, ast.AsyncFunctionDef)) and m.name != "__init__":
            for n in ast.walk(m):
                if isinstance(n, ast.Attribute) and isinstance(n.ctx, (ast.Store, ast.Del)) and isinstance(n.value, ast.Name) and n.value.id == "self":
                    bad(n, "GeminiClient.%s assigns an attribute of self" % m.name)
                if isinstance(n, ast.Call) and isinstance(n.func, ast.Name) and n.func.id in ("setattr", "delattr"): bad(n, "setattr")
    a = fn.args
    params = [x.arg for x in a.args][1:]
    if a.vararg or a.kwarg or a.kwonlyargs or a.posonlyargs or not set(INIT_PARAMS) <= set(params): bad(fn, "__init__ signature")
    def value(e, fields, narrowed):
        """-> (term, type)"""
        if isinstance(e, ast.Name) and e.id in INIT_PARAMS:
            if e.id == "ssl_context": return ("(%sCtxGiven ssl_context)" % R, "ctx") if narrowed else bad(e, "ssl_context may be None here")
            return (e.id, INIT_PARAMS[e.id])
        if isinstance(e, ast.Name) and e.id in consts and e.id not in params: return (consts[e.id][0], "nat")
        if isinstance(e, ast.Constant) and e.value is None: return ("None", "none")
        if isinstance(e, ast.Constant) and isinstance(e.value, bool): return ("true" if e.value else "false", "bool")
        if isinstance(e, ast.Constant) and isinstance(e.value, int) and e.value >= 0: return ("%d%%nat" % e.value, "nat")
        if isinstance(e, ast.Attribute) and isinstance(e.value, ast.Name) and e.value.id == "self" and e.attr in fields: return fields[e.attr]
        if isinstance(e, ast.UnaryOp) and isinstance(e.op, ast.Not):
            x, t = value(e.operand, fields, narrowed)
            if t == "bool": return ("(negb %s)" % x, "bool")
        if isinstance(e, ast.BoolOp) and len(e.values) == 2:      # Python's `a or b` / `a and b` return one of the operands
            (x, tx), (y, ty) = value(e.values[0], fields, narrowed), value(e.values[1], fields, narrowed)
            isor = isinstance(e.op, ast.Or)
            if tx == ty == "bool": return ("(%s %s %s)" % (x, "||" if isor else "&&", y), "bool")
            if tx == ty == "nat": return ("(if Nat.eqb %s 0 then %s else %s)" % ((x, y, x) if isor else (x, x, y)), "nat")
        if isinstance(e, ast.Call) and not any(isinstance(n, (ast.Await, ast.NamedExpr, ast.Lambda)) for n in ast.walk(e)):
            f = ast.unparse(e.func)
            if f == "TOFUDatabase" and len(e.args) == 1 and not e.keywords and ast.unparse(e.args[0]) == "tofu_db_path": return ("(Some tt)", "db?")
            if f == "create_client_context" and not e.args:
                kw = {k_.arg: ast.unparse(k_.value) for k_ in e.keywords}
                if sorted(kw) == ["certfile", "check_hostname", "keyfile", "verify_mode"] and kw["verify_mode"] in ("ssl.CERT_REQUIRED", "ssl.CERT_NONE") \
                   and kw["check_hostname"] in ("True", "False") and kw["certfile"] == "str(client_cert) if client_cert else None" \
                   and kw["keyfile"] == "str(client_key) if client_key else None":
                    return ("(%sCtxCreated %s %s)" % (R, "true" if kw["verify_mode"] == "ssl.CERT_REQUIRED" else "false", kw["check_hostname"].lower()), "ctx")
        bad(e, "__init__: value")
    def test(t, fields):
        """-> (kind, term)"""
        if ast.unparse(t) == "ssl_context is None": return ("ctx_none", None)
        x, ty = value(t, fields, False)
        if ty == "bool": return ("bool", x)
        bad(t, "__init__: test")
    def run(stmts, fields, narrowed):
        fields = dict(fields)
        for s in stmts:
            if isinstance(s, ast.Expr) and isinstance(s.value, ast.Constant) and isinstance(s.value.value, str): continue
            if ast.unparse(s) in INIT_SKIP: continue
            if isinstance(s, ast.AnnAssign) and s.value is not None: s = ast.copy_location(ast.Assign(targets=[s.target], value=s.value), s)
            if isinstance(s, ast.Assign) and len(s.targets) == 1 and isinstance(s.targets[0], ast.Attribute) and isinstance(s.targets[0].value, ast.Name) \
               and s.targets[0].value.id == "self":
                f = s.targets[0].attr
                if f not in INIT_FIELDS: bad(s, "__init__: attribute %s is not a field of SessionGlue.client_cfg" % f)
                x, ty = value(s.value, fields, narrowed)
                want = INIT_FIELDS[f]
                if ty == "none" and want in ("db?",): ty = want
                if ty != want: bad(s, "__init__: attribute %s: %s expected, %s found" % (f, want, ty))
                fields[f] = (x, want); continue
            if isinstance(s, ast.If):
                kind, c = test(s.test, fields)
                a_ = run(s.body, fields, narrowed)
                b_ = run(s.orelse, fields, narrowed or kind == "ctx_none")
                for f in list(dict.fromkeys(list(a_) + list(b_))):
                    if a_.get(f) == b_.get(f): fields[f] = a_[f]; continue
                    if f not in a_ or f not in b_: bad(s, "__init__: attribute %s is not set on every path" % f)
                    fields[f] = ("(if %s then %s else %s)" % (c, a_[f][0], b_[f][0]) if kind == "bool" else
                                 "(match ssl_context with None => %s | Some ssl_context => %s end)" % (a_[f][0], b_[f][0]), INIT_FIELDS[f])
                continue
            bad(s, "__init__: statement")
        return fields
    fields = run(fn.body, {}, False)
    for f in INIT_FIELDS:
        if f not in fields: bad(fn, "__init__: attribute %s is never set" % f)
    order = [p_ for p_ in params if p_ in INIT_PARAMS]
    coq = {"bool": "bool", "nat": "nat", "Q": "QArith_base.Q", "option N": "option N"}
    out = "".join("Definition %s : nat := %d%%nat.\n" % cv for cv in consts.values()) + "\n"
    # the defaults of the constructor (what a caller that omits the argument gets)
    defaults = dict(zip(reversed([x.arg for x in a.args]), reversed(a.defaults)))
    for p_ in order:
        d = defaults.get(p_)
        if d is None: continue
        ty = INIT_PARAMS[p_]
        if ty == "Q" and isinstance(d, ast.Constant) and isinstance(d.value, (int, float)) and not isinstance(d.value, bool): term = q_literal(d.value)
        elif ty == "option N" and isinstance(d, ast.Constant) and d.value is None: term = "None"
        else:
            term, t2 = value(d, {}, False)
            if t2 != ty or (isinstance(d, ast.Name) and d.id in INIT_PARAMS): bad(d, "__init__: default of %s" % p_)
        out += "Definition gen_init_default_%s : %s := %s.\n" % (p_, coq[ty], term)
    out += ("\nDefinition gen_init %s : %sclient_cfg :=\n  %sBuild_client_cfg %s.\n"
            % (" ".join("(%s : %s)" % (p_, coq[INIT_PARAMS[p_]]) for p_ in order), R, R, " ".join(fields[f][0] for f in INIT_FIELDS)))
    return out

# ------------------------------------------------------------------ GeminiClient.get
def translate_get(tree, consts):
    """validate_url(...) statements (exceptions are res values: the first failure is the result), then the dispatch on follow_redirects;
    the two coroutine methods are callees returning res"""
    fn = find_function(tree, "GeminiClient", "get")
    a = fn.args
    if not isinstance(fn, ast.AsyncFunctionDef) or [x.arg for x in a.args] != ["self", "url", "follow_redirects"] or a.vararg or a.kwarg or a.kwonlyargs or a.posonlyargs:
        bad(fn, "get: signature")
    gwr = find_function(tree, "GeminiClient", "_get_with_redirects")
    gs = find_function(tree, "GeminiClient", "_get_single")
    ga = gwr.args
    if [x.arg for x in ga.args] != ["self", "url", "max_redirects", "redirect_chain"] or ga.vararg or ga.kwarg or ga.kwonlyargs or ga.posonlyargs \
       or [ast.unparse(d) for d in ga.defaults] != ["None"] or not isinstance(gwr, ast.AsyncFunctionDef): bad(gwr, "_get_with_redirects: signature")
    if [x.arg for x in gs.args.args] != ["self", "url"] or not isinstance(gs, ast.AsyncFunctionDef): bad(gs, "_get_single: signature")
    FAIL = "| Err k__ m__ => Err k__ m__ | OutOfModel => OutOfModel end"
    tmp = [0]
    def rexpr(e, want, k):
        """an expression that may raise, in continuation style: k(term)"""
        if isinstance(e, ast.Name) and e.id == "url" and want == "str": return k("url")
        if isinstance(e, ast.Name) and e.id == "follow_redirects" and want == "bool": return k("follow_redirects")
        if isinstance(e, ast.Name) and e.id in consts and want == "nat": return k(consts[e.id][0])
        if isinstance(e, ast.Constant) and isinstance(e.value, int) and not isinstance(e.value, bool) and e.value >= 0 and want == "nat": return k("%d%%nat" % e.value)
        if isinstance(e, ast.Constant) and e.value is None and want == "chain": return k("None")
        if isinstance(e, ast.Attribute) and ast.unparse(e) == "self.max_redirects" and want == "nat": return k("(%scfg_max_redirects self__)" % R)
        if isinstance(e, ast.Attribute) and e.attr == "normalized" and want == "str" and isinstance(e.value, ast.Call) and ast.unparse(e.value.func) == "parse_url" \
           and len(e.value.args) == 1 and not e.value.keywords:
            tmp[0] += 1
            v = "p__%d" % tmp[0]
            return rexpr(e.value.args[0], "str", lambda x: "(match parse_url %s with Ok %s => %s %s)" % (x, v, k("(Url.p_norm %s)" % v), FAIL))
        bad(e, "get: expression (%s expected)" % want)
    def call_args(call, names, kinds, defaults):
        if len(call.args) > len(names): bad(call, "too many arguments")
        given = dict(zip(names, call.args))
        for kw in call.keywords:
            if kw.arg is None or kw.arg in given or kw.arg not in names: bad(call, "keyword argument")
            given[kw.arg] = kw.value
        for n, d in defaults.items(): given.setdefault(n, d)
        if set(given) != set(names): bad(call, "missing argument")
        return [(given[n], kinds[n]) for n in names]
    def many(pairs, k, acc=()):
        if not pairs: return k(list(acc))
        (e, want), rest = pairs[0], pairs[1:]
        return rexpr(e, want, lambda x: many(rest, k, acc + (x,)))
    def block(stmts):
        if not stmts: bad(fn, "get: control can fall off the end")
        s, rest = stmts[0], stmts[1:]
        if isinstance(s, ast.Expr) and isinstance(s.value, ast.Constant) and isinstance(s.value.value, str): return block(rest)
        if isinstance(s, ast.Expr) and isinstance(s.value, ast.Call) and ast.unparse(s.value.func) == "validate_url" and len(s.value.args) == 1 and not s.value.keywords:
            return rexpr(s.value.args[0], "str", lambda x: "(match validate_url %s with Ok _ => %s %s)" % (x, block(rest), FAIL))
        if isinstance(s, ast.If):
            if not (isinstance(s.test, ast.Name) and s.test.id == "follow_redirects" or isinstance(s.test, ast.UnaryOp) and isinstance(s.test.op, ast.Not)
                    and isinstance(s.test.operand, ast.Name) and s.test.operand.id == "follow_redirects"): bad(s, "get: test")
            c = "follow_redirects" if isinstance(s.test, ast.Name) else "(negb follow_redirects)"
            return "(if %s then %s else %s)" % (c, block(s.body + rest), block(s.orelse + rest))
        if isinstance(s, ast.Return):
            v = s.value
            if not (isinstance(v, ast.Await) and isinstance(v.value, ast.Call)): bad(s, "get: `return await self.<method>(...)`")
            f = ast.unparse(v.value.func)
            if f == "self._get_with_redirects":
                pairs = call_args(v.value, ["url", "max_redirects", "redirect_chain"], {"url": "str", "max_redirects": "nat", "redirect_chain": "chain"},
                                  {"redirect_chain": ga.defaults[0]})
                return many(pairs, lambda xs: "(get_with_redirects %s)" % " ".join(xs))
            if f == "self._get_single":
                pairs = call_args(v.value, ["url"], {"url": "str"}, {})
                return many(pairs, lambda xs: "(get_single %s)" % " ".join(xs))
            bad(s, "get: callee")
        bad(s, "get: statement")
    return ("Definition gen_get {A : Type} (validate_url : str -> res unit) (parse_url : str -> res Url.parsed)\n"
            "  (get_with_redirects : str -> nat -> option (list str) -> res A) (get_single : str -> res A)\n"
            "  (self__ : %sclient_cfg) (url : str) (follow_redirects : bool) : res A :=\n  %s.\n" % (R, block(fn.body)))

# ------------------------------------------------------------------ which functions
CALL = "%s -> %s * list caction"
COMMON = dict(file="client/session.py", cls="GeminiClient", db=False,
              attrs={"self.tofu_db": ("(%scfg_tofu_db self__)" % R, ("opt", "db")), "self.decode_bodies": ("(%scfg_decode_bodies self__)" % R, "bool"),
                     "self.ssl_context": ("(%scfg_ssl_context self__)" % R, "ctx")},
              callees=SESSION["callees"])
DBP = SESSION["callee_params"]
PROTO_OPS = [("connection_made", "P -> P * list caction"), ("send_request", "P -> P * list caction"), ("wait_response", "P -> %swait_outcome" % R)]
SPECS = [
    dict(COMMON, func="_get_single", name="gen_get_single", pyparams=["self", "url"], params=[("url", "str")], proto_class="GeminiClientProtocol",
         callee_params=[("parse_url", "str -> res Url.parsed")] + DBP + [("new_protocol", "str -> bool -> bool -> P")] + PROTO_OPS),
    dict(COMMON, func="upload", name="gen_upload", pyparams=["self", "url", "content", "mime_type", "token"], proto_class="TitanClientProtocol",
         params=[("url", "str"), ("content", "pycontent"), ("mime_type", "str"), ("token", ("opt", "str"))],
         callee_params=[("str_replace", "str -> str -> str -> str"), ("parse_url", "str -> res Url.parsed")] + DBP + [("new_protocol", "str -> str -> bool -> P")] + PROTO_OPS),
]

HEADER = """(* GENERATED by /verif/translate/py2coq_session.py from /repo/src/nauyaca/client/session.py (with client/protocol.py and security/tofu.py) - do not edit *)
From Coq Require Import List NArith ZArith Bool.
From Coq Require QArith.
From NV Require Import Prelude.Str Prelude.Res Prelude.Utf8 Model.Tofu Model.ClientProto Equiv.TofuGlue Equiv.SessionGlue.
From NV Require Model.Url.
Import ListNotations.
Open Scope list_scope.

"""

def main(out_path):
    parse = lambda rel: ast.parse(open(os.path.join(SRC, rel)).read(), rel)
    session, tofu, proto = parse("client/session.py"), parse("security/tofu.py"), parse("client/protocol.py")
    check_truthy(tofu)
    table = exc_table(tofu)
    protos = proto_signatures(proto)
    chunks = [HEADER]
    chunks.append("Definition gen_exc_bases : list (str * list str) :=\n  [%s].\n\n" % "; ".join("(%s, [%s])" % (coq_str(c), "; ".join(coq_str(b) for b in bs)) for c, bs in table))
    consts = module_constants(session, parse("protocol/constants.py"))
    try: chunks.append(translate_init(session, consts) + "\n")
    except Untranslatable as e: raise Untranslatable("client/session.py:GeminiClient.__init__: %s" % e)
    try: chunks.append(translate_get(session, consts) + "\n")
    except Untranslatable as e: raise Untranslatable("client/session.py:GeminiClient.get: %s" % e)
    for spec in SPECS:
        spec = dict(spec, protos=protos, exc_names=[c for c, _ in table])
        try:
            fn = copy.deepcopy(find_function(session, spec["cls"], spec["func"]))
            chunks.append(CallFn(spec, fn).translate() + "\n")
        except Untranslatable as e:
            raise Untranslatable("%s:%s.%s: %s" % (spec["file"], spec["cls"], spec["func"], e))
    open(out_path, "w").write("".join(chunks))
    print("py2coq_session: %d functions translated" % (len(SPECS) + 2))

if __name__ == "__main__":
    try:
        main(sys.argv[1] if len(sys.argv) > 1 else os.path.join(os.path.dirname(os.path.dirname(os.path.abspath(__file__))), "coq", "Gen", "SessionGen.v"))
    except (Untranslatable, OSError, SyntaxError) as e:
        print("UNTRANSLATABLE:", e); sys.exit(2)
