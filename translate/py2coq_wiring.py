#!/usr/bin/env python3
"""py2coq_wiring: translator for the WIRING of the server's middleware chain -> coq/Gen/WiringGen.v  (property C04).

What `start_server` hands to the protocol objects is what every request passes through; the protocol-level part of C04 is
proved over the translation of server/protocol.py.  This translator regenerates, from the current source text:

  server/middleware.py   every @dataclass (RateLimitConfig, AccessControlConfig, CertificateAuthPathRule,
                         CertificateAuthConfig) as a Record py_<C>; every class with an `async def process_request` of the
                         Middleware signature (other than the Protocol itself and the chain class) as one constructor
                         `Mw_<C> (<__init__ parameters>)` of `Inductive mwkind` (with `mwclass`, `class_of`: the class
                         tag of an object); MiddlewareChain as a record with its
                         __init__ (py2coq_mw.gen_init_class).
  server/config.py       `Record py_ServerConfig` with the fields the translated code reads, and
                         get_rate_limit_config / get_access_control_config / get_certificate_auth_config as functions
                         py_ServerConfig -> [res] (option) <cfg>  (res when the method can raise: KeyError of
                         `path_config["prefix"]`, TypeError of iterating None).
  server/server.py       start_server, the statements from the one that creates the middleware list (`L = []`, L being the
                         argument of the chain constructor) to the `if` that contains the `loop.create_server` calls:
                           gen_setup  = that slice up to the assignment of the chain:  (L, chain, effects)
                           gen_start  = the whole slice:                              (L, chain, effects)
                           gen_boot   = gen_start extended upwards over the selection of the TLS contexts: from the first
                                        top-level statement that binds one of the Optional locals the create_server calls
                                        read (`ssl_context = None`, `pyopenssl_ctx = None`) - the four branches that call
                                        a context builder.  A builder call `x = builder(..)` is the effect `EffBuild name`
                                        and the value of an ORACLE argument `oracle_<name>` that returns a context.
                         preceded by the single-assignment pure locals they read (`request_client_cert`, `use_pyopenssl`).
                         gen_middlewares / gen_chain / gen_setup_effects are the projections of gen_setup.
                         Effects (WiringGlue.effect), in program order: `x.m()` on a middleware object (a plain `def`
                         without parameters: `rate_limiter.start()`) and `await loop.create_server(factory, host, port,
                         ssl=..)`, whose factory is a Gallina function `unit -> proto`.
                         `factories`: one row per create_server call (site, enclosing condition and branch, the
                         callables from the factory down to the application protocol, the source text of the arguments of
                         its constructor); `chain_var`, `list_var`: the names of the two locals.
  locations (C17)        server/location.py: HandlerType (enum), LocationConfig (record), __post_init__ over the record's fields
                         (gen_location_post_init; pathlib's exists / is_dir are oracle arguments).  server/handler.py,
                         server/proxy.py: `Inductive handler`, one constructor per class with its __init__ arguments.
                         server/config.py: ServerConfig.get_location_router with the nested create_handler (a local
                         function returning `res handler`), the loop, `router.add_route(..)` = MwGen.gen_router_add_route
                         (py2coq_mw.py's translation of Router.add_route; `Router()` = no routes, no default handler:
                         checked), `h.handle` = `handle_of h` for an argument handle_of.
  __main__.py            the block that ends with the (only) call of start_server, from the first statement that binds one
                         of the arguments feeding a wiring parameter:  gen_serve_args : py_ServerConfig -> <closure
                         variables> -> res (<the wiring parameters of start_server, in signature order>).

General rules (on top of py2coq.Fn, same fail-closed discipline: anything else raises Untranslatable, exit 2)
  statements   `x = e`, `x: T = e` (a rebinding is coerced to the variable's type), `xs.append(e)`, if/elif/else (the rest
               of the block is the continuation of both branches), `for x in xs` (accumulators computed; iterating an
               Optional list: TypeError when None), return, relative `from .. import C` of a class already known, logging
               calls (`logger.<level>(..)`): ignored only if no argument can raise - py2coq.safe_log_arg, extended by list
               comprehensions whose parts are safe.
  narrowing    `if X:`, `if X is not None:`, `A and X is not None and ..` (also in conditional expressions and boolean
               expressions) for an Optional local X: a match; X denotes the payload in the guarded part until reassigned.
               `if X:` on an Optional object needs the class to define neither __bool__ nor __len__ (checked).
  expressions  names, constants, fields of records, comparisons / and / or / not (py2coq), conditional expressions (a None
               branch makes the type Optional), `[]`, `lambda: e` (-> fun _ : unit => e), `any(c for x in xs)` -> existsb,
               `set(xs)` (a set[str] is the list of its elements: only membership is ever observed), keyword / positional
               constructor calls of the generated records (missing arguments from constant defaults; an unknown keyword is
               the TypeError CPython raises), middleware / chain / protocol constructors, `d.get(k)`, `d.get(k, x)`,
               `d[k]` (hoisted: KeyError) on a dict entry with a typed view, calls of the generated config methods.
  more rules   nested `def` with annotated parameters (closure; returns res), `assert` (AssertionError), `raise E(msg)` with
               a safe message, `if X is None: <raise/return>` narrows X afterwards, narrowing of `x.f` for a record x,
               enum members and ==, `a or b` on Optional int / int, `+` on str, startswith, isinstance(x, str) / Path(x) on
               `Path | str`, `p.exists()` on an Optional path (AttributeError when None; hoisted like d[k]), methods that
               assign fields of self (fields as locals, the record rebuilt at the end), string annotations.
  opaque       a local that the slice reads but that is assigned before it in a way outside the subset (`router`, the two
               TLS contexts) is an INPUT of abstract type T_<name> (Optional if one of its assignments is None); an
               attribute of such a value (`router.route`) is a function argument attr_<a> : T_<name> -> A_<a>.
  aliasing     a list that has been passed to a constructor is shared with the object: appending to it afterwards is
               refused.  A lambda sees variables, not values: every variable it mentions must not be assigned after it.

Frame conditions checked on the whole of start_server (refused otherwise): the wiring parameters and the single-assignment
locals are never rebound, the parameters are only read (attribute reads, tests, receivers of ServerConfig methods that
assign no attribute); the names bound in the slice do not occur before it; after it neither they nor the variables captured
by the lambdas occur; every create_server call of the function is inside the slice and awaited.

TRUSTED TABLES (everything else is read from the AST)
  FILES/NAMES  where start_server, ServerConfig, the three get_*_config methods, the chain class and the protocol classes
               live.
  PROTO        protocol class -> WiringGlue.proto constructor, with the parameter names of its __init__ (compared with the
               source: names, order, None defaults).
  ANNOT        annotation text -> type: `dict[str, Any]` -> path_entry, `set[str]` -> list str, `list[Middleware]` ->
               list mwkind, `int` -> Z, `float` -> Q (py2coq_mw.annot_type for the rest).
  DICT_VIEWS   the keys of a path_entry and the WiringGlue field each denotes (values have the types
               CertificateAuthPathRule declares).
  ENV_CALLS    asyncio.get_running_loop() -> RunningLoop; LISTEN: create_server(protocol_factory, host, port, ssl=).
  ORACLES      the four TLS context builders and the abstract type of what they return.  Checked on their defs: plain
               functions, every `return` returns a call result or a local only ever assigned call results, control cannot
               fall off the end - so a call that returns, returns an object (never None).  Arguments: those the call site
               supplies, typed by the def's annotations.  What the builders configure is tlsconf.py's table (C20).
  TRUTHY/STR_OF  `Path | str` (certfile, keyfile) -> WiringGlue.pathlike: a Path is true, a str iff non-empty; str(None)
               is "None"; a first binding `x = None` without annotation gets Optional of the type of the builder results
               assigned to x later.
  HANDLERS, KEPT_FIELDS, PATH_METHODS, ROUTER_*  the handler classes, what ProxyHandler keeps of its arguments (checked), the
               pathlib oracles, where Router / RouteType live (their translation is MwGen's).
  Not modelled: exceptions of the statements outside the slices (then no server is started), the state inside the
  middleware objects (an object is its class and constructor arguments), every keyword of the start_server call that does
  not feed a wiring parameter (must be a safe expression; dropped)."""
import ast, sys, os, copy
sys.path.insert(0, os.path.dirname(os.path.abspath(__file__)))
import py2coq
from py2coq import Fn, Untranslatable, bad, coq_str, find_function, safe_log_arg, SRC
import py2coq_mw
from py2coq_mw import Ctx, annot_type, ctype, record_text, class_node, is_opt

# ------------------------------------------------------------------ trusted tables
SERVER_FILE, SERVER_FUNC = "server/server.py", "start_server"
MW_FILE, CHAIN_CLASS = "server/middleware.py", "MiddlewareChain"
CONFIG_FILE, CONFIG_CLASS = "server/config.py", "ServerConfig"
CONFIG_METHODS = ["get_rate_limit_config", "get_access_control_config", "get_certificate_auth_config"]
MAIN_FILE = "__main__.py"
MW_SIGNATURE = ["self", "request_url", "client_ip", "client_cert_fingerprint"]
PROTO = {"GeminiServerProtocol": ("server/protocol.py", "PGemini", ["request_handler", "middleware", "upload_handler"], ["H", "C", "U"]),
         "TLSServerProtocol": ("server/tls_protocol.py", "PTls", ["inner_protocol_factory", "ssl_context"], [None, "X"])}
APP_PROTO = "GeminiServerProtocol"
ANNOT = {"dict[str, Any]": "path_entry", "set[str]": ("list", "str"), "list[Middleware]": ("list", "mwkind"),
         "Path | str": "pathlike", "ssl.SSLContext": "T_sslctx", "Path": "pathlike", "RequestHandler": "handler", "Router": "(routes REQ RX)"}
# the TLS context builders: oracle arguments of gen_boot that RETURN a context (checked: every `return` of the def returns
# a constructed object); what they set on it is tlsconf.py's business.  name -> (file, abstract result type)
ORACLES = {"create_server_context": ("security/tls.py", "T_sslctx"), "_create_self_signed_context": (SERVER_FILE, "T_sslctx"),
           "create_pyopenssl_server_context": ("security/pyopenssl_tls.py", "T_pyctx"),
           "_create_self_signed_pyopenssl_context": (SERVER_FILE, "T_pyctx")}
# C17: the location router.  Handler classes (constructor = one constructor of `Inductive handler`), the Router of
# Gen/MwGen.v (py2coq_mw.py: py_Route, gen_router_add_route), enums, oracles for pathlib methods.
LOCATION_FILE, LOCATION_CLASS, LOCATION_ENUM = "server/location.py", "LocationConfig", "HandlerType"
HANDLERS = {"StaticFileHandler": "server/handler.py", "ProxyHandler": "server/proxy.py"}
ROUTER_FILE, ROUTER_CLASS, ROUTE_ENUM = "server/router.py", "Router", "RouteType"
ROUTES_T, HANDLE_T = "(routes REQ RX)", ("fun", "REQ", "ServerProto.resp")
ENUM_PREFIX = {ROUTE_ENUM: "MwGen."}          # members of RouteType are MwGen's
PATH_METHODS = {"exists": "path_exists", "is_dir": "path_is_dir"}      # oracle arguments pathlike -> bool
TYPE_ONLY_IMPORTS = {"RequestHandler"}
# what a handler object keeps of its constructor arguments (compared with the __init__ of the class: each attribute assigned
# exactly once in the class, with this right-hand side) - the form Equiv.upstream_url_tie / EquivWiring.handler_upstream_url use
KEPT_FIELDS = {"ProxyHandler": {"upstream": "upstream.rstrip('/')", "prefix": "prefix", "strip_prefix": "strip_prefix", "timeout": "timeout"}}
TRUTHY = {"pathlike": "pathlike_truthy"}      # WiringGlue: a Path is always true, a str iff non-empty
STR_OF = {"pathlike": "pathlike_str"}         # str(x)
DICT_VIEWS = {"path_entry": {"prefix": ("pe_prefix", "str"), "require_cert": ("pe_require_cert", "bool"),
                             "allowed_fingerprints": ("pe_allowed_fingerprints", ("list", "str"))}}
ENV_CALLS = {"asyncio.get_running_loop": ("RunningLoop", "evloop")}
LISTEN = ("evloop", "create_server", ["protocol_factory", "host", "port"], ["ssl"])
LOG_METHODS = ("debug", "info", "warning", "error", "exception", "critical")
COQ_RESERVED = {"end", "fun", "fix", "let", "match", "then", "forall", "exists", "exists2", "Type", "Set", "Prop", "cofix", "at", "using",
                "where", "struct", "return", "as", "in", "if", "else", "with", "for", "tt", "true", "false", "None", "Some", "Ok", "Err",
                "nil", "cons", "fst", "snd", "map", "unit", "bool", "list", "option", "str", "effect", "proto", "mwkind"}
ASPEC = {"annot": ANNOT, "int": "Z"}

def atype(g, a):
    """type of an annotation; a string annotation ("Router | None") is parsed first"""
    if a is None: return None
    if isinstance(a, ast.Constant) and isinstance(a.value, str):
        try: a = ast.parse(a.value, mode="eval").body
        except SyntaxError: return None
    return annot_type(a, ASPEC, g.ctx)

class Raises(Untranslatable):
    """an exception can escape a function translated as total: translate it again with a `res` result"""

def compat(got, want):
    if got == want or got == "?" or want == "?": return True
    if isinstance(got, tuple) and isinstance(want, tuple) and len(got) == len(want) and got[0] == want[0]:
        return all(compat(a, b) for a, b in zip(got[1:], want[1:]))
    return False

def safe_arg(e):
    """py2coq.safe_log_arg, plus `[elt for x in iter if conds]` with safe parts"""
    if safe_log_arg(e): return True
    if isinstance(e, ast.ListComp) and len(e.generators) == 1:
        g = e.generators[0]
        return (not g.is_async and isinstance(g.target, ast.Name) and safe_log_arg(g.iter) and all(safe_log_arg(c) for c in g.ifs)
                and safe_log_arg(e.elt))
    return False

def is_log_call(s):
    return (isinstance(s, ast.Expr) and isinstance(s.value, ast.Call) and isinstance(s.value.func, ast.Attribute)
            and isinstance(s.value.func.value, ast.Name) and s.value.func.value.id == "logger" and s.value.func.attr in LOG_METHODS)

def dotted(n):
    if isinstance(n, ast.Name): return n.id
    if isinstance(n, ast.Attribute):
        b = dotted(n.value)
        return None if b is None else b + "." + n.attr
    return None

class Free(ast.NodeVisitor):
    """names read before they are bound, in evaluation order (logging calls excluded)"""
    def __init__(self): self.bound, self.free = set(), []
    def visit_Name(self, n):
        if isinstance(n.ctx, ast.Load):
            if n.id not in self.bound and n.id not in self.free: self.free.append(n.id)
        else: self.bound.add(n.id)
    def visit_Expr(self, n):
        if not is_log_call(n): self.generic_visit(n)
    def visit_Assign(self, n):
        self.visit(n.value)
        for t in n.targets: self.visit(t)
    def visit_AnnAssign(self, n):
        if n.value is not None: self.visit(n.value)
        self.visit(n.target)
    def comp(self, n, elts):
        saved = set(self.bound)
        for g in n.generators:
            self.visit(g.iter); self.visit(g.target)
            for i in g.ifs: self.visit(i)
        for e in elts: self.visit(e)
        self.bound = saved
    def visit_ListComp(self, n): self.comp(n, [n.elt])
    def visit_GeneratorExp(self, n): self.comp(n, [n.elt])
    def visit_SetComp(self, n): self.comp(n, [n.elt])
    def visit_DictComp(self, n): self.comp(n, [n.key, n.value])

def free_names(stmts):
    f = Free()
    for s in stmts: f.visit(s)
    return f.free

def stored_names(node):
    return {n.id for n in ast.walk(node) if isinstance(n, ast.Name) and isinstance(n.ctx, (ast.Store, ast.Del))}

# ------------------------------------------------------------------ globals of one run
class G:
    def __init__(self):
        self.ctx = Ctx()
        self.records = {}      # dataclass name -> dict(fields, defaults (AST))
        self.mw = {}           # middleware class -> dict(params, defaults, sync, asyncm)
        self.methods = {}      # (class, method) -> dict(name, ret, may_raise)
        self.handlers = {}     # handler class -> dict(params, defaults)
        self.add_route_sig = None
        self.trees = {}
    def tree(self, rel):
        if rel not in self.trees: self.trees[rel] = ast.parse(open(os.path.join(SRC, rel)).read(), rel)
        return self.trees[rel]

# ------------------------------------------------------------------ the translator
class W(Fn):
    def __init__(self, spec, node, g):
        spec.setdefault("types", {})
        super().__init__(spec, node)
        self.g = g
        self.narrow = {}            # local name -> (coq variable, payload type)
        self.tmp = 0
        self.path = []              # enclosing (condition text, branch)
        self.rows = {}              # lineno -> factory row
        self.attr_params = []       # (name, base type, result type)
        self.escaped = {}           # list stored into an object -> line of the call (translation order is not program order: compare lines)
        self.lambdas = []           # (lineno, free names)
        self.roles = {}             # H C U X S -> type
        self.ret_type = spec.get("ret_type")
        self.final = spec.get("final")      # callback for the call that ends the __main__ slice
        self.mw_class_of = {}       # local name -> middleware class of the object it was last bound to
        self.last_proto = None
        self.used = set()           # names the translated text reads
        self.oracles = {}           # builder name -> (argument types, result type)
        self.extra = []             # further oracle / semantic arguments used: names from EXTRA_PARAMS

    def fresh(self, base):
        self.tmp += 1
        return "%s__%d" % (base, self.tmp)

    def check_name(self, node, name):
        if name in COQ_RESERVED or name.endswith("__") or name.startswith("gen_") or name.startswith("attr_") or not name.isidentifier() \
           or not name.isascii():
            bad(node, "local name %s clashes with the generated vocabulary" % name)

    def do_raise(self, node, cls):
        if not self.may_raise: raise Raises("%s can be raised (line %s)" % (cls, getattr(node, "lineno", "?")))
        return "(Err %s [])" % coq_str(cls)

    def role(self, node, r, t):
        if r is None or t is None or t == "none": return
        if r in self.roles and self.roles[r] != t: bad(node, "protocol argument %s used at two types" % r)
        self.roles[r] = t

    # ---------------- typed expressions
    def typeof(self, e): return self.tx(e)[1]
    def expr(self, e): return self.tx(e)[0]

    def tx(self, e):
        if isinstance(e, ast.Await): return self.tx(e.value)
        if isinstance(e, ast.Constant):
            v = e.value
            if v is None: return "None", "none"
            if isinstance(v, bool): return ("true" if v else "false"), "bool"
            if isinstance(v, int): return "%d%%Z" % v, "Z"
            if isinstance(v, str): return coq_str(v), "str"
            bad(e, "constant")
        if isinstance(e, ast.Name):
            self.used.add(e.id)
            if e.id in self.narrow: return self.narrow[e.id]
            if e.id in self.env: return e.id, self.env[e.id]
            bad(e, "unknown name")
        if isinstance(e, ast.Attribute):
            key = dotted(e)
            if key is not None and key in self.narrow: return self.narrow[key]
            if isinstance(e.value, ast.Name) and e.value.id in self.g.ctx.enums and e.value.id not in self.env:
                if e.attr not in self.g.ctx.enums[e.value.id]: bad(e, "unknown enum member")
                return "%s%s_%s" % (ENUM_PREFIX.get(e.value.id, ""), e.value.id, e.attr), ("enum", e.value.id)
            b, bt = self.tx(e.value)
            if bt == "handler" and e.attr == "handle":
                self.need("handle_of")
                return "(handle_of %s)" % b, HANDLE_T
            if isinstance(bt, tuple) and bt[0] == "obj":
                for f, t in self.g.ctx.classes[bt[1]]["fields"]:
                    if f == e.attr: return "(%s_%s %s)" % (bt[1], f, b), t
                bad(e, "no field %s in the record of %s" % (e.attr, bt[1]))
            if isinstance(bt, str) and bt.startswith("T_"):
                name, rt = "attr_" + e.attr, "A_" + e.attr
                for n, t0, _ in self.attr_params:
                    if n == name and t0 != bt: bad(e, "attribute %s read on two opaque types" % e.attr)
                if (name, bt, rt) not in self.attr_params: self.attr_params.append((name, bt, rt))
                return "(%s %s)" % (name, b), rt
            bad(e, "attribute of a value of type %s" % (bt,))
        if isinstance(e, ast.Compare):
            if len(e.ops) == 1 and isinstance(e.ops[0], (ast.Is, ast.IsNot)) and isinstance(e.comparators[0], ast.Constant) \
               and e.comparators[0].value is None:
                x, t = self.tx(e.left)
                if not is_opt(t): bad(e, "`is None` on a value that is not Optional")
                r = "(match %s with None => true | Some _ => false end)" % x
                return (r if isinstance(e.ops[0], ast.Is) else "(negb %s)" % r), "bool"
            if len(e.ops) == 1 and isinstance(e.ops[0], (ast.Eq, ast.NotEq)):
                (a, ta), (b, tb) = self.tx(e.left), self.tx(e.comparators[0])
                if isinstance(ta, tuple) and ta[0] == "enum" and ta == tb:
                    r = "(%spy_%s_eqb %s %s)" % (ENUM_PREFIX.get(ta[1], ""), ta[1], a, b)
                    return (r if isinstance(e.ops[0], ast.Eq) else "(negb %s)" % r), "bool"
            return Fn.expr(self, e), "bool"
        if isinstance(e, ast.BoolOp) and isinstance(e.op, ast.Or) and len(e.values) == 2:
            # `a or b` on values: a if it is true, else b   (Optional int / int: None and 0 are false)
            (a, ta), (b, tb) = self.tx(e.values[0]), self.tx(e.values[1])
            if ta == ("opt", "Z") and tb == "Z":
                return "(match %s with Some v__ => if Z.eqb v__ 0 then %s else v__ | None => %s end)" % (a, b, b), "Z"
            if not (ta == "bool" and tb == "bool") and not (self.is_condition(e.values[0]) and self.is_condition(e.values[1])):
                bad(e, "`or` of values of types %s and %s" % (ta, tb))
        if isinstance(e, ast.BoolOp) or (isinstance(e, ast.UnaryOp) and isinstance(e.op, ast.Not)):
            return self.cond(e), "bool"
        if isinstance(e, ast.BinOp) and isinstance(e.op, ast.Add):
            (a, ta), (b, tb) = self.tx(e.left), self.tx(e.right)
            if ta == "str" and tb == "str": return "(%s ++ %s)" % (a, b), "str"
            bad(e, "+ at types %s, %s" % (ta, tb))
        if isinstance(e, ast.IfExp): return self.ifexp(e)
        if isinstance(e, ast.List):
            if not e.elts: return "[]", ("list", "?")
            parts = [self.tx(x) for x in e.elts]
            for p in parts[1:]:
                if p[1] != parts[0][1]: bad(e, "list display of mixed types")
            return "[" + "; ".join(p[0] for p in parts) + "]", ("list", parts[0][1])
        if isinstance(e, ast.Lambda):
            a = e.args
            if a.args or a.vararg or a.kwarg or a.kwonlyargs or a.posonlyargs: bad(e, "lambda with parameters")
            body, t = self.tx(e.body)
            self.lambdas.append((e.lineno, [n.id for n in ast.walk(e.body) if isinstance(n, ast.Name)]))
            return "(fun _ : unit => %s)" % body, ("fun", "unit", t)
        if isinstance(e, ast.Call): return self.call(e)
        if isinstance(e, ast.Subscript): bad(e, "subscript (only d[\"key\"] on a typed dict entry, as a whole operand)")
        bad(e, "expression")

    def is_condition(self, e):
        """an operand of and/or/not that is used for its truth value only when the whole expression is (conservative)"""
        return isinstance(e, (ast.Compare, ast.BoolOp)) or (isinstance(e, ast.UnaryOp) and isinstance(e.op, ast.Not))

    def need(self, name):
        if name not in self.extra: self.extra.append(name)

    def ifexp(self, e):
        box = {}
        def then_fn():
            box["t"] = self.tx(e.body); return "THEN__"
        def else_fn():
            box["e"] = self.tx(e.orelse); return "ELSE__"
        skeleton = self.branch(e.test, then_fn, else_fn)
        (a, ta), (b, tb) = box["t"], box["e"]
        if ta == "none" and tb == "none": t = "none"
        elif ta == "none": t = tb if is_opt(tb) else ("opt", tb)
        elif tb == "none": t = ta if is_opt(ta) else ("opt", ta)
        elif compat(ta, tb): t = ta
        elif is_opt(ta) and compat(ta[1], tb): t = ta
        elif is_opt(tb) and compat(tb[1], ta): t = tb
        else: bad(e, "branches of a conditional expression have types %s and %s" % (ta, tb))
        def fit(term, ty):
            if ty == "none" or not is_opt(t) or is_opt(ty): return term
            return "(Some %s)" % term
        return skeleton.replace("THEN__", fit(a, ta)).replace("ELSE__", fit(b, tb)), t

    def coerce(self, e, want):
        term, got = self.tx(e)
        return self.fit(e, term, got, want)

    def fit(self, node, term, got, want):
        if want is None or compat(got, want): return term
        if is_opt(want):
            if got == "none": return "None"
            if compat(got, want[1]): return "(Some %s)" % term
        bad(node, "value of type %s where %s is expected" % (got, want))

    def bind_args(self, e, names, what):
        """positional and keyword arguments of a call by parameter name -> dict; unknown keyword: None"""
        if any(k.arg is None for k in e.keywords) or any(isinstance(a, ast.Starred) for a in e.args): bad(e, "* / ** arguments")
        if len(e.args) > len(names): bad(e, "too many arguments for %s" % what)
        out = dict(zip(names, e.args))
        for k in e.keywords:
            if k.arg not in names: return None
            if k.arg in out: bad(e, "argument %s given twice" % k.arg)
            out[k.arg] = k.value
        return out

    def call(self, e):
        f = e.func
        g = self.g
        if isinstance(f, ast.Name) and f.id not in self.env:
            if f.id == "any" and len(e.args) == 1 and not e.keywords and isinstance(e.args[0], ast.GeneratorExp):
                ge = e.args[0]
                if len(ge.generators) != 1 or ge.generators[0].is_async or not isinstance(ge.generators[0].target, ast.Name): bad(e, "generator form")
                gen = ge.generators[0]
                it, t = self.tx(gen.iter)
                if not (isinstance(t, tuple) and t[0] == "list"): bad(e, "any() over a value of type %s" % (t,))
                var = gen.target.id
                self.check_name(gen.target, var)
                if var in self.env or var in self.narrow: bad(e, "generator variable shadows a local")
                self.env[var] = t[1]
                try: c = " && ".join([self.cond(x) for x in gen.ifs] + [self.cond(ge.elt)])
                finally: del self.env[var]
                return "(existsb (fun %s => %s) %s)" % (var, c, it), "bool"
            if f.id == "str" and len(e.args) == 1 and not e.keywords:
                x, t = self.tx(e.args[0])
                if t == "str": return x, "str"
                if t in STR_OF: return "(%s %s)" % (STR_OF[t], x), "str"
                if is_opt(t) and t[1] in STR_OF:      # str(None) is the text "None"
                    return "(match %s with Some v__ => %s v__ | None => %s end)" % (x, STR_OF[t[1]], coq_str("None")), "str"
                bad(e, "str() of a value of type %s" % (t,))
            if f.id == "isinstance" and len(e.args) == 2 and not e.keywords and isinstance(e.args[1], ast.Name) and e.args[1].id == "str":
                x, t = self.tx(e.args[0])
                if t == "pathlike": return "(pathlike_is_str %s)" % x, "bool"
                if t == "str": return "true", "bool"
                bad(e, "isinstance(.., str) of a value of type %s" % (t,))
            if f.id == "Path" and len(e.args) == 1 and not e.keywords:
                x, t = self.tx(e.args[0])
                if t == "pathlike": return "(pathlike_to_path %s)" % x, "pathlike"
                bad(e, "Path() of a value of type %s" % (t,))
            if f.id in g.handlers:
                info = g.handlers[f.id]
                args = self.bind_args(e, [n for n, _ in info["params"]], f.id)
                if args is None: return self.do_raise(e, "TypeError"), "raises"
                terms = []
                for n, ty in info["params"]:
                    if n in args: terms.append(self.coerce(args[n], ty))
                    elif n in info["defaults"]: terms.append(self.default_term(info["defaults"][n], ty))
                    else: return self.do_raise(e, "TypeError"), "raises"
                return "(H_%s %s)" % (f.id, " ".join(terms)), "handler"
            if f.id == ROUTER_CLASS and not e.args and not e.keywords:
                self.need("router")
                return "(@nil (MwGen.py_Route REQ RX))", ROUTES_T
            if f.id in self.env and isinstance(self.env[f.id], tuple) and self.env[f.id][0] == "lfun":
                bad(e, "call of a local function that can raise inside an expression (bind its result to a variable)")
            if f.id in ORACLES: bad(e, "call of the context builder %s outside `x = %s(..)`" % (f.id, f.id))
            if f.id == "set" and len(e.args) == 1 and not e.keywords:
                x, t = self.tx(e.args[0])
                if t != ("list", "str"): bad(e, "set() of a value of type %s" % (t,))
                return x, t
            if f.id in g.records:
                info = g.records[f.id]
                names = [n for n, _ in info["fields"]]
                args = self.bind_args(e, names, f.id)
                if args is None: return self.do_raise(e, "TypeError"), "raises"
                terms = []
                for n, t in info["fields"]:
                    if n in args: terms.append(self.coerce(args[n], t))
                    elif n in info["defaults"]: terms.append(self.default_term(info["defaults"][n], t))
                    else: return self.do_raise(e, "TypeError"), "raises"
                return "(mk_py_%s %s)" % (f.id, " ".join(terms)), ("obj", f.id)
            if f.id in g.mw:
                info = g.mw[f.id]
                args = self.bind_args(e, [n for n, _ in info["params"]], f.id)
                if args is None: bad(e, "unknown keyword of %s" % f.id)
                terms = []
                for n, t in info["params"]:
                    if n in args: terms.append(self.coerce(args[n], t))
                    elif n in info["defaults"]: terms.append(self.default_term(info["defaults"][n], t))
                    else: bad(e, "missing argument %s" % n)
                return "(Mw_%s %s)" % (f.id, " ".join(terms)), "mwkind"
            if f.id == CHAIN_CLASS:
                if not self.spec.get("allow_chain"): bad(e, "the chain is built outside the top level of %s" % SERVER_FUNC)
                info = g.ctx.methods[(CHAIN_CLASS, "__init__")]
                args = self.bind_args(e, [n for n, _ in info["params"]], f.id)
                if args is None or len(args) != len(info["params"]): bad(e, "arguments of %s" % f.id)
                terms = []
                for n, t in info["params"]:
                    a = args[n]
                    if not isinstance(a, ast.Name): bad(e, "the chain must be built over a list variable")
                    terms.append(self.coerce(a, t)); self.escaped[a.id] = min(e.lineno, self.escaped.get(a.id, e.lineno))
                return "(%s %s)" % (info["name"], " ".join(terms)), ("obj", CHAIN_CLASS)
            if f.id in PROTO:
                _, con, names, roles = PROTO[f.id]
                args = self.bind_args(e, names, f.id)
                if args is None: bad(e, "unknown keyword of %s" % f.id)
                terms, texts = [], {}
                for n, r in zip(names, roles):
                    optional = n in g.proto_optional[f.id]
                    if n not in args:
                        if not optional: bad(e, "missing argument %s" % n)
                        terms.append("(@None ROLE_%s__)" % r); texts[n] = None
                        continue
                    term, t = self.tx(args[n]); texts[n] = ast.unparse(args[n])
                    if r is None:
                        if t != ("fun", "unit", "proto"): bad(e, "%s must be given a protocol factory" % n)
                        terms.append(term)
                    elif optional:
                        self.role(e, r, t[1] if is_opt(t) else t)
                        terms.append("None" if t == "none" else term if is_opt(t) else "(Some %s)" % term)
                    else:
                        if is_opt(t) or t == "none": bad(e, "Optional value for the required argument %s" % n)
                        self.role(e, r, t); terms.append(term)
                self.last_proto = (f.id, texts)
                return "(%s %s)" % (con, " ".join(terms)), "proto"
            bad(e, "call of %s" % f.id)
        if isinstance(f, ast.Attribute):
            key = dotted(f)
            if key in ENV_CALLS and key.split(".")[0] not in self.env and not e.args and not e.keywords: return ENV_CALLS[key]
            recv, rt = self.tx(f.value)
            if rt == "str" and f.attr in ("startswith", "endswith", "rstrip") and not e.keywords: return Fn.expr(self, e), Fn.typeof(self, e)
            if rt == "pathlike" and f.attr in PATH_METHODS and not e.args and not e.keywords:
                self.need(PATH_METHODS[f.attr])
                return "(%s %s)" % (PATH_METHODS[f.attr], recv), "bool"
            if rt in DICT_VIEWS and f.attr == "get" and not e.keywords and 1 <= len(e.args) <= 2 and isinstance(e.args[0], ast.Constant):
                view = DICT_VIEWS[rt].get(e.args[0].value)
                if not view: bad(e, "key outside the typed view of %s" % rt)
                if len(e.args) == 1: return "(%s %s)" % (view[0], recv), ("opt", view[1])
                d = self.coerce(e.args[1], view[1])
                return "(match %s %s with Some v__ => v__ | None => %s end)" % (view[0], recv, d), view[1]
            if isinstance(rt, tuple) and rt[0] == "obj" and (rt[1], f.attr) in g.methods:
                info = g.methods[(rt[1], f.attr)]
                if e.args or e.keywords: bad(e, "arguments of a generated method")
                if info["may_raise"]: bad(e, "call of a method that can raise inside an expression (bind its result to a variable)")
                return "(%s %s)" % (info["name"], recv), info["ret"]
            if rt == LISTEN[0] and f.attr == LISTEN[1]: bad(e, "create_server outside `x = await loop.create_server(..)`")
            bad(e, "method call on a value of type %s" % (rt,))
        bad(e, "call")

    def default_term(self, d, t):
        if isinstance(d, ast.Constant) and isinstance(d.value, float) and t == "Q":
            import fractions
            fr = fractions.Fraction(repr(d.value))       # the decimal literal, exactly
            return "(%d # %d)%%Q" % (fr.numerator, fr.denominator)
        if isinstance(d, ast.Call) and ast.unparse(d) == "field(default_factory=list)" and isinstance(t, tuple) and t[0] == "list": return "[]"
        if isinstance(d, ast.Constant) and not isinstance(d.value, float): return self.coerce(d, t)
        bad(d, "default value outside the subset")

    # ---------------- conditions, narrowing
    def truthy(self, e):
        x, t = self.tx(e)
        if t == "bool": return x
        if t == "str" or (isinstance(t, tuple) and t[0] == "list"): return "(match %s with [] => false | _ => true end)" % x
        if is_opt(t) and isinstance(t[1], tuple) and t[1][0] == "list": return "(match %s with Some (_ :: _) => true | _ => false end)" % x
        if is_opt(t) and self.always_true(t[1]): return "(match %s with Some _ => true | None => false end)" % x
        if t in TRUTHY: return "(%s %s)" % (TRUTHY[t], x)
        if is_opt(t) and t[1] in TRUTHY: return "(match %s with Some v__ => %s v__ | None => false end)" % (x, TRUTHY[t[1]])
        if self.always_true(t): return "true"
        bad(e, "truthiness of type %s" % (t,))

    def always_true(self, t):
        return isinstance(t, tuple) and t[0] == "obj" and t[1] in self.g.records

    def cond(self, e):
        if isinstance(e, ast.BoolOp) and isinstance(e.op, ast.And) and any(self.narrowable(c) for c in e.values):
            return self.branch(e, lambda: "true", lambda: "false")
        if isinstance(e, ast.BoolOp):
            op = " && " if isinstance(e.op, ast.And) else " || "
            return "(" + op.join(self.cond(v) for v in e.values) + ")"
        if isinstance(e, ast.UnaryOp) and isinstance(e.op, ast.Not): return "(negb %s)" % self.cond(e.operand)
        if isinstance(e, (ast.Compare, ast.Call, ast.IfExp)):
            x, t = self.tx(e)
            if t == "bool": return x
        return self.truthy(e)

    def narrowable(self, c):
        """(name, payload type, pattern) when c tests an un-narrowed Optional local for presence"""
        if isinstance(c, ast.Compare) and len(c.ops) == 1 and isinstance(c.ops[0], ast.IsNot) and isinstance(c.comparators[0], ast.Constant) \
           and c.comparators[0].value is None and isinstance(c.left, ast.Name):
            n = c.left.id
            if n in self.env and n not in self.narrow and is_opt(self.env[n]): return n, self.env[n][1], "Some %s"
        if isinstance(c, ast.Compare) and len(c.ops) == 1 and isinstance(c.ops[0], ast.IsNot) and isinstance(c.comparators[0], ast.Constant) \
           and c.comparators[0].value is None and isinstance(c.left, ast.Attribute) and dotted(c.left) is not None and dotted(c.left) not in self.narrow:
            # a field of an (immutable) record reached from a local: narrowed under its dotted name until the local is rebound
            try: _, ty = self.tx(c.left)
            except Untranslatable: ty = None
            if is_opt(ty) and dotted(c.left).split(".")[0] in self.env: return dotted(c.left), ty[1], "Some %s"
        if isinstance(c, ast.Name) and c.id in self.env and c.id not in self.narrow and is_opt(self.env[c.id]):
            p = self.env[c.id][1]
            if self.always_true(p): return c.id, p, "Some %s"
            if isinstance(p, tuple) and p[0] == "list": return c.id, p, "Some ((_ :: _) as %s)"
        return None

    def branch(self, test, then_fn, else_fn):
        conjs = test.values if isinstance(test, ast.BoolOp) and isinstance(test.op, ast.And) else [test]
        cache = []
        def els():
            if not cache: cache.append(else_fn())
            return cache[0]
        def go(i):
            if i == len(conjs): return then_fn()
            c = conjs[i]
            n = self.narrowable(c)
            if n:
                name, pay, pat = n
                v = self.fresh(name.replace(".", "_"))
                scrut = name if "." not in name else self.expr(c.left)
                saved = dict(self.narrow)
                self.narrow[name] = (v, pay)
                try: body = go(i + 1)
                finally: self.narrow = saved
                return "(match %s with %s => %s | _ => %s end)" % (scrut, pat % v, body, els())
            ctext = self.cond(c)
            body = go(i + 1)
            return "(if %s then %s else %s)" % (ctext, body, els())
        return go(0)

    # ---------------- statements
    def raising_subscripts(self, s):
        exprs = []
        if isinstance(s, (ast.Assign, ast.AnnAssign, ast.Return, ast.Expr)) and getattr(s, "value", None) is not None: exprs.append(s.value)
        elif isinstance(s, ast.If): exprs.append(s.test)
        elif isinstance(s, ast.For): exprs.append(s.iter)
        found = []
        def walk(n, conditional):
            if isinstance(n, ast.Subscript) and isinstance(n.ctx, ast.Load) and isinstance(n.slice, ast.Constant) and isinstance(n.slice.value, str):
                try: t = self.typeof(n.value)
                except Untranslatable: t = None
                if t in DICT_VIEWS:
                    if conditional: bad(n, "d[key] under a condition inside an expression")
                    found.append(n); return
            if isinstance(n, ast.Call) and isinstance(n.func, ast.Attribute) and n.func.attr in PATH_METHODS and not n.args and not n.keywords:
                try: t = self.typeof(n.func.value)
                except Untranslatable: t = None
                if t == ("opt", "pathlike"):          # None has no such method: AttributeError
                    if conditional: bad(n, "method call on an Optional value under a condition inside an expression")
                    found.append(n); return
            if isinstance(n, (ast.IfExp, ast.ListComp, ast.GeneratorExp, ast.Lambda)):
                for c in ast.iter_child_nodes(n): walk(c, True)
            elif isinstance(n, ast.BoolOp):
                walk(n.values[0], conditional)
                for c in n.values[1:]: walk(c, True)
            else:
                for c in ast.iter_child_nodes(n): walk(c, conditional)
        for x in exprs: walk(x, False)
        return found

    def bind(self, node, name, term, ty, declared=None):
        """`let name := term` with the typing discipline of rebinding"""
        self.check_name(node, name)
        if ty == "raises": return None
        if name in self.env:
            term = self.fit(node, term, ty, self.env[name])
        elif declared is not None:
            term = self.fit(node, term, ty, declared); self.env[name] = declared
        else:
            if ty == "none":
                nt = self.spec.get("none_types", {}).get(name)
                if nt is None: bad(node, "first binding of %s is None without an annotation" % name)
                self.env[name] = nt
            else: self.env[name] = ty
        self.unnarrow([name])
        if ty == "none" and is_opt(self.env[name]): term = "(@None %s)" % ctype(self.env[name][1])     # typed, also when never read
        return term

    def unnarrow(self, names):
        for key in list(self.narrow):
            if key.split(".")[0] in names: del self.narrow[key]

    def block(self, stmts, k, kc=None):
        if not stmts: return k
        s, rest = stmts[0], stmts[1:]
        g = self.g
        if isinstance(s, ast.Expr) and isinstance(s.value, ast.Constant) and isinstance(s.value.value, str): return self.block(rest, k, kc)
        if isinstance(s, ast.Pass): return self.block(rest, k, kc)
        # ---- d["key"]: KeyError when absent (hoisted, left to right)
        if isinstance(s, (ast.Assign, ast.AnnAssign, ast.Return, ast.Expr, ast.If, ast.For)):
            found = self.raising_subscripts(s)
            if found:
                if isinstance(s, ast.For): bad(s, "raising operand in an iterable")
                c = found[0]
                v = self.fresh("v")
                if isinstance(c, ast.Subscript):
                    view = DICT_VIEWS[self.typeof(c.value)].get(c.slice.value)
                    if not view: bad(c, "key outside the typed view")
                    scrut, pat, pre, vt, exc = "(%s %s)" % (view[0], self.expr(c.value)), v, "", view[1], "KeyError"
                else:
                    self.need(PATH_METHODS[c.func.attr])
                    v0 = self.fresh("p")
                    scrut, pat, pre, vt, exc = self.expr(c.func.value), v0, "let %s := %s %s in " % (v, PATH_METHODS[c.func.attr], v0), "bool", "AttributeError"
                memo = {}
                s2 = copy.deepcopy(s, memo)
                c2 = memo[id(c)]
                class R(ast.NodeTransformer):
                    def generic_visit(self_, n):
                        if n is c2: return ast.copy_location(ast.Name(id=v, ctx=ast.Load()), n)
                        return ast.NodeTransformer.generic_visit(self_, n)
                s2 = R().visit(s2)
                self.env[v] = vt
                ok = self.block([s2] + rest, k, kc)
                return "(match %s with Some %s => %s%s | None => %s end)" % (scrut, pat, pre, ok, self.do_raise(c, exc))
        if isinstance(s, ast.ImportFrom):
            homes = {CHAIN_CLASS: MW_FILE, ROUTER_CLASS: ROUTER_FILE, ROUTE_ENUM: ROUTER_FILE}
            homes.update({n: MW_FILE for n in list(g.records) + list(g.mw)}); homes.update(HANDLERS)
            for a in s.names:
                if s.level < 1 or a.asname is not None: bad(s, "import outside the subset")
                if a.name in TYPE_ONLY_IMPORTS: continue           # used in annotations only (a call or attribute of it is refused anyway)
                if a.name not in homes: bad(s, "import outside the subset")
                src = (s.module or "").split(".")
                if src[-1:] != [os.path.basename(homes[a.name])[:-3]]: bad(s, "import of %s from another module" % a.name)
            return self.block(rest, k, kc)
        if isinstance(s, ast.FunctionDef): return self.local_def(s, rest, k, kc)
        if isinstance(s, ast.Assert):
            if s.msg is not None and not safe_arg(s.msg): bad(s, "assert message")
            return self.branch(s.test, lambda: self.block(rest, k, kc), lambda: self.do_raise(s, "AssertionError"))
        if isinstance(s, ast.Raise):
            e = s.exc
            if not (isinstance(e, ast.Call) and isinstance(e.func, ast.Name) and not e.keywords and len(e.args) <= 1 and all(safe_arg(a) for a in e.args)) or s.cause is not None:
                bad(s, "raise form")
            return self.do_raise(s, e.func.id)
        if isinstance(s, ast.AnnAssign):
            if s.value is None or not isinstance(s.target, ast.Name): bad(s, "annotated assignment form")
            declared = annot_type(s.annotation, ASPEC, g.ctx)     # None: no translatable annotation (e.g. list[Any]): inferred
            return self.assign(s, s.target.id, s.value, declared, rest, k, kc)
        if isinstance(s, ast.Assign):
            if len(s.targets) != 1 or not isinstance(s.targets[0], ast.Name): bad(s, "assignment target")
            return self.assign(s, s.targets[0].id, s.value, None, rest, k, kc)
        if isinstance(s, ast.Expr):
            v = s.value
            awaited = isinstance(v, ast.Await)
            c = v.value if awaited else v
            if is_log_call(s):
                for a in list(c.args) + [kw.value for kw in c.keywords]:
                    if kw_is_star(c) or not safe_arg(a): bad(a, "argument of a logging call that may raise")
                return self.block(rest, k, kc)
            if isinstance(c, ast.Call) and isinstance(c.func, ast.Name) and c.func.id == SERVER_FUNC and self.final:
                if not awaited: bad(s, "%s is not awaited" % SERVER_FUNC)
                if rest: bad(s, "statements after the call of %s" % SERVER_FUNC)
                return self.final(self, c)
            if isinstance(c, ast.Call) and isinstance(c.func, ast.Attribute) and isinstance(c.func.value, ast.Name) and not awaited:
                name, m = c.func.value.id, c.func.attr
                t = self.env.get(name) if name not in self.narrow else None
                if isinstance(t, tuple) and t[0] == "list" and m == "append" and len(c.args) == 1 and not c.keywords:
                    if name in self.escaped and (s.lineno >= self.escaped[name] or kc is not None):
                        bad(s, "append to a list that is already shared with an object (aliasing)")
                    x, et = self.tx(c.args[0])
                    if not compat(et, t[1]): bad(s, "append of a %s to a list of %s" % (et, t[1]))
                    if t[1] == "?": self.env[name] = ("list", et)
                    return "(let %s := %s ++ [%s] in %s)" % (name, name, x, self.block(rest, k, kc))
                if t == ROUTES_T and m == "add_route":
                    sig = g.add_route_sig
                    args = self.bind_args(c, [p0 for p0, _ in sig], "add_route")
                    if args is None: bad(s, "unknown keyword of add_route")
                    pat = self.coerce(args["pattern"], "str") if "pattern" in args else bad(s, "add_route without pattern")
                    h, ht = self.tx(args["handler"]) if "handler" in args else bad(s, "add_route without handler")
                    if ht != HANDLE_T: bad(s, "add_route of something that is not a handler's handle method")
                    rty = args.get("route_type", sig[2][1])
                    if rty is None: bad(s, "add_route without route_type")
                    ty, tt = self.tx(rty)
                    if tt != ("enum", ROUTE_ENUM): bad(s, "route_type")
                    if not self.may_raise: raise Raises("add_route can raise")
                    self.need("router"); self.need("re_compile")
                    r = self.fresh("r")
                    return "(match MwGen.gen_router_add_route REQ RX re_compile %s %s %s %s with Ok %s => let %s := %s in %s | Err k__ m__ => Err k__ m__ | OutOfModel => OutOfModel end)" % (
                        name, pat, h, ty, r, name, r, self.block(rest, k, kc))
                if t == "mwkind" and not c.args and not c.keywords and isinstance(c.func.value, ast.Name):
                    cls = self.mw_class_of.get(name)
                    if cls is None: bad(s, "method call on a middleware object of unknown class")
                    if m in g.mw[cls]["asyncm"]: bad(s, "coroutine method %s.%s called without await: it never runs" % (cls, m))
                    if m not in g.mw[cls]["sync"]: bad(s, "%s has no plain parameterless method %s" % (cls, m))
                    if kc is not None: bad(s, "effect inside a loop")
                    return "(let effects__ := effects__ ++ [EffCall %s \"%s\"%%string] in %s)" % (name, m, self.block(rest, k, kc))
            bad(s, "expression statement")
        if isinstance(s, ast.If):
            t0 = s.test
            if isinstance(t0, ast.Compare) and len(t0.ops) == 1 and isinstance(t0.ops[0], ast.Is) and isinstance(t0.comparators[0], ast.Constant) \
               and t0.comparators[0].value is None and not s.orelse and s.body and isinstance(s.body[-1], (ast.Raise, ast.Return)):
                pos = ast.copy_location(ast.Compare(left=t0.left, ops=[ast.IsNot()], comparators=t0.comparators), t0)
                if self.narrowable(pos):      # the rest of the block runs with X present
                    return self.branch(pos, lambda: self.block(rest, k, kc), lambda: self.block(s.body, "FALLTHROUGH__", kc))
            # a variable rebound in a branch is not narrowed in what follows (the continuation is translated once, here)
            saved_narrow = dict(self.narrow)
            self.unnarrow(stored_names(s))
            after = self.block(rest, k, kc)
            self.narrow = saved_narrow
            text = ast.unparse(s.test)
            def arm(body, val):
                def f():
                    self.path.append((text, val))
                    try: return self.block(body, after, kc)
                    finally: self.path.pop()
                return f
            return self.branch(s.test, arm(s.body, True), arm(s.orelse, False))
        if isinstance(s, ast.For):
            if s.orelse or not isinstance(s.target, ast.Name): bad(s, "for form")
            self.check_name(s.target, s.target.id)
            it, t = self.tx(s.iter)
            return self.for_loop(s, it, t, rest, k, kc)
        if isinstance(s, ast.Return):
            if self.spec.get("self_state"): bad(s, "return in a method translated over its record")
            if s.value is None: v = "tt"
            else:
                term, ty = self.tx(s.value)
                if ty == "raises": return term
                v = self.fit(s, term, ty, self.ret_type)
            return "(Ok %s)" % v if self.may_raise else v
        bad(s, "statement")

    def for_loop(self, s, it, t, rest, k, kc):
        """the loop body is translated with kc = the recursive call (py2coq.Fn.block): `kc is not None` means "inside a loop" """
        if True:
            if is_opt(t) and isinstance(t[1], tuple) and t[1][0] == "list":
                v = self.fresh("it")
                self.env[v] = t[1]
                s2 = copy.copy(s); s2.iter = ast.copy_location(ast.Name(id=v, ctx=ast.Load()), s.iter)
                return "(match %s with Some %s => %s | None => %s end)" % (it, v, Fn.block(self, [s2] + rest, k, kc), self.do_raise(s, "TypeError"))
            return Fn.block(self, [s] + rest, k, kc)

    def assign(self, s, name, value, declared, rest, k, kc):
        g = self.g
        awaited = isinstance(value, ast.Await)
        val = value.value if awaited else value
        if isinstance(val, ast.Call) and isinstance(val.func, ast.Attribute):
            try: rt = self.typeof(val.func.value)
            except Untranslatable: rt = None
            if rt == LISTEN[0] and val.func.attr == LISTEN[1]:
                if not awaited: bad(s, "create_server is not awaited: no listener is created")
                if kc is not None: bad(s, "effect inside a loop")
                eff = self.listen(val)
                self.check_name(s, name); self.env[name] = "unit"; self.narrow.pop(name, None)
                return "(let effects__ := effects__ ++ [%s] in let %s := tt in %s)" % (eff, name, self.block(rest, k, kc))
            if isinstance(rt, tuple) and rt[0] == "obj" and (rt[1], val.func.attr) in g.methods and g.methods[(rt[1], val.func.attr)]["may_raise"]:
                info = g.methods[(rt[1], val.func.attr)]
                if val.args or val.keywords: bad(s, "arguments of a generated method")
                if not self.may_raise: raise Raises("call of %s" % info["name"])
                r = self.fresh("r")
                term = self.bind(s, name, r, info["ret"], declared)
                return "(match %s %s with Ok %s => let %s := %s in %s | Err k__ m__ => Err k__ m__ | OutOfModel => OutOfModel end)" % (
                    info["name"], self.expr(val.func.value), r, name, term, self.block(rest, k, kc))
        if isinstance(val, ast.Call) and isinstance(val.func, ast.Name) and isinstance(self.env.get(val.func.id), tuple) and self.env[val.func.id][0] == "lfun" and not awaited:
            _, ptys, rty = self.env[val.func.id]
            if val.keywords or len(val.args) != len(ptys): bad(s, "arguments of a local function")
            if not self.may_raise: raise Raises("call of %s" % val.func.id)
            args = " ".join(self.coerce(a, pt) for a, pt in zip(val.args, ptys))
            r = self.fresh("r")
            term = self.bind(s, name, r, rty, declared)
            return "(match %s %s with Ok %s => let %s := %s in %s | Err k__ m__ => Err k__ m__ | OutOfModel => OutOfModel end)" % (
                val.func.id, args, r, name, term, self.block(rest, k, kc))
        if isinstance(val, ast.Call) and isinstance(val.func, ast.Name) and val.func.id in ORACLES and val.func.id not in self.env and not awaited:
            if kc is not None: bad(s, "effect inside a loop")
            term, ty = self.oracle_call(val)
            term = self.bind(s, name, term, ty, declared)
            return "(let effects__ := effects__ ++ [EffBuild %s] in let %s := %s in %s)" % (cstring(val.func.id), name, term, self.block(rest, k, kc))
        if awaited: bad(s, "await of an unknown call")
        if isinstance(val, ast.Name) and isinstance(self.typeof(val), tuple) and self.typeof(val)[0] == "list": bad(s, "alias of a list")
        term, ty = self.tx(val)
        if ty == "raises": return term                      # evaluating the right-hand side raises: the rest is not reached
        if ty == "mwkind" and isinstance(val, ast.Call) and isinstance(val.func, ast.Name): self.mw_class_of[name] = val.func.id
        elif name in self.mw_class_of: del self.mw_class_of[name]
        term = self.bind(s, name, term, ty, declared)
        return "(let %s := %s in %s)" % (name, term, self.block(rest, k, kc))

    def local_def(self, s, rest, k, kc):
        """`def f(x: T) -> R:` inside a translated function: a local Gallina function returning `res R` (a closure: the
        variables it reads must not be assigned after the def)"""
        a = s.args
        if s.decorator_list or a.vararg or a.kwarg or a.kwonlyargs or a.posonlyargs or a.defaults or kc is not None: bad(s, "local function form")
        self.check_name(s, s.name)
        params = []
        for x in a.args:
            ty = atype(self.g, x.annotation)
            if ty is None: bad(s, "parameter %s of the local function has no translatable annotation" % x.arg)
            self.check_name(s, x.arg)
            if x.arg in self.env: bad(s, "parameter %s shadows a local" % x.arg)
            params.append((x.arg, ty))
        rty = atype(self.g, s.returns)
        if rty is None: bad(s, "return annotation of the local function")
        for n in ast.walk(self.node):
            if isinstance(n, ast.Name) and isinstance(n.ctx, (ast.Store, ast.Del)) and n.lineno > s.lineno and n.id in free_names(s.body) and n.id in self.env:
                bad(n, "%s is assigned after the local function that reads it" % n.id)
        saved = (self.ret_type, self.may_raise, dict(self.narrow))
        self.ret_type, self.may_raise, self.narrow = rty, True, {}
        for n, ty in params: self.env[n] = ty
        try:
            body = self.block(list(s.body), "FALLTHROUGH__")
        finally:
            self.ret_type, self.may_raise, self.narrow = saved
            for n, _ in params: self.env.pop(n, None)
        if "FALLTHROUGH__" in body: bad(s, "the local function can fall off its end")
        self.env[s.name] = ("lfun", [ty for _, ty in params], rty)
        return "(let %s := (fun %s => %s) in %s)" % (s.name, " ".join("(%s : %s)" % (n, ctype(ty)) for n, ty in params), body, self.block(rest, k, kc))

    def oracle_call(self, c):
        name = c.func.id
        sig = self.g.oracle_sigs[name]                      # [(parameter, type or None, has default)]
        args = self.bind_args(c, [p for p, _, _ in sig], name)
        if args is None: bad(c, "unknown keyword of %s" % name)
        terms, types = [], []
        for p, t, has_default in sig:
            if p in args:
                if t is None: bad(c, "argument %s of %s has no translatable annotation" % (p, name))
                terms.append(self.coerce(args[p], t)); types.append((p, t))
            elif not has_default: bad(c, "missing argument %s of %s" % (p, name))
        if not terms: terms, types = ["tt"], [("_", "unit")]
        rt = ORACLES[name][1]
        if name in self.oracles and self.oracles[name] != (types, rt): bad(c, "%s called with two argument shapes" % name)
        self.oracles[name] = (types, rt)
        return "(oracle_%s %s)" % (name.lstrip("_"), " ".join(terms)), rt

    def listen(self, c):
        pos, kws = LISTEN[2], LISTEN[3]
        if any(kw.arg is None for kw in c.keywords) or len(c.args) > len(pos): bad(c, "create_server argument form")
        args = dict(zip(pos, c.args))
        for kw in c.keywords:
            if kw.arg not in pos + kws or kw.arg in args: bad(c, "create_server keyword %s is outside the table" % kw.arg)
            args[kw.arg] = kw.value
        for p in pos:
            if p not in args: bad(c, "create_server without %s" % p)
        self.last_proto = None
        fac, ft = self.tx(args["protocol_factory"])
        if ft != ("fun", "unit", "proto"): bad(c, "protocol_factory is not a protocol factory")
        host = self.coerce(args["host"], "str"); port = self.coerce(args["port"], "Z")
        if "ssl" in args:
            st, sty = self.tx(args["ssl"])
            if sty == "none": ssl = "(@None ROLE_S__)"
            else:
                self.role(c, "S", sty[1] if is_opt(sty) else sty)
                ssl = st if is_opt(sty) else "(Some %s)" % st
        else: ssl = "(@None ROLE_S__)"
        # the row of the factory table: callables from the factory down to the application protocol
        callables, node = [], args["protocol_factory"]
        while True:
            if isinstance(node, ast.Lambda): callables.append("lambda"); node = node.body; continue
            if isinstance(node, ast.Call) and isinstance(node.func, ast.Name) and node.func.id in PROTO:
                callables.append(node.func.id)
                if node.func.id == APP_PROTO: break
                inner = self.bind_args(node, PROTO[node.func.id][2], node.func.id) or {}
                nxt = [inner.get(n) for n, r in zip(PROTO[node.func.id][2], PROTO[node.func.id][3]) if r is None]
                if len(nxt) != 1 or nxt[0] is None: bad(c, "factory nesting")
                node = nxt[0]; continue
            bad(c, "factory that does not end in %s" % APP_PROTO)
        a = self.bind_args(node, PROTO[APP_PROTO][2], APP_PROTO)
        names = PROTO[APP_PROTO][2]
        if not self.path: bad(c, "create_server outside a conditional")
        self.rows[c.lineno] = dict(site="%s:%d" % (SERVER_FILE, c.lineno), cond=self.path[-1][0], branch=self.path[-1][1], callables=callables,
                                   handler=ast.unparse(a[names[0]]), middleware=ast.unparse(a[names[1]]) if names[1] in a else None,
                                   upload=ast.unparse(a[names[2]]) if names[2] in a else None, depth=len(self.path))
        return "EffListen %s %s %s %s" % (fac, host, port, ssl)

    def loop_accs(self, loop):
        reb = set()
        for st in loop.body:
            reb |= stored_names(st)
            for n in ast.walk(st):
                if isinstance(n, ast.Call) and isinstance(n.func, ast.Attribute) and n.func.attr in ("append", "add_route") and isinstance(n.func.value, ast.Name):
                    reb.add(n.func.value.id)
        if loop.target.id in reb: bad(loop, "loop variable reassigned")
        return sorted(n for n in reb if n in self.env and n != loop.target.id)

def kw_is_star(c):
    return any(k.arg is None for k in c.keywords) or any(isinstance(a, ast.Starred) for a in c.args)

# ------------------------------------------------------------------ server/middleware.py: records, mwkind, the chain class
def is_doc(s):
    return isinstance(s, ast.Expr) and isinstance(s.value, ast.Constant) and isinstance(s.value.value, str)

def init_params(g, c, what):
    init = [m for m in c.body if isinstance(m, ast.FunctionDef) and m.name == "__init__"]
    if len(init) != 1: raise Untranslatable("%s: no __init__" % what)
    a = init[0].args
    if a.vararg or a.kwarg or a.kwonlyargs or a.posonlyargs or not a.args or a.args[0].arg != "self": raise Untranslatable("%s.__init__: parameter form" % what)
    pos = a.args[1:]
    defaults = dict(zip([x.arg for x in pos[len(pos) - len(a.defaults):]], a.defaults)) if a.defaults else {}
    return init[0], pos, defaults

def gen_middleware_module(g):
    tree = g.tree(MW_FILE)
    out = []
    for c in tree.body:
        if isinstance(c, ast.ClassDef) and any("dataclass" in ast.unparse(d) for d in c.decorator_list):
            if [ast.unparse(d) for d in c.decorator_list] != ["dataclass"] or c.bases: raise Untranslatable("%s is not a plain dataclass" % c.name)
            fields, defaults = [], {}
            for s in c.body:
                if is_doc(s): continue
                if isinstance(s, ast.AnnAssign) and isinstance(s.target, ast.Name):
                    t = annot_type(s.annotation, ASPEC, g.ctx)
                    if t is None: bad(s, "field annotation")
                    fields.append((s.target.id, t))
                    if s.value is not None: defaults[s.target.id] = s.value
                else: bad(s, "dataclass body (a method could change truthiness or construction)")
            g.ctx.classes[c.name] = dict(fields=fields, tparams=[])
            g.records[c.name] = dict(fields=fields, defaults=defaults)
            out.append(record_text(c.name, [], fields))
    cons = []
    for c in tree.body:
        if not isinstance(c, ast.ClassDef) or c.name in g.records or c.name == CHAIN_CLASS: continue
        pr = [m for m in c.body if isinstance(m, (ast.FunctionDef, ast.AsyncFunctionDef)) and m.name == "process_request"]
        if not pr or [ast.unparse(b) for b in c.bases] == ["Protocol"]: continue
        if c.bases or c.decorator_list: raise Untranslatable("%s: bases / decorators" % c.name)
        if not isinstance(pr[0], ast.AsyncFunctionDef) or [a.arg for a in pr[0].args.args] != MW_SIGNATURE:
            raise Untranslatable("%s.process_request does not have the Middleware signature" % c.name)
        _, pos, defaults = init_params(g, c, c.name)
        params = []
        for a in pos:
            t = annot_type(a.annotation, ASPEC, g.ctx)
            if t is None: raise Untranslatable("%s.__init__: parameter %s has no translatable annotation" % (c.name, a.arg))
            params.append((a.arg, t))
        plain = lambda m: [x.arg for x in m.args.args] == ["self"] and not (m.args.vararg or m.args.kwarg or m.args.kwonlyargs)
        g.mw[c.name] = dict(params=params, defaults=defaults,
                            sync=[m.name for m in c.body if isinstance(m, ast.FunctionDef) and plain(m) and not m.decorator_list],
                            asyncm=[m.name for m in c.body if isinstance(m, ast.AsyncFunctionDef)])
        cons.append("| Mw_%s%s" % (c.name, "".join(" (%s : %s)" % (n, ctype(t)) for n, t in params)))
    if not cons: raise Untranslatable("no middleware class found in %s" % MW_FILE)
    out.append("Inductive mwkind : Type :=\n%s.\n" % "\n".join(cons))
    names = list(g.mw)
    out.append("(* the class of a middleware object *)\nInductive mwclass : Type := %s.\n" % " | ".join("K_" + n for n in names)
               + "Definition class_of (m : mwkind) : mwclass :=\n  match m with %s end.\n" % " | ".join(
                   "Mw_%s%s => K_%s" % (n, " _" * len(g.mw[n]["params"]), n) for n in names)
               + "Definition mwclass_eqb (a b : mwclass) : bool :=\n  match a, b with %s%s end.\n" % (
                   " | ".join("K_%s, K_%s => true" % (n, n) for n in names), " | _, _ => false" if len(names) > 1 else ""))
    chain = class_node(tree, CHAIN_CLASS)
    if not any(isinstance(m, ast.AsyncFunctionDef) and m.name == "process_request" and [a.arg for a in m.args.args] == MW_SIGNATURE for m in chain.body):
        raise Untranslatable("%s.process_request does not have the Middleware signature" % CHAIN_CLASS)
    out.append(py2coq_mw.gen_init_class(g.ctx, dict(file=MW_FILE, kind="init", cls=CHAIN_CLASS, annot=ANNOT, methods=[]), tree))
    fields = g.ctx.classes[CHAIN_CLASS]["fields"]
    if len(fields) != 1 or fields[0][1] != ("list", "mwkind"): raise Untranslatable("%s does not just keep the list it is given" % CHAIN_CLASS)
    return "\n".join(out)

def check_protocol_classes(g):
    g.proto_optional = {}
    for cls, (rel, _, names, _) in PROTO.items():
        c = class_node(g.tree(rel), cls)
        _, pos, defaults = init_params(g, c, cls)
        if [a.arg for a in pos] != names: raise Untranslatable("%s.__init__ parameters are %s, the table says %s" % (cls, [a.arg for a in pos], names))
        for n, d in defaults.items():
            if not (isinstance(d, ast.Constant) and d.value is None): raise Untranslatable("%s.__init__: default of %s is not None" % (cls, n))
        g.proto_optional[cls] = set(defaults)

def check_oracles(g):
    """the context builders: parameters (typed by their annotations) and the check that they return a constructed object"""
    g.oracle_sigs = {}
    for name, (rel, _) in ORACLES.items():
        fn = find_function(g.tree(rel), None, name)
        a = fn.args
        if not isinstance(fn, ast.FunctionDef) or a.vararg or a.kwarg or a.kwonlyargs or a.posonlyargs or fn.decorator_list:
            raise Untranslatable("%s: not a plain function" % name)
        nd = len(a.args) - len(a.defaults)
        g.oracle_sigs[name] = [(x.arg, annot_type(x.annotation, ASPEC, g.ctx) if x.annotation is not None else None, i >= nd) for i, x in enumerate(a.args)]
        own = [n for n in ast.walk(fn)]
        rets = [n for n in own if isinstance(n, ast.Return)]
        if not rets or any(isinstance(n, (ast.Yield, ast.YieldFrom)) or (isinstance(n, (ast.FunctionDef, ast.AsyncFunctionDef)) and n is not fn) for n in own):
            raise Untranslatable("%s: no return / nested function" % name)
        for r in rets:
            v = r.value
            if isinstance(v, ast.Call): continue
            if isinstance(v, ast.Name):
                asg = [n for n in own if isinstance(n, (ast.Assign, ast.AnnAssign)) and v.id in stored_names(n)]
                others = [n for n in own if isinstance(n, ast.Name) and n.id == v.id and isinstance(n.ctx, (ast.Store, ast.Del))]
                if asg and len(others) == len(asg) and all(isinstance(n.value, ast.Call) and len(stored_names(n)) == 1 for n in asg): continue
            raise Untranslatable("%s: a return that does not return a constructed object (line %d)" % (name, r.lineno))
        last = fn.body[-1]
        while isinstance(last, (ast.With, ast.Try)): last = last.body[-1]
        if not isinstance(last, (ast.Return, ast.Raise)): raise Untranslatable("%s can fall off its end (returning None)" % name)

# ------------------------------------------------------------------ server/config.py
def attr_reads(nodes, base):
    return {n.attr for st in nodes for n in ast.walk(st) if isinstance(n, ast.Attribute) and isinstance(n.value, ast.Name) and n.value.id == base}

def gen_config(g, reads):
    tree = g.tree(CONFIG_FILE)
    c = class_node(tree, CONFIG_CLASS)
    if [ast.unparse(d) for d in c.decorator_list] != ["dataclass"] or c.bases: raise Untranslatable("%s is not a plain dataclass" % CONFIG_CLASS)
    declared = [(s.target.id, s.annotation) for s in c.body if isinstance(s, ast.AnnAssign) and isinstance(s.target, ast.Name)]
    methods = [find_function(tree, CONFIG_CLASS, m) for m in CONFIG_METHODS]
    for m in methods: reads = reads | attr_reads(m.body, "self")
    fields = []
    for n, a in declared:
        if n in reads:
            t = annot_type(a, ASPEC, g.ctx)
            if t is None: raise Untranslatable("%s.%s: annotation %s outside the table" % (CONFIG_CLASS, n, ast.unparse(a)))
            fields.append((n, t))
    g.ctx.classes[CONFIG_CLASS] = dict(fields=fields, tparams=[])
    out = ["(* the fields of %s that the translated code reads *)\n" % CONFIG_CLASS + record_text(CONFIG_CLASS, [], fields)]
    for m in methods:
        a = m.args
        if [x.arg for x in a.args] != ["self"] or a.vararg or a.kwarg or a.kwonlyargs or m.decorator_list or isinstance(m, ast.AsyncFunctionDef):
            raise Untranslatable("%s.%s: signature" % (CONFIG_CLASS, m.name))
        ret = annot_type(m.returns, ASPEC, g.ctx) if m.returns is not None else None
        if ret is None: raise Untranslatable("%s.%s: return annotation" % (CONFIG_CLASS, m.name))
        for may_raise in (False, True):
            w = W(dict(name="gen_" + m.name, ret_type=ret, may_raise=may_raise), m, g)
            w.env["self"] = ("obj", CONFIG_CLASS)
            try: body = w.block(copy.deepcopy(m.body), "FALLTHROUGH__")
            except Raises:
                if may_raise: raise
                continue
            break
        if "FALLTHROUGH__" in body: raise Untranslatable("%s: control can fall off the end" % m.name)
        g.methods[(CONFIG_CLASS, m.name)] = dict(name="gen_" + m.name, ret=ret, may_raise=may_raise)
        rt = "res %s" % ctype(ret) if may_raise else ctype(ret)
        out.append("Definition gen_%s (self : py_%s) : %s :=\n  %s.\n" % (m.name, CONFIG_CLASS, rt, body))
    return "\n".join(out)

# ------------------------------------------------------------------ C17: locations -> router
EXTRA_PARAMS = [("re_compile", "(str -> option RX)"), ("handle_of", "(handler -> REQ -> ServerProto.resp)"),
                ("path_exists", "(pathlike -> bool)"), ("path_is_dir", "(pathlike -> bool)")]

def gen_locations_pre(g):
    """HandlerType, LocationConfig, `Inductive handler` (one constructor per handler class: its __init__ arguments), the
    Router's shape (checked against server/router.py; the record and add_route are MwGen's)"""
    tree = g.tree(LOCATION_FILE)
    out = [py2coq_mw.gen_enum(g.ctx, dict(cls=LOCATION_ENUM), tree)]
    py2coq_mw.gen_enum(g.ctx, dict(cls=ROUTE_ENUM), g.tree(ROUTER_FILE))          # members only: the type is MwGen.py_RouteType
    c = class_node(tree, LOCATION_CLASS)
    if [ast.unparse(d) for d in c.decorator_list] != ["dataclass"] or c.bases: raise Untranslatable("%s is not a plain dataclass" % LOCATION_CLASS)
    fields = []
    for s in c.body:
        if is_doc(s): continue
        if isinstance(s, ast.AnnAssign) and isinstance(s.target, ast.Name):
            ty = atype(g, s.annotation)
            if ty is None: bad(s, "field annotation")
            fields.append((s.target.id, ty))
        elif isinstance(s, ast.FunctionDef) and s.name not in ("__bool__", "__len__", "__getattribute__", "__getattr__", "__setattr__", "__init__"): continue
        else: bad(s, "%s body" % LOCATION_CLASS)
    g.ctx.classes[LOCATION_CLASS] = dict(fields=fields, tparams=[])
    out.append(record_text(LOCATION_CLASS, [], fields))
    cons = []
    for name, rel in HANDLERS.items():
        hc = class_node(g.tree(rel), name)
        hinit, pos, defaults = init_params(g, hc, name)
        params = []
        for a in pos:
            ty = atype(g, a.annotation)
            if ty is None: raise Untranslatable("%s.__init__: parameter %s has no translatable annotation" % (name, a.arg))
            params.append((a.arg, ty))
        hm = [m for m in hc.body if isinstance(m, ast.FunctionDef) and m.name == "handle"]
        if len(hm) != 1 or [x.arg for x in hm[0].args.args] != ["self", "request"]: raise Untranslatable("%s.handle(self, request) not found" % name)
        for fld, rhs in KEPT_FIELDS.get(name, {}).items():
            stores = [n for n in ast.walk(hc) if isinstance(n, ast.Attribute) and isinstance(n.ctx, (ast.Store, ast.Del)) and n.attr == fld]
            asg = [x for x in ast.walk(hinit) if isinstance(x, (ast.Assign, ast.AnnAssign)) and x.value is not None and
                   any(isinstance(tg, ast.Attribute) and tg.attr == fld and isinstance(tg.value, ast.Name) and tg.value.id == "self"
                       for tg in (x.targets if isinstance(x, ast.Assign) else [x.target]))]
            if len(stores) != 1 or len(asg) != 1 or ast.unparse(asg[0].value) != rhs or asg[0] not in hinit.body:
                raise Untranslatable("%s does not keep %s as %s" % (name, fld, rhs))
        g.handlers[name] = dict(params=params, defaults=defaults)
        cons.append("| H_%s%s" % (name, "".join(" (%s : %s)" % (n, ctype(ty)) for n, ty in params)))
    out.append("(* a handler object: its class and the arguments its constructor was given *)\nInductive handler : Type :=\n%s.\n" % "\n".join(cons))
    out.append("Definition routes (REQ RX : Type) : Type := list (MwGen.py_Route REQ RX).\n")
    rc = class_node(g.tree(ROUTER_FILE), ROUTER_CLASS)
    init, pos, _ = init_params(g, rc, ROUTER_CLASS)
    inits = {}
    for s in init.body:
        if is_doc(s): continue
        tgt = s.target if isinstance(s, ast.AnnAssign) else (s.targets[0] if isinstance(s, ast.Assign) and len(s.targets) == 1 else None)
        if tgt is None or not (isinstance(tgt, ast.Attribute) and isinstance(tgt.value, ast.Name) and tgt.value.id == "self") or s.value is None: bad(s, "Router.__init__ statement")
        inits[tgt.attr] = ast.unparse(s.value)
    if pos or inits != {"routes": "[]", "default_handler": "None"}: raise Untranslatable("Router() is not the router without routes and without default handler: %s" % inits)
    ar = find_function(g.tree(ROUTER_FILE), ROUTER_CLASS, "add_route")
    aa = ar.args
    names = [x.arg for x in aa.args[1:]]
    if names != ["pattern", "handler", "route_type"] or aa.vararg or aa.kwarg or aa.kwonlyargs: raise Untranslatable("Router.add_route signature")
    dfl = dict(zip(names[len(names) - len(aa.defaults):], aa.defaults))
    g.add_route_sig = [(n, dfl.get(n)) for n in names]
    return "\n".join(out)

class SelfFields(ast.NodeTransformer):
    def visit_Attribute(self, n):
        if isinstance(n.value, ast.Name) and n.value.id == "self":
            return ast.copy_location(ast.Name(id="self_" + n.attr, ctx=n.ctx), n)
        return self.generic_visit(n)

def gen_method(g, cls, m, name, self_state=False):
    """a method of a generated record.  self_state: the method assigns fields - they are locals bound from `self`, the result
    is the record rebuilt from them (py2coq_mw.ObjFn's scheme)"""
    a = m.args
    if a.vararg or a.kwarg or a.kwonlyargs or a.posonlyargs or m.decorator_list or isinstance(m, ast.AsyncFunctionDef) or a.args[0].arg != "self":
        raise Untranslatable("%s.%s: signature" % (cls, m.name))
    params = []
    for x in a.args[1:]:
        ty = atype(g, x.annotation)
        if ty is None: raise Untranslatable("%s.%s: parameter %s has no translatable annotation" % (cls, m.name, x.arg))
        params.append((x.arg, ty))
    ret = atype(g, m.returns)
    if ret is None: raise Untranslatable("%s.%s: return annotation" % (cls, m.name))
    fields = g.ctx.classes[cls]["fields"]
    for may_raise in (False, True):
        w = W(dict(name=name, ret_type=ret, may_raise=may_raise, self_state=self_state), m, g)
        for n, ty in params: w.check_name(m, n); w.env[n] = ty
        stmts = copy.deepcopy(m.body)
        if self_state:
            if ret != "none": raise Untranslatable("%s.%s returns a value" % (cls, m.name))
            stmts = [SelfFields().visit(s) for s in stmts]
            for f, ty in fields: w.env["self_" + f] = ty
            rec = "(mk_py_%s %s)" % (cls, " ".join("self_" + f for f, _ in fields))
            k = "(Ok %s)" % rec if may_raise else rec
        else:
            w.env["self"] = ("obj", cls)
            k = "FALLTHROUGH__"
        try: body = w.block(stmts, k)
        except Raises:
            if may_raise: raise
            continue
        break
    if "FALLTHROUGH__" in body: raise Untranslatable("%s: control can fall off the end" % m.name)
    if self_state:
        for f, _ in reversed(fields): body = "(let self_%s := %s_%s self in %s)" % (f, cls, f, body)
        rt = "py_" + cls
    else: rt = ctype(ret)
    if may_raise: rt = "res (%s)" % rt
    poly = any(x in w.extra for x in ("router", "re_compile", "handle_of"))
    binders = (["(REQ RX : Type)"] if poly else []) + ["(%s : %s)" % (n, ty) for n, ty in EXTRA_PARAMS if n in w.extra] \
              + ["(self : py_%s)" % cls] + ["(%s : %s)" % (n, ctype(ty)) for n, ty in params]
    g.methods[(cls, m.name)] = dict(name=name, ret=ret, may_raise=may_raise, extra=list(w.extra))
    return "Definition %s %s\n  : %s :=\n  %s.\n" % (name, " ".join(binders), rt, body)

def gen_locations(g):
    out = ["(* %s: the part of %s.__post_init__ before any other method runs on the object - prefix normalisation, the\n   requirements of the handler type (pathlib's exists / is_dir: oracle arguments) *)\n" % (LOCATION_FILE, LOCATION_CLASS)
           + gen_method(g, LOCATION_CLASS, find_function(g.tree(LOCATION_FILE), LOCATION_CLASS, "__post_init__"), "gen_location_post_init", self_state=True)]
    out.append("(* %s: %s.get_location_router - one handler per location (create_handler), one PREFIX route per location *)\n" % (CONFIG_FILE, CONFIG_CLASS)
               + gen_method(g, CONFIG_CLASS, find_function(g.tree(CONFIG_FILE), CONFIG_CLASS, "get_location_router"), "gen_get_location_router"))
    return "\n".join(out)

# ------------------------------------------------------------------ server/server.py: start_server
def pure_expr(e):
    """an expression without calls (except any(generator)): safe to re-read as a definition"""
    for n in ast.walk(e):
        if isinstance(n, ast.Call) and not (isinstance(n.func, ast.Name) and n.func.id == "any" and len(n.args) == 1 and isinstance(n.args[0], ast.GeneratorExp)):
            return False
        if isinstance(n, (ast.Await, ast.Lambda, ast.NamedExpr, ast.Yield, ast.YieldFrom, ast.Subscript, ast.Starred)): return False
    return True

def has_call(node, attr):
    return [n for n in ast.walk(node) if isinstance(n, ast.Call) and isinstance(n.func, ast.Attribute) and n.func.attr == attr]

def analyse_start(g):
    fn = find_function(g.tree(SERVER_FILE), None, SERVER_FUNC)
    if not isinstance(fn, ast.AsyncFunctionDef): raise Untranslatable("%s is not a coroutine function" % SERVER_FUNC)
    a = fn.args
    if a.vararg or a.kwarg or a.kwonlyargs or a.posonlyargs: raise Untranslatable("%s: parameter form" % SERVER_FUNC)
    body = fn.body
    chains = [(i, s) for i, s in enumerate(body) if any(isinstance(n, ast.Call) and isinstance(n.func, ast.Name) and n.func.id == CHAIN_CLASS for n in ast.walk(s))]
    if len(chains) != 1 or not isinstance(chains[0][1], (ast.Assign, ast.AnnAssign)):
        raise Untranslatable("expected exactly one top-level assignment that builds a %s" % CHAIN_CLASS)
    ci, cs = chains[0]
    tgt = cs.targets[0] if isinstance(cs, ast.Assign) and len(cs.targets) == 1 else getattr(cs, "target", None)
    if not isinstance(tgt, ast.Name): bad(cs, "chain assignment target")
    ccalls = [n for n in ast.walk(cs) if isinstance(n, ast.Call) and isinstance(n.func, ast.Name) and n.func.id == CHAIN_CLASS]
    if len(ccalls) != 1 or len(ccalls[0].args) != 1 or ccalls[0].keywords or not isinstance(ccalls[0].args[0], ast.Name): bad(cs, "chain constructor call")
    L, CH = ccalls[0].args[0].id, tgt.id
    inits = [i for i, s in enumerate(body) if isinstance(s, (ast.Assign, ast.AnnAssign)) and L in stored_names(s)]
    if len(inits) != 1 or sum(1 for n in ast.walk(fn) if isinstance(n, ast.Name) and n.id == L and isinstance(n.ctx, (ast.Store, ast.Del))) != 1:
        raise Untranslatable("the middleware list %s is not bound exactly once, at top level" % L)
    i0 = inits[0]
    v0 = body[i0].value
    if not (isinstance(v0, ast.List) and not v0.elts): bad(body[i0], "the middleware list does not start empty")
    listens = [i for i, s in enumerate(body) if has_call(s, LISTEN[1])]
    if len(listens) != 1 or not isinstance(body[listens[0]], ast.If): raise Untranslatable("expected one top-level `if` containing the create_server calls")
    li = listens[0]
    if not (i0 < ci < li): raise Untranslatable("order of list creation, chain construction and create_server")
    return dict(fn=fn, body=body, i0=i0, ci=ci, li=li, L=L, CH=CH, params=[x.arg for x in a.args],
                defaults=dict(zip([x.arg for x in a.args[len(a.args) - len(a.defaults):]], a.defaults)),
                annots={x.arg: x.annotation for x in a.args})

def slice_inputs(g, A, stmts):
    """-> (derived statements, parameters read, opaque local inputs [(name, type)])"""
    fn, prefix = A["fn"], A["body"][:A["i0"]]
    derived, inputs_p, inputs_l, seen = [], [], [], set()
    def need(names):
        for n in names:
            if n in seen: continue
            seen.add(n)
            if n in A["params"]: inputs_p.append(n); continue
            stores = [x for st in prefix for x in ast.walk(st) if isinstance(x, ast.Name) and x.id == n and isinstance(x.ctx, (ast.Store, ast.Del))]
            if not stores: continue          # a module-level name (class, function, module)
            tops = [st for st in prefix if isinstance(st, (ast.Assign, ast.AnnAssign)) and st.value is not None and
                    [t for t in (st.targets if isinstance(st, ast.Assign) else [st.target]) if isinstance(t, ast.Name) and t.id == n]]
            total = sum(1 for x in ast.walk(fn) if isinstance(x, ast.Name) and x.id == n and isinstance(x.ctx, (ast.Store, ast.Del)))
            if len(tops) == 1 and total == 1 and pure_expr(tops[0].value) and (isinstance(tops[0], ast.AnnAssign) or len(tops[0].targets) == 1):
                derived.append(tops[0]); need(free_names([tops[0]])); continue
            none = any(isinstance(x, (ast.Assign, ast.AnnAssign)) and isinstance(x.value, ast.Constant) and x.value.value is None and
                       any(isinstance(t, ast.Name) and t.id == n for t in (x.targets if isinstance(x, ast.Assign) else [x.target]))
                       for st in prefix for x in ast.walk(st))
            inputs_l.append((n, ("opt", "T_" + n) if none else "T_" + n, min(x.lineno for x in stores)))
    need(free_names(stmts))
    derived.sort(key=lambda s: s.lineno)
    inputs_p.sort(key=A["params"].index)
    inputs_l.sort(key=lambda x: x[2])
    return derived, inputs_p, [(n, t) for n, t, _ in inputs_l]

GENERIC = {"H": "H_handler", "C": "C_chain", "U": "U_upload", "X": "X_tlsctx", "S": "S_sslctx", "P": "P_proto"}

def abstract_types(types):
    out = []
    def go(t):
        if isinstance(t, str):
            if (t.startswith("T_") or t.startswith("A_")) and t not in out: out.append(t)
        elif isinstance(t, tuple):
            for x in t[1:]: go(x)
    for t in types: go(t)
    return out

def translate_slice(g, A, upto, name):
    """A["i0"]: index of the first statement of the slice"""
    stmts = copy.deepcopy(A["body"][A["i0"]:upto + 1])
    derived, inputs_p, inputs_l = slice_inputs(g, A, stmts)
    none_types = {}
    for st in stmts:
        for n in ast.walk(st):
            if isinstance(n, (ast.Assign, ast.AnnAssign)) and isinstance(n.value, ast.Call) and isinstance(n.value.func, ast.Name) and n.value.func.id in ORACLES:
                for x in stored_names(n):
                    nt = ("opt", ORACLES[n.value.func.id][1])
                    if none_types.setdefault(x, nt) != nt: bad(n, "%s is assigned contexts of two kinds" % x)
    w = W(dict(name=name, allow_chain=True, none_types=none_types), A["fn"], g)
    ptypes = []
    for p in inputs_p:
        t = annot_type(A["annots"][p], ASPEC, g.ctx)
        if t is None: raise Untranslatable("%s: parameter %s has no translatable annotation" % (SERVER_FUNC, p))
        w.check_name(A["fn"], p); w.env[p] = t; ptypes.append((p, t))
    for n, t in inputs_l:
        w.check_name(A["fn"], n); w.env[n] = t
    body = w.block(copy.deepcopy(derived) + stmts, "(%s, %s, effects__)" % (A["L"], A["CH"]))
    generics = []
    def resolved(r):
        if r in w.roles: return ctype(w.roles[r])
        if GENERIC[r] not in generics: generics.append(GENERIC[r])
        return GENERIC[r]
    listened = bool(w.rows) or bool(w.roles)
    for r in "HCUXS":
        if "ROLE_%s__" % r in body: body = body.replace("ROLE_%s__" % r, resolved(r))
    P = "(proto %s %s %s %s)" % tuple(resolved(r) for r in "HCUX") if listened else resolved("P")
    efft = "(effect mwkind %s %s)" % (P, resolved("S"))
    oracle_params = [("oracle_" + n.lstrip("_"), ("fun",) + tuple(t for _, t in w.oracles[n][0]) + (w.oracles[n][1],)) for n in ORACLES if n in w.oracles]
    params = [(n, ("fun", bt, rt)) for n, bt, rt in w.attr_params] + oracle_params + ptypes + inputs_l
    tps = abstract_types([t for _, t in params] + list(w.roles.values())) + generics
    ret = "list mwkind * option py_%s * list %s" % (CHAIN_CLASS, efft)
    text = "Definition %s%s %s\n  : %s :=\n  let effects__ := (@nil %s) in\n  %s.\n" % (
        name, (" {" + " ".join(tps) + " : Type}") if tps else "", " ".join("(%s : %s)" % (n, ctype(t)) for n, t in params), ret, efft, body)
    return w, text, dict(tparams=tps, generics=generics, params=params, ptypes=ptypes, derived=derived, inputs_l=inputs_l, stmts=stmts, oracles=oracle_params)

def parents(root):
    out = {}
    for n in ast.walk(root):
        for c in ast.iter_child_nodes(n): out[c] = n
    return out

def frame_checks(g, A, w, info):
    fn, body = A["fn"], A["body"]
    prefix, suffix = body[:A["i0"]], body[A["li"] + 1:]
    in_slice = set()
    for st in body[A["i0"]:A["li"] + 1]: in_slice |= stored_names(st)
    # 1. names bound in the slice do not occur before it; neither they nor what the lambdas capture occur after it
    for st in prefix:
        if st in info["derived"]: continue
        for n in ast.walk(st):
            if isinstance(n, ast.Name) and n.id in in_slice: bad(n, "%s is used before the wiring slice" % n.id)
    captured = {x for _, names in w.lambdas for x in names}
    for st in suffix:
        for n in ast.walk(st):
            if isinstance(n, ast.Name) and n.id in ({A["L"], A["CH"]} | captured | set(w.mw_class_of)):
                bad(n, "%s occurs after the wiring slice (a lambda sees the variable, an object can be changed)" % n.id)
    # ... and inside the slice, after a lambda, the variables it mentions are not assigned
    for line, names in w.lambdas:
        for st in body[A["i0"]:A["li"] + 1]:
            for n in ast.walk(st):
                if isinstance(n, ast.Name) and isinstance(n.ctx, (ast.Store, ast.Del)) and n.id in names and n.lineno >= line:
                    bad(n, "%s is assigned after a lambda that mentions it" % n.id)
    # 2. parameters and derived locals are never rebound; parameters are only read
    wiring = [p for p, _ in info["ptypes"]]
    dnames = [t.id for st in info["derived"] for t in (st.targets if isinstance(st, ast.Assign) else [st.target])]
    for n in ast.walk(fn):
        if isinstance(n, ast.Name) and isinstance(n.ctx, (ast.Store, ast.Del)) and n.id in wiring: bad(n, "parameter %s is rebound" % n.id)
        if isinstance(n, (ast.Global, ast.Nonlocal)) and set(n.names) & set(wiring + dnames + list(in_slice)): bad(n, "global / nonlocal declaration")
    par = parents(fn)
    cfgm = {m.name: m for m in class_node(g.tree(CONFIG_FILE), CONFIG_CLASS).body if isinstance(m, (ast.FunctionDef, ast.AsyncFunctionDef))}
    for st in prefix + suffix:
        if st in info["derived"]: continue
        for n in ast.walk(st):
            if not (isinstance(n, ast.Name) and n.id in wiring): continue
            p = par[n]
            if isinstance(p, ast.Attribute) and isinstance(p.ctx, ast.Load):
                pp = par[p]
                if isinstance(pp, ast.Call) and pp.func is p:
                    t = info_type(info, n.id)
                    m = cfgm.get(p.attr) if t == ("obj", CONFIG_CLASS) else None
                    if m is None: bad(pp, "method call on the parameter %s" % n.id)
                    for x in ast.walk(m):
                        if isinstance(x, ast.Attribute) and isinstance(x.ctx, (ast.Store, ast.Del)): bad(pp, "%s.%s assigns an attribute" % (CONFIG_CLASS, p.attr))
                        if isinstance(x, ast.Call) and dotted(x.func) in ("setattr", "delattr", "object.__setattr__", "vars"): bad(pp, "%s.%s may change the object" % (CONFIG_CLASS, p.attr))
                continue
            if isinstance(p, (ast.Compare, ast.BoolOp, ast.UnaryOp)) or (isinstance(p, (ast.If, ast.IfExp, ast.While)) and p.test is n): continue
            bad(p, "parameter %s escapes (only reads and tests are allowed outside the slice)" % n.id)
    # 3. every create_server call of the function was translated, once
    sites = sorted(c.lineno for c in has_call(fn, LISTEN[1]))
    if sites != sorted(w.rows): raise Untranslatable("create_server calls at lines %s, translated %s" % (sites, sorted(w.rows)))

def info_type(info, name):
    return dict(info["ptypes"]).get(name)

# ------------------------------------------------------------------ __main__.py: the call of start_server
def find_call_block(stmts, funcs):
    for i, s in enumerate(stmts):
        if isinstance(s, ast.Expr):
            v = s.value.value if isinstance(s.value, ast.Await) else s.value
            if isinstance(v, ast.Call) and isinstance(v.func, ast.Name) and v.func.id == SERVER_FUNC: return stmts, i, funcs
        subs = [getattr(s, f) for f in ("body", "orelse", "finalbody") if isinstance(getattr(s, f, None), list)]
        subs += [h.body for h in getattr(s, "handlers", [])]
        f2 = funcs + [s] if isinstance(s, (ast.FunctionDef, ast.AsyncFunctionDef)) else funcs
        for sub in subs:
            if sub and isinstance(sub[0], ast.stmt):
                r = find_call_block(sub, f2)
                if r: return r
    return None

def serve_slice(g, A, wnames, cfg_params):
    """(AST only) the block that ends with the call of start_server, cut at the first statement that binds a name feeding a
    wiring parameter; a bare name passed for a ServerConfig parameter is an input of the slice"""
    n_calls = 0
    for d, _, fs in os.walk(SRC):
        for f in sorted(fs):
            if f.endswith(".py"):
                rel = os.path.relpath(os.path.join(d, f), SRC)
                for n in ast.walk(g.tree(rel)):
                    if isinstance(n, ast.Call) and (dotted(n.func) or "").split(".")[-1] == SERVER_FUNC: n_calls += 1
    r = find_call_block(g.tree(MAIN_FILE).body, [])
    if n_calls != 1 or r is None: raise Untranslatable("expected exactly one call of %s, as an awaited statement in %s (found %d calls)" % (SERVER_FUNC, MAIN_FILE, n_calls))
    stmts, idx, funcs = r
    call = stmts[idx].value.value if isinstance(stmts[idx].value, ast.Await) else stmts[idx].value
    bound = W(dict(name="probe"), call, g).bind_args(call, A["params"], SERVER_FUNC)
    if bound is None: bad(call, "unknown keyword of %s" % SERVER_FUNC)
    cfg_inputs = [bound[p].id for p in cfg_params if p in bound and isinstance(bound[p], ast.Name)]
    needed = {n.id for p in wnames if p in bound for n in ast.walk(bound[p]) if isinstance(n, ast.Name)} - set(cfg_inputs)
    start = idx
    for i in range(idx - 1, -1, -1):
        if stored_names(stmts[i]) & needed:
            start = i
            needed |= {n.id for n in ast.walk(stmts[i]) if isinstance(n, ast.Name) and isinstance(n.ctx, ast.Load)} - set(cfg_inputs)
    sl = stmts[start:idx + 1]
    for c in cfg_inputs:
        for s in sl:
            if c in stored_names(s): bad(s, "%s is rebound between the first sliced statement and the call" % c)
    return dict(stmts=stmts, start=start, idx=idx, funcs=funcs, call=call, sl=sl, cfg_inputs=cfg_inputs)

def translate_serve(g, A, wiring, S):
    stmts, start, funcs, call = S["stmts"], S["start"], S["funcs"], S["call"]
    sl = copy.deepcopy(S["sl"])
    wnames = [p for p, _ in wiring]
    w = W(dict(name="gen_serve_args", may_raise=True), funcs[-1] if funcs else g.tree(MAIN_FILE), g)
    cfg_inputs = {c: ("obj", CONFIG_CLASS) for c in S["cfg_inputs"]}
    for n, t in cfg_inputs.items(): w.check_name(call, n); w.env[n] = t
    closure = []
    for f in funcs:
        for a in f.args.args + f.args.kwonlyargs:
            t = annot_type(a.annotation, ASPEC, g.ctx) if a.annotation is not None else None
            if t is not None and a.arg not in w.env and a.arg in free_names(sl) and not any(a.arg in stored_names(s) for s in stmts[:start]):
                w.check_name(call, a.arg); w.env[a.arg] = t; closure.append((a.arg, t))
    def final(self_w, c):
        b = self_w.bind_args(c, A["params"], SERVER_FUNC)
        terms = []
        for p, t in wiring:
            if p in b: terms.append(self_w.coerce(b[p], t))
            elif p in A["defaults"]: terms.append(self_w.coerce(A["defaults"][p], t))
            else: bad(c, "no argument for %s" % p)
        for p, e in b.items():
            if p not in wnames and not safe_arg(e):
                try: self_w.tx(e)            # a translatable expression cannot raise either (raising calls are refused inside expressions)
                except Untranslatable: bad(e, "argument of %s that may raise" % SERVER_FUNC)
        return "(Ok (%s))" % ", ".join(terms)
    w.final = final
    body = w.block(sl, "FALLTHROUGH__")
    if "FALLTHROUGH__" in body: raise Untranslatable("the sliced block of %s does not end with the call" % MAIN_FILE)
    params = list(cfg_inputs.items()) + [(n, t) for n, t in closure if n in w.used]
    text = "Definition gen_serve_args %s\n  : res (%s) :=\n  %s.\n" % (" ".join("(%s : %s)" % (n, ctype(t)) for n, t in params),
                                                                    " * ".join(ctype(t) for _, t in wiring), body)
    return text, sl, list(cfg_inputs)

# ------------------------------------------------------------------ driver
HEADER = """(* GENERATED by /verif/translate/py2coq_wiring.py from /repo/src/nauyaca (server/server.py start_server, server/config.py,
   server/middleware.py, __main__.py) - do not edit *)
From Coq Require Import List NArith ZArith QArith Bool String.
From NV Require Import Prelude.Str Prelude.Res Equiv.WiringGlue.
From NV Require Model.ServerProto Gen.MwGen.
Import ListNotations.
Open Scope list_scope.

"""

def cstring(s):
    if s is None: return "None"
    if '"' in s or any(ord(c) < 32 or ord(c) > 126 for c in s): raise Untranslatable("source text outside printable ASCII in the factory table")
    return '"%s"%%string' % s

def main(out_path):
    g = G()
    check_protocol_classes(g)
    check_oracles(g)
    chunks = [HEADER, gen_middleware_module(g), "\n", gen_locations_pre(g), "\n"]
    A = analyse_start(g)
    cfg_params = [p for p in A["params"] if A["annots"][p] is not None and ast.unparse(A["annots"][p]) == CONFIG_CLASS]
    # which ServerConfig fields the slices read (the record has exactly those)
    reads = set()
    all_stmts = A["body"]
    for p in cfg_params: reads |= attr_reads(all_stmts[A["i0"]:A["li"] + 1], p)
    probe_stmts = copy.deepcopy(all_stmts[A["i0"]:A["li"] + 1])
    g.ctx.classes[CONFIG_CLASS] = dict(fields=[], tparams=[])
    derived, _, _ = slice_inputs(g, A, probe_stmts)
    for p in cfg_params: reads |= attr_reads(derived, p)
    # the slice extended upwards over the selection of the TLS contexts: from the first top-level statement that binds one of
    # the Optional locals the create_server calls read (`ssl_context`, `pyopenssl_ctx`: None before the branches)
    _, _, loc0 = slice_inputs(g, A, probe_stmts)
    ctx_names = [n for n, ty in loc0 if is_opt(ty)]
    for st in all_stmts[:A["i0"]]:           # ... and every local a context builder's result is assigned to
        for n in ast.walk(st):
            if isinstance(n, (ast.Assign, ast.AnnAssign)) and isinstance(n.value, ast.Call) and isinstance(n.value.func, ast.Name) and n.value.func.id in ORACLES:
                ctx_names += [x for x in stored_names(n) if x not in ctx_names]
    tops = [i for i, s in enumerate(all_stmts[:A["i0"]]) if stored_names(s) & set(ctx_names)]
    if not ctx_names or not tops: raise Untranslatable("no selection of TLS contexts found before the middleware block")
    B = dict(A, i0=min(tops))
    boot_stmts = copy.deepcopy(all_stmts[B["i0"]:A["li"] + 1])
    bderived, _, _ = slice_inputs(g, B, boot_stmts)
    for p in cfg_params: reads |= attr_reads(boot_stmts, p) | attr_reads(bderived, p)
    _, wnames, _ = slice_inputs(g, A, probe_stmts)
    S = serve_slice(g, A, wnames, cfg_params)
    for c in S["cfg_inputs"]: reads |= attr_reads(S["sl"], c)
    reads |= attr_reads(find_function(g.tree(CONFIG_FILE), CONFIG_CLASS, "get_location_router").body, "self")
    chunks += [gen_config(g, reads), "\n", gen_locations(g), "\n"]
    w1, t1, i1 = translate_slice(g, A, A["ci"], "gen_setup")
    w2, t2, i2 = translate_slice(g, A, A["li"], "gen_start")
    frame_checks(g, A, w2, i2)
    if w1.rows: raise Untranslatable("create_server before the chain is built")
    chunks += ["(* %s, lines %d-%d: the middleware list, the chain *)\n" % (SERVER_FILE, A["body"][A["i0"]].lineno, A["body"][A["ci"]].end_lineno), t1, "\n"]
    names1 = " ".join(n for n, _ in i1["params"])
    bind1 = " ".join("(%s : %s)" % (n, ctype(t)) for n, t in i1["params"])
    at1 = "@gen_setup " + " ".join("unit" for _ in i1["tparams"]) if i1["tparams"] else "gen_setup"
    chunks.append("Definition gen_middlewares %s : list mwkind := fst (fst (%s %s)).\n" % (bind1, at1, names1))
    chunks.append("Definition gen_chain %s : option py_%s := snd (fst (%s %s)).\n" % (bind1, CHAIN_CLASS, at1, names1))
    chunks.append("Definition gen_setup_effects%s %s := snd (%s %s).\n\n" % (
        (" {" + " ".join(i1["tparams"]) + " : Type}") if i1["tparams"] else "", bind1,
        ("@gen_setup " + " ".join(i1["tparams"])) if i1["tparams"] else "gen_setup", names1))
    chunks += ["(* %s, lines %d-%d: the same statements continued to the create_server calls *)\n" % (SERVER_FILE, A["body"][A["i0"]].lineno, A["body"][A["li"]].end_lineno), t2, "\n"]
    w4, t4, i4 = translate_slice(g, B, A["li"], "gen_boot")
    frame_checks(g, B, w4, i4)
    if [p for p, _ in i4["ptypes"]] != [p for p, _ in i2["ptypes"]]: raise Untranslatable("the extended slice reads other parameters of %s" % SERVER_FUNC)
    if sorted(w4.rows) != sorted(w2.rows) or any(is_opt(ty) for _, ty in i4["inputs_l"]): raise Untranslatable("the extended slice still reads an Optional local")
    chunks += ["(* %s, lines %d-%d: the selection of the TLS contexts (builders: oracle arguments returning a context), then the same *)\n" % (
        SERVER_FILE, B["body"][B["i0"]].lineno, A["body"][A["li"]].end_lineno), t4, "\n"]
    t3, sl, _ = translate_serve(g, A, i2["ptypes"], S)
    chunks += ["(* %s, lines %d-%d: the arguments start_server is called with (its wiring parameters: %s) *)\n" % (
        MAIN_FILE, sl[0].lineno, sl[-1].end_lineno, ", ".join(p for p, _ in i2["ptypes"])), t3, "\n"]
    rows = [w2.rows[k] for k in sorted(w2.rows)]
    chunks.append("(* one row per loop.create_server call of %s *)\nDefinition factories : list factory_row := [\n%s\n].\n" % (SERVER_FUNC, ";\n".join(
        "  mk_factory_row %s %s %s [%s] %s %s %s" % (cstring(r["site"]), cstring(r["cond"]), str(r["branch"]).lower(), "; ".join(cstring(c) for c in r["callables"]),
                                                   cstring(r["handler"]), "(Some %s)" % cstring(r["middleware"]) if r["middleware"] is not None else "None",
                                                   "(Some %s)" % cstring(r["upload"]) if r["upload"] is not None else "None") for r in rows)))
    chunks.append("Definition chain_var : string := %s.\nDefinition list_var : string := %s.\n" % (cstring(A["CH"]), cstring(A["L"])))
    chunks.append("Definition wiring_params : list string := [%s].\n" % "; ".join(cstring(p) for p, _ in i2["ptypes"]))
    open(out_path, "w").write("".join(chunks))
    print("py2coq_wiring: %d records, %d middleware classes, %d config methods, 3 slices of %s (setup, start, boot), 1 of %s, %d factories" % (
        len(g.records) + 2, len(g.mw), len(CONFIG_METHODS), SERVER_FUNC, MAIN_FILE, len(rows)))

if __name__ == "__main__":
    try:
        main(sys.argv[1] if len(sys.argv) > 1 else os.path.join(os.path.dirname(os.path.dirname(os.path.abspath(__file__))), "coq", "Gen", "WiringGen.v"))
    except Untranslatable as e:
        print("UNTRANSLATABLE:", e); sys.exit(2)
    except Exception as e:      # fail closed: a source shape the translator did not foresee is refused, never guessed at
        print("UNTRANSLATABLE: internal error %s: %s" % (type(e).__name__, e)); sys.exit(2)
