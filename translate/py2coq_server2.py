#!/usr/bin/env python3
"""py2coq_server2: the remaining methods of GeminiServerProtocol - task callbacks, request routing, the
rejection line parser and the response serialiser.  Extends py2coq_server (same ATTRS table, same output file).

Additional forms:
  try: BODY except (E1, E2, ..) [as e]: HANDLER      BODY may `raise ValueError(msg)`: the handler becomes a local
                                                     function h__ (s__, a__, e) and every raise a call of it
  X = task.result() / a, b = task.result()           inside `try ... except Exception as e`: a match on the typed task
                                                     result  TRet v | TExc msg  (coq/Equiv/ServerGlue.v); ill-typed
                                                     results are outside the translated subset
  result = self.request_handler(request)             inside `try ... except Exception as e`: emits AHandler and matches
                                                     on the model's  HValue r | HRaise msg | HAsync  (asyncio.iscoroutine(
                                                     result) is true exactly in the HAsync branch)
  a, _, b = x.partition(" ")                          Prelude.Str.partition
  x.removesuffix(c), x.replace(c1, c2) (1-char), x.isascii() and x.isdigit(), int(x) of such an x (option),
  str(z), isinstance(v, T) decided by the declared type, a <= b <= c, x.encode("utf-8", errors="replace"),
  len(bytes) and slices as in py2coq_server."""
import ast, sys, os, copy
sys.path.insert(0, os.path.dirname(os.path.abspath(__file__)))
from py2coq import Untranslatable, bad, coq_str, coq_type, find_function, SRC
import py2coq_server as base
from py2coq_server import SFn, ATTRS, ENV, ERR, ST1, STU, int_consts, enum_values

class SFn2(SFn):
    def __init__(self, spec, node, consts):
        super().__init__(spec, node, consts)
        self.handlers = []        # stack of (name, binds_e)
        self.hid = 0
        self.iscoro = None

    # ---------------- types / expressions
    def typeof(self, e):
        if isinstance(e, ast.Call):
            f = e.func
            if isinstance(f, ast.Name) and f.id == "isinstance": return "bool"
            if isinstance(f, ast.Name) and f.id == "int": return "Z"
            if isinstance(f, ast.Name) and f.id == "str": return "str"
            if isinstance(f, ast.Name) and f.id == "len": return "N"
            if isinstance(f, ast.Attribute):
                if f.attr in ("removesuffix", "replace", "encode", "decode"): return "str"
                if f.attr in ("isascii", "isdigit"): return "bool"
            if ast.unparse(f) == "asyncio.iscoroutine": return "bool"
        if isinstance(e, ast.Constant) and isinstance(e.value, int) and not isinstance(e.value, bool):
            return self.spec.get("int", "N")
        return super().typeof(e)

    def expr(self, e):
        if isinstance(e, ast.Call) and isinstance(e.func, ast.Attribute) and e.func.attr == "encode" and isinstance(e.func.value, ast.Call) \
           and isinstance(e.func.value.func, ast.Attribute) and e.func.value.func.attr == "decode":
            d = e.func.value
            if [ast.unparse(a) for a in e.args] == ["'utf-8'"] and not e.keywords and [ast.unparse(a) for a in d.args] == ["'utf-8'"] \
               and {k.arg: ast.unparse(k.value) for k in d.keywords} == {"errors": "'ignore'"} and "reencode_ignore" in self.env:
                return "(reencode_ignore %s)" % self.expr(d.func.value)
            bad(e, "decode/encode form")
        if isinstance(e, ast.Constant) and isinstance(e.value, int) and not isinstance(e.value, bool) and self.spec.get("int") == "Z":
            return "%d%%Z" % e.value
        if isinstance(e, ast.Call):
            f = e.func
            if ast.unparse(f) == "asyncio.iscoroutine":
                if self.iscoro is None: bad(e, "iscoroutine outside the handler-call match")
                return "true" if self.iscoro else "false"
            if isinstance(f, ast.Name) and f.id == "isinstance" and len(e.args) == 2 and isinstance(e.args[1], ast.Name):
                t, cls = self.typeof(e.args[0]), e.args[1].id
                if t == "Z": return {"bool": "false", "int": "true"}.get(cls) or bad(e, "isinstance")
                if t == "str": return {"str": "true", "bytes": "false"}.get(cls) or bad(e, "isinstance")
                if t == "body" and cls == "bytes": return "(body_is_bytes %s)" % self.expr(e.args[0])
                bad(e, "isinstance at type %s" % (t,))
            if isinstance(f, ast.Name) and f.id == "str" and len(e.args) == 1 and self.typeof(e.args[0]) == "Z":
                return "(str_of_Z %s)" % self.expr(e.args[0])
            if isinstance(f, ast.Attribute):
                rt = self.typeof(f.value) if not (isinstance(f.value, ast.Name) and f.value.id in ("asyncio", "self")) else None
                if rt == "str":
                    recv = self.expr(f.value)
                    one = lambda a: isinstance(a, ast.Constant) and isinstance(a.value, str) and len(a.value) == 1
                    if f.attr == "removesuffix" and len(e.args) == 1 and one(e.args[0]):
                        return "(strip_suffix1 %d%%N %s)" % (ord(e.args[0].value), recv)
                    if f.attr == "replace" and len(e.args) == 2 and one(e.args[0]) and one(e.args[1]):
                        return "(replace_ch %d%%N %d%%N %s)" % (ord(e.args[0].value), ord(e.args[1].value), recv)
                    if f.attr == "encode" and len(e.args) == 1 and isinstance(e.args[0], ast.Constant):
                        kws = {k.arg: k.value.value for k in e.keywords if isinstance(k.value, ast.Constant)}
                        if e.args[0].value == "utf-8" and kws == {"errors": "replace"}: return "(encode_replace %s)" % recv
                        if e.args[0].value == "ascii" and not kws and isinstance(f.value, ast.Call) and ast.unparse(f.value.func) == "str" \
                           and self.typeof(f.value.args[0]) == "Z":
                            return recv      # str(<int>) is ASCII: its encoding is itself
                if rt == "body" and f.attr == "encode" and len(e.args) == 1 and isinstance(e.args[0], ast.Constant) and e.args[0].value == "utf-8" \
                   and {k.arg: k.value.value for k in e.keywords} == {"errors": "replace"}:
                    return "(encode_replace (body_text %s))" % self.expr(f.value)
        if isinstance(e, ast.JoinedStr):
            vals = []
            for v in e.values:
                if isinstance(v, ast.FormattedValue) and v.format_spec is None and v.conversion == -1 and self.typeof(v.value) == "Z":
                    v = ast.FormattedValue(value=ast.Call(func=ast.Name(id="str", ctx=ast.Load()), args=[v.value], keywords=[]), conversion=-1, format_spec=None)
                vals.append(v)
            return super().expr(ast.JoinedStr(values=vals))
        if isinstance(e, ast.Compare) and len(e.ops) == 2 and all(isinstance(o, ast.LtE) for o in e.ops):
            a, b, c = self.expr(e.left), self.expr(e.comparators[0]), self.expr(e.comparators[1])
            if self.typeof(e.comparators[0]) != "Z": bad(e, "chained comparison type")
            return "((%s <=? %s)%%Z && (%s <=? %s)%%Z)" % (a, b, b, c)
        if isinstance(e, ast.BoolOp) and isinstance(e.op, ast.And) and len(e.values) == 2:
            u = [ast.unparse(v) for v in e.values]
            if u[0].endswith(".isascii()") and u[1].endswith(".isdigit()") and u[0][:-10] == u[1][:-10]:
                return "(ascii_digits %s)" % self.expr(e.values[0].func.value)
        if isinstance(e, ast.BinOp) and isinstance(e.op, ast.Add) and self.typeof(e.left) == "str":
            return "(%s ++ %s)" % (self.expr(e.left), self.expr(e.right))
        return super().expr(e)

    def cond(self, e):
        if isinstance(e, ast.BoolOp) and isinstance(e.op, ast.And) and len(e.values) == 2:
            u = [ast.unparse(v) for v in e.values]
            if u[0].endswith(".isascii()") and u[1].endswith(".isdigit()"): return self.expr(e)
        if isinstance(e, ast.Compare) and len(e.ops) == 2: return self.expr(e)
        return super().cond(e)

    def truthy(self, e):
        if self.typeof(e) == "body": return "(body_truthy %s)" % self.expr(e)
        return super().truthy(e)

    # ---------------- statements
    def raise_call(self, msg):
        if not self.handlers: return None
        name, _ = self.handlers[-1]
        return "(%s s__ a__ %s)" % (name, msg)

    def spawn_idiom(self, stmts):
        r = super().spawn_idiom(stmts[:2]) if len(stmts) >= 2 else None
        if r: return r
        # create_task(<name>) : the coroutine returned by the handler
        if len(stmts) >= 2:
            a, b = stmts[:2]
            if isinstance(a, ast.Assign) and isinstance(a.targets[0], ast.Name) and a.targets[0].id == "task" and isinstance(a.value, ast.Call) \
               and ast.unparse(a.value.func) == "asyncio.create_task" and len(a.value.args) == 1 and isinstance(a.value.args[0], ast.Name) \
               and isinstance(b, ast.Expr) and isinstance(b.value, ast.Call) and ast.unparse(b.value.func) == "task.add_done_callback" \
               and len(b.value.args) == 1 and isinstance(b.value.args[0], ast.Lambda):
                lam = b.value.args[0]
                if isinstance(lam.body, ast.Call) and isinstance(lam.body.func, ast.Attribute) and ast.unparse(lam.body.func.value) == "self" \
                   and lam.body.args and isinstance(lam.body.args[0], ast.Name) and lam.body.args[0].id == lam.args.args[0].arg:
                    fake = ast.Call(func=ast.Name(id="coroutine:" + a.value.args[0].id, ctx=ast.Load()), args=[], keywords=[])
                    return fake, lam.body
        return None

    def block(self, stmts, k, kc=None):
        if not stmts: return k
        s, rest = stmts[0], stmts[1:]
        text = ast.unparse(s)
        if text in self.spec.get("skip", []):
            return self.block(rest, k, kc)
        # raise inside a translated try body
        if isinstance(s, ast.Raise) and self.handlers:
            e = s.exc
            if isinstance(e, ast.Call) and isinstance(e.func, ast.Name) and len(e.args) == 1:
                return self.raise_call(self.expr(e.args[0]))
            bad(s, "raise form")
        # a, _, b = x.partition(c)
        if isinstance(s, ast.Assign) and isinstance(s.targets[0], ast.Tuple) and isinstance(s.value, ast.Call) and isinstance(s.value.func, ast.Attribute) \
           and s.value.func.attr == "partition" and len(s.value.args) == 1 and isinstance(s.value.args[0], ast.Constant) and len(s.value.args[0].value) == 1:
            names = [x.id if isinstance(x, ast.Name) else None for x in s.targets[0].elts]
            if len(names) == 3 and names[1] == "_" and names[0] and names[2] and self.typeof(s.value.func.value) == "str":
                self.env[names[0]] = self.env[names[2]] = "str"
                return "(let '(%s, _, %s) := partition %d%%N %s in %s)" % (names[0], names[2], ord(s.value.args[0].value), self.expr(s.value.func.value), self.block(rest, k, kc))
            bad(s, "partition form")
        # X = <expr containing int(y)> inside a try: int() of a non-numeric text raises ValueError
        if isinstance(s, ast.Assign) and isinstance(s.targets[0], ast.Name) and self.handlers:
            ints = [n for n in ast.walk(s.value) if isinstance(n, ast.Call) and isinstance(n.func, ast.Name) and n.func.id == "int" and len(n.args) == 1]
            if ints:
                if len(ints) != 1 or self.typeof(ints[0].args[0]) != "str": bad(s, "int() form")
                self.tmp += 1
                v = "i__%d" % self.tmp
                self.env[v] = "Z"
                arg = self.expr(ints[0].args[0])
                class R(ast.NodeTransformer):
                    def visit_Call(self_, n):
                        if n is ints[0]: return ast.Name(id=v, ctx=ast.Load())
                        return self_.generic_visit(n)
                s2 = ast.Assign(targets=s.targets, value=R().visit(copy.deepcopy(s.value)), lineno=s.lineno)
                # deepcopy breaks identity: redo on the original tree
                ints0 = ints[0]
                class R2(ast.NodeTransformer):
                    def visit_Call(self_, n):
                        if n is ints0: return ast.Name(id=v, ctx=ast.Load())
                        return self_.generic_visit(n)
                s2 = ast.Assign(targets=s.targets, value=R2().visit(s.value), lineno=s.lineno)
                return "(match py_int_digits %s with Some %s => %s | None => %s end)" % (
                    arg, v, self.block([s2] + rest, k, kc), self.raise_call('(lit "invalid literal for int()")'))
        if isinstance(s, ast.Try) and len(s.handlers) == 1 and not s.orelse and not s.finalbody:
            h = s.handlers[0]
            hname = ast.unparse(h.type) if h.type is not None else ""
            first = s.body[0] if s.body else None
            # typed task result
            if hname == "Exception" and isinstance(first, ast.Assign) and ast.unparse(first.value) == "task.result()":
                tgt = first.targets[0]
                if isinstance(tgt, ast.Name):
                    pat = tgt.id; self.env[tgt.id] = self.spec["task_type"]
                elif isinstance(tgt, ast.Tuple) and all(isinstance(x, ast.Name) for x in tgt.elts) and isinstance(self.spec["task_type"], list):
                    pat = "(" + ", ".join(x.id for x in tgt.elts) + ")"
                    for x, t in zip(tgt.elts, self.spec["task_type"]): self.env[x.id] = t
                else: bad(s, "task.result() target")
                after = self.block(rest, k, kc)
                if h.name: self.env[h.name] = "str"
                return "(match task with TRet %s => %s | TExc %s => %s end)" % (
                    pat, self.block(s.body[1:], after, kc), h.name or "_", self.block(h.body, after, kc))
            # the request handler call
            if hname == "Exception" and isinstance(first, ast.Assign) and ast.unparse(first.value) == "self.request_handler(request)" \
               and isinstance(first.targets[0], ast.Name):
                res = first.targets[0].id
                after = self.block(rest, k, kc)
                if h.name: self.env[h.name] = "str"
                hb = self.block(h.body, after, kc)
                self.iscoro = True
                self.env[res] = "coroutine"
                b_async = self.block(s.body[1:], after, kc)
                self.iscoro = False
                self.env[res] = "resp"
                b_val = self.block(s.body[1:], after, kc)
                self.iscoro = None
                return "(let a__ := a__ ++ [AHandler (rq_line request)] in match handler (rq_line request) with HRaise %s => %s | HAsync => %s | HValue %s => %s end)" % (
                    h.name or "_", hb, b_async, res, b_val)
            # spawn idiom followed by `return`, inside try/except RuntimeError
            if hname == "RuntimeError" and len(s.body) == 3 and isinstance(s.body[2], ast.Return) and s.body[2].value is None:
                sp = self.spawn_idiom(s.body[:2])
                if sp: return self.emit_spawn(sp[0], sp[1], [ast.Return(value=None)], k, kc)
            # general try body with raises
            if all(isinstance(x, ast.Name) or isinstance(x, ast.Tuple) for x in [h.type]) and self.spec.get("raise_try"):
                self.hid += 1
                hn = "h__%d" % self.hid
                after = self.block(rest, k, kc)
                if h.name: self.env[h.name] = "str"
                hb = self.block(h.body, after, kc)
                self.handlers.append((hn, h.name))
                body = self.block(s.body, after, kc)
                self.handlers.pop()
                return "(let %s := (fun (s__ : st) (a__ : list action) (%s : str) => %s) in %s)" % (hn, h.name or "e__", hb, body)
        if isinstance(s, ast.If):
            c = self.cond(s.test)
            if c == "true": return self.block(s.body + rest, k, kc) if not any(isinstance(x, ast.Return) for x in s.body) else self.block(s.body, self.block(rest, k, kc), kc)
            if c == "false": return self.block(s.orelse + rest, k, kc)
        # X = Y between differently typed views of the same value (declared coercions)
        if isinstance(s, ast.Assign) and isinstance(s.targets[0], ast.Name) and s.targets[0].id in self.spec.get("types", {}):
            want = self.spec["types"][s.targets[0].id]
            try: got = self.typeof(s.value)
            except Untranslatable: got = None
            if got == "body" and want == "str":
                self.env[s.targets[0].id] = "str"
                return "(let %s := (body_raw %s) in %s)" % (s.targets[0].id, self.expr(s.value), self.block(rest, k, kc))
        return super().block(stmts, k, kc)

    def translate(self):
        if "task_type" in self.spec:
            self.spec = dict(self.spec)
        return super().translate()

def tt(t):
    return "(tres %s)" % ("(" + " * ".join(coq_type(x) for x in t) + ")" if isinstance(t, list) else coq_type(t))

SKIP2 = base.SKIP_CERT + [
    "client_cert_fingerprint: str | None = None",
    "if client_cert:\n    from ..security.certificates import get_certificate_fingerprint\n    client_cert_fingerprint = get_certificate_fingerprint(client_cert)",
    "request.client_cert = client_cert",
    "request.client_cert_fingerprint = client_cert_fingerprint",
    # the url attribute of a response is used for the log line only
    "if not response.url:\n    response = GeminiResponse(status=response.status, meta=response.meta, body=response.body, url=request.normalized_url)",
    "if not response.url and self.titan_request:\n    response = GeminiResponse(status=response.status, meta=response.meta, body=response.body, url=self.titan_request.raw_url)",
    # duration for the log line
    "duration_ms = 0.0",
    "if self.request_start_time:\n    duration_ms = (time.time() - self.request_start_time) * 1000",
]
RESP = "st -> resp -> st * list action"
REJ = "st -> option str -> st * list action"
KINDS2 = {"_handle_middleware_result": ("(TMw (rq_line request))", ["request", "client_ip"]),
          "_handle_async_handler_result": ("(THandler (rq_line request))", ["request", "client_ip"])}
ACTIONS2 = {"self.middleware.process_request": (["request.normalized_url", "client_ip", "client_cert_fingerprint"], "AMw id__ {args}"),
            "coroutine:result": ([], "AHandlerTask id__")}
REQ_ATTRS = {"request.normalized_url": ("(p_norm (rq_parsed request))", "str")}
# the peer's address and certificate fingerprint are constants of the connection (env parameters)
RENAME = {"client_ip": "peer_ip", "client_cert_fingerprint": "peer_fp"}
RTE = "st -> req -> st * list action"

SPECS2 = [
    dict(func="_handle_middleware_result", name="gen_handle_middleware_result", params=[("task", "TASK"), ("request", "req")], task_type=["bool", ("opt", "str")],
         callee_params=[("send_error", ERR), ("send_rejection", REJ), ("route_request", RTE)],
         callees={"self._send_error_response": ("send_error", None), "self._send_rejection": ("send_rejection", None), "self._route_request": ("route_request", None)}),
    dict(func="_handle_titan_middleware_result", name="gen_handle_titan_middleware_result", params=[("task", "TASK")], task_type=["bool", ("opt", "str")],
         callee_params=[("send_error", ERR), ("send_rejection", REJ), ("start_titan_upload", ST1)],
         callees={"self._send_error_response": ("send_error", None), "self._send_rejection": ("send_rejection", None), "self._start_titan_upload": ("start_titan_upload", None)},
         drop_args={"self._start_titan_upload": True}),
    dict(func="_handle_async_handler_result", name="gen_handle_async_handler_result", params=[("task", "TASK"), ("request", "req")], task_type="resp",
         callee_params=[("send_error", ERR), ("send_response", RESP)],
         callees={"self._send_error_response": ("send_error", None), "self._send_response": ("send_response", None)}),
    dict(func="_handle_titan_upload_result", name="gen_handle_titan_upload_result", params=[("task", "TASK")], task_type="resp",
         callee_params=[("send_error", ERR), ("send_response", RESP)],
         callees={"self._send_error_response": ("send_error", None), "self._send_response": ("send_response", None)}),
    dict(func="_handle_gemini_request", name="gen_handle_gemini_request", params=[("url", "str")], env_params=ENV + [("ip6_check", ("fun", "str", ("opt", "str")))],
         callee_params=[("send_error", ERR), ("route_request", RTE)],
         callees={"self._send_error_response": ("send_error", None), "self._route_request": ("route_request", None)},
         res_calls={("GeminiRequest.from_line", "ValueError"): ("request_from_line ip6_check", "req")},
         attrs=REQ_ATTRS, rename=RENAME, spawn_kinds=KINDS2, spawn_actions=ACTIONS2),
    dict(func="_route_request", name="gen_route_request", params=[("request", "req")], env_params=[("handler", ("fun", "str", "hres"))],
         callee_params=[("send_error", ERR), ("send_response", RESP)],
         callees={"self._send_error_response": ("send_error", None), "self._send_response": ("send_response", None)},
         types={"response": "resp"}, spawn_kinds=KINDS2, spawn_actions=ACTIONS2),
    dict(func="_send_response", name="gen_send_response", params=[("response", "resp")], raise_try=True, int="Z",
         env_params=[("reencode_ignore", ("fun", "str", "str"))],
         attrs={"response.status": ("(rs_status response)", "Z"), "response.meta": ("(rs_meta response)", "str"), "response.body": ("(rs_body response)", "body")},
         types={"body_bytes": "str", "status": "Z", "meta": "str", "meta_bytes": "str", "header_bytes": "str"}),
    dict(func="_send_rejection", name="gen_send_rejection", params=[("error_response", ("opt", "str"))], raise_try=True, int="Z",
         callee_params=[("send_error", ERR), ("send_response", RESP)],
         callees={"self._send_error_response": ("send_error", None), "self._send_response": ("send_response", None)},
         calls={"GeminiResponse": ("mk_resp", "resp")}, kw_calls={"GeminiResponse": ["status", "meta"]}, types={"response": "resp"},
         opt_unwrap=["error_response"]),
]

class SFn3(SFn2):
    """spec-specific details: request -> line, optional string parameter used as a string after a truthiness test"""
    def callee_call(self, v, rest, k, kc):
        # the client's address is a constant of the connection (env parameter peer_ip), not threaded through the calls
        v = ast.Call(func=v.func, args=[a for a in v.args if ast.unparse(a) != "client_ip"], keywords=v.keywords)
        return super().callee_call(v, rest, k, kc)
    def block(self, stmts, k, kc=None):
        # `if not X: raise ...` for an optional string X: afterwards X is a (non-empty) string
        if stmts and isinstance(stmts[0], ast.If) and not stmts[0].orelse and isinstance(stmts[0].test, ast.UnaryOp) and isinstance(stmts[0].test.op, ast.Not) \
           and isinstance(stmts[0].test.operand, ast.Name) and stmts[0].test.operand.id in self.spec.get("opt_unwrap", []) \
           and self.env.get(stmts[0].test.operand.id) == ("opt", "str") and len(stmts[0].body) == 1 and isinstance(stmts[0].body[0], ast.Raise):
            x = stmts[0].test.operand.id
            r = self.block(stmts[0].body, k, kc)
            self.env[x] = "str"
            out = "(match %s with Some (c__ :: t__) => let %s := c__ :: t__ in %s | _ => %s end)" % (x, x, self.block(stmts[1:], k, kc), r)
            self.env[x] = ("opt", "str")
            return out
        return super().block(stmts, k, kc)
    def translate(self):
        s = super().translate()
        if "task_type" in self.spec:
            s = s.replace("(task : TASK)", "(task : %s)" % tt(self.spec["task_type"]))
        return s

def main(out_path):
    consts = int_consts("protocol/constants.py")
    consts.update({k: v for k, v in int_consts("server/protocol.py").items()})
    consts["__status__"] = enum_values("protocol/status.py", "StatusCode")
    tree = ast.parse(open(os.path.join(SRC, "server/protocol.py")).read())
    chunks = []
    for spec in SPECS2:
        spec = dict(spec)
        spec["file"], spec["cls"] = "server/protocol.py", "GeminiServerProtocol"
        at = dict(ATTRS); at.update(spec.get("attrs", {})); spec["attrs"] = at
        spec.setdefault("skip", SKIP2)
        spec.setdefault("spawn_kinds", base.SPAWN_KINDS); spec.setdefault("spawn_actions", base.SPAWN_ACTIONS)
        fn = copy.deepcopy(find_function(tree, spec["cls"], spec["func"]))
        try:
            chunks.append(SFn3(spec, fn, consts).translate())
        except Untranslatable as e:
            raise Untranslatable("server/protocol.py:%s: %s" % (spec["func"], e))
        chunks.append("\n")
    return "".join(chunks)

if __name__ == "__main__":
    try:
        out = main(None)
        path = sys.argv[1] if len(sys.argv) > 1 else "/dev/stdout"
        open(path, "w").write(base.HEADER + out)
        print("py2coq_server2: %d methods translated" % len(SPECS2), file=sys.stderr)
    except Untranslatable as e:
        print("UNTRANSLATABLE:", e); sys.exit(2)
