#!/usr/bin/env python3
"""Fail-closed extraction of every TLS-context construction in /repo/src/nauyaca into a Gallina
list (coq/Gen/TlsConfigGen.v): for each function that creates an ssl.SSLContext / OpenSSL SSL.Context,
the version-related operations applied to it; for each call site that obtains a server or client
context (start_server's four branches, GeminiClient.__init__), which builder it uses.
Anything version-related that the translator does not understand makes it FAIL (exit 2): the proof
obligation C20_min_everywhere is then not discharged."""
import ast, sys, os

import os as _os
SRC = _os.environ.get("NV_SRC", _os.path.join(_os.environ.get("NV_REPO", "/repo"), "src", "nauyaca"))
def all_files():
    out = []
    for d, _, fs in os.walk(SRC):
        for f in sorted(fs):
            if f.endswith(".py"): out.append(os.path.relpath(os.path.join(d, f), SRC))
    return sorted(out)

VERSIONS = {"TLSv1": "TLS1_0", "TLSv1_1": "TLS1_1", "TLSv1_2": "TLS1_2", "TLSv1_3": "TLS1_3", "SSLv3": "SSL3",
            "MINIMUM_SUPPORTED": "SSL3", "MAXIMUM_SUPPORTED": "TLS1_3",
            "TLS1_VERSION": "TLS1_0", "TLS1_1_VERSION": "TLS1_1", "TLS1_2_VERSION": "TLS1_2", "TLS1_3_VERSION": "TLS1_3", "SSL3_VERSION": "SSL3"}

class Untranslatable(Exception):
    pass

def dotted(n):
    if isinstance(n, ast.Name): return n.id
    if isinstance(n, ast.Attribute):
        b = dotted(n.value)
        return None if b is None else b + "." + n.attr
    return None

def version_of(node, where):
    d = dotted(node)
    if d is None: raise Untranslatable("%s: version expression not a constant name: %s" % (where, ast.dump(node)))
    last = d.split(".")[-1]
    if last not in VERSIONS: raise Untranslatable("%s: unknown TLS version %s" % (where, d))
    return VERSIONS[last]

CREATORS = {"ssl.create_default_context": "StdDefault", "ssl.SSLContext": "StdContext", "SSL.Context": "PyOpenSSL"}
BUILDERS = ("create_client_context", "create_server_context", "create_pyopenssl_server_context",
            "_create_self_signed_context", "_create_self_signed_pyopenssl_context")

def analyse_function(fn, path):
    """-> (kind, ops) if the function creates a context itself, ('calls', builder) if it returns another builder's result, else None"""
    ctx_vars, kind, ops, returned_builder = set(), None, [], None
    for node in ast.walk(fn):
        if isinstance(node, ast.Assign) and isinstance(node.value, ast.Call):
            d = dotted(node.value.func)
            if d in CREATORS:
                for t in node.targets:
                    if isinstance(t, ast.Name): ctx_vars.add(t.id)
                kind = CREATORS[d]
    for node in ast.walk(fn):
        where = "%s:%d" % (path, getattr(node, "lineno", 0))
        if isinstance(node, ast.Assign):
            for t in node.targets:
                if isinstance(t, ast.Attribute) and isinstance(t.value, ast.Name) and t.value.id in ctx_vars:
                    if t.attr == "minimum_version": ops.append(("SetMin", version_of(node.value, where)))
                    elif t.attr == "maximum_version": ops.append(("SetMax", version_of(node.value, where)))
                    elif t.attr == "options": raise Untranslatable(where + ": assignment to context.options is not understood")
        if isinstance(node, ast.AugAssign) and isinstance(node.target, ast.Attribute) and isinstance(node.target.value, ast.Name) \
                and node.target.value.id in ctx_vars and node.target.attr == "options":
            raise Untranslatable(where + ": modification of context.options is not understood")
        if isinstance(node, ast.Call) and isinstance(node.func, ast.Attribute) and isinstance(node.func.value, ast.Name) and node.func.value.id in ctx_vars:
            m = node.func.attr
            if m == "set_min_proto_version": ops.append(("SetMin", version_of(node.args[0], where)))
            elif m == "set_max_proto_version": ops.append(("SetMax", version_of(node.args[0], where)))
            elif m in ("set_options", "clear_options"): raise Untranslatable(where + ": %s is not understood" % m)
        if isinstance(node, ast.Return) and isinstance(node.value, ast.Call):
            d = dotted(node.value.func)
            if d and d.split(".")[-1] in BUILDERS: returned_builder = d.split(".")[-1]
    if kind: return (kind, ops)
    if returned_builder: return ("calls", returned_builder)
    return None

def main(out_path):
    builders, uses = {}, []
    listeners = []
    for rel in all_files():
        path = os.path.join(SRC, rel)
        tree = ast.parse(open(path).read(), path)
        for node in ast.walk(tree):
            if isinstance(node, (ast.FunctionDef, ast.AsyncFunctionDef)):
                r = analyse_function(node, rel)
                if node.name in BUILDERS:
                    if r is None: raise Untranslatable("%s: builder %s creates no context" % (rel, node.name))
                    builders[node.name] = r
                elif r is not None and r[0] != "calls":
                    raise Untranslatable("%s: function %s creates a TLS context but is not a known builder" % (rel, node.name))
                # call sites
                if node.name in ("start_server", "__init__"):
                    for c in ast.walk(node):
                        if isinstance(c, ast.Call):
                            d = dotted(c.func)
                            if d and d.split(".")[-1] in BUILDERS:
                                uses.append(("%s:%s:%d" % (rel, node.name, c.lineno), d.split(".")[-1]))
                            if d in CREATORS:
                                raise Untranslatable("%s:%d: context created inline in %s" % (rel, c.lineno, node.name))
                # listening sockets: every loop.create_server must carry TLS (ssl= keyword that is not None, or the manual TLS wrapper)
                for c in ast.walk(node):
                    if isinstance(c, ast.Call) and isinstance(c.func, ast.Attribute) and c.func.attr == "create_server":
                        ssl_kw = any(k.arg == "ssl" and not (isinstance(k.value, ast.Constant) and k.value.value is None) for k in c.keywords)
                        wrapper = any(isinstance(x, ast.Name) and x.id == "TLSServerProtocol" for a in c.args[:1] for x in ast.walk(a))
                        if any(k.arg is None for k in c.keywords): raise Untranslatable("%s:%d: create_server(**kwargs)" % (rel, c.lineno))
                        kws = sorted(k.arg for k in c.keywords if k.arg != "ssl")
                        if (rel, c.lineno) not in [(l[0], l[1]) for l in listeners]:
                            listeners.append((rel, c.lineno, ssl_kw, wrapper, kws))
    missing = [b for b in BUILDERS if b not in builders]
    if missing: raise Untranslatable("builders not found: %s" % missing)
    if not uses: raise Untranslatable("no call sites found")
    lines = ["(* GENERATED by /verif/translate/tlsconf.py from /repo/src/nauyaca - do not edit *)",
             "From Coq Require Import List String.", "From NV Require Import Model.TlsConfig.", "Import ListNotations.", "Open Scope string_scope.", "",
             "Definition builders : list (string * builder) := ["]
    items = []
    for name in BUILDERS:
        r = builders[name]
        if r[0] == "calls": items.append('  ("%s", Delegates "%s")' % (name, r[1]))
        else: items.append('  ("%s", Creates %s [%s])' % (name, r[0], "; ".join("%s %s" % o for o in r[1])))
    lines.append(";\n".join(items)); lines.append("].")
    lines.append(""); lines.append("Definition call_sites : list (string * string) := [")
    lines.append(";\n".join('  ("%s", "%s")' % u for u in uses)); lines.append("].")
    lines.append(""); lines.append("Definition listeners : list (string * bool * bool) := [")
    lines.append(";\n".join('  ("%s:%d", %s, %s)' % (l[0], l[1], str(l[2]).lower(), str(l[3]).lower()) for l in listeners)); lines.append("].")
    # keyword arguments (other than ssl=) of every loop.create_server call: asyncio's TLS handshake / shutdown timeouts are
    # its defaults unless one is passed here
    lines.append(""); lines.append("Definition listener_options : list (string * list string) := [")
    lines.append(";\n".join('  ("%s:%d", [%s])' % (l[0], l[1], "; ".join('"%s"' % k for k in l[4])) for l in listeners)); lines.append("].")
    if not listeners: raise Untranslatable("no listening socket found")
    open(out_path, "w").write("\n".join(lines) + "\n")
    print("tlsconf: %d builders, %d call sites" % (len(builders), len(uses)))

if __name__ == "__main__":
    try:
        main(sys.argv[1] if len(sys.argv) > 1 else "/verif/coq/Gen/TlsConfigGen.v")
    except Untranslatable as e:
        print("UNTRANSLATABLE:", e); sys.exit(2)
