#!/usr/bin/env python3
"""py2coq_static: translator for the file handlers of server/handler.py -> coq/Gen/StaticGen.v

Translated (each becomes  gen_<name> (L : pylib) [self] (w__ : fs) args : res T   or, for the functions that
change the filesystem,  ... : res T * fs):

    _resolve_fully                                   gen_resolve_fully
    StaticFileHandler._is_safe_path / _get_mime_type / handle
                                                     gen_static_is_safe_path / gen_get_mime_type / gen_handle
    FileUploadHandler._is_safe_path / _resolve_target / _handle_delete / handle_upload
                                                     gen_upload_is_safe_path / gen_resolve_target /
                                                     gen_handle_delete / gen_handle_upload

The handlers' own logic is compiled from the AST by general rules: the order of the checks, what is returned
when, what is canonicalised and resolved before what, the containment test, the index loop with its `break`,
every try/except with its class list, the temp-file / rename sequence.  Calls between the translated functions
are calls between the generated definitions.  Python exceptions are values of Prelude.Res (`Err class message`);
`w__` is the filesystem, threaded through the calls that change it.  Anything that is not covered by a rule
below raises Untranslatable (exit status 2).

Rules beyond py2coq / py2coq_server2 (whose expression rules are inherited):
  expressions are put in A-normal form: a call that can raise or that touches the filesystem is bound first,
      `match <call> with Ok t => .. | Err k m => <raise> | OutOfModel => OutOfModel end`, in Python's evaluation
      order; and / or / not / conditional expressions with such calls inside become decision trees (short circuit)
  if T: A else: B with T free of such calls                -> one boolean (the decision tree of T) and one `if`, when A and B
      need no narrowing; otherwise the decision tree of T with A / B at its leaves (the code that follows the `if` is
      translated once per branch that reaches it)
  X is None / X is not None / truthiness of an Optional   -> match X with Some v => .. | None => ..; in the Some
      branch X has the inner type (a local is re-bound, an attribute expression is remembered as narrowed)
  for x in xs with break / continue / return               -> local fix; the variables the body re-assigns are its
      accumulators (found by analysis, no table of local names); `break` continues with the code after the loop
  try: B except (C1, C2) [as e]: H ...                      -> let h := fun [w__] xs k m => if exc_isa k C1 || .. then H
      else <outer raise> in B, every raise inside B being a call of h; xs are the variables defined before the try
      that B re-assigns: every raise passes the values they have at that point, so H (and the code after the try,
      when H falls through) sees them; a variable first assigned in B is not defined in H (a use is refused);
      a bare `raise` re-raises (k, m); no else / finally
  with contextlib.suppress(C..): B                          -> try: B except (C..): pass
  with open(P, "xb") as F: B                               -> the library call l_open_new (exclusive creation), then B
      with F standing for the open file (F.write(E) -> l_write; F is undefined after the block); leaving the
      block (close) has no effect of its own
  import statements, docstrings, logger.* calls            -> skipped
  every Python identifier x is emitted as v_x (no capture of Coq globals)

TRUSTED TABLES (every entry is an assumption about a library or about the object the method runs on)

 LIB: world-dependent library calls -> fields of StaticGlue.pylib, the first argument of every generated function
      (the tie theorems instantiate it with StaticGlue.model_lib, the reading over Model/Fs.v):
   (P / s).resolve()                       l_resolve w P        P built with `/`          res path
   Q.resolve()                             l_resolve_abs w Q    Q a result of resolve()   res path
   Q.is_dir() / .is_file() / .exists()     l_is_dir / l_is_file / l_exists w Q            res bool
   Q.stat().st_size                        l_st_size w Q                                  res N
   Q.read_text(encoding="utf-8")           l_read_text w Q                                res gbody
   generate_directory_listing(Q, s)        l_listing w Q s                                res gbody
   canonical_path_segments(s, clamp=b)     l_canon s b   (translated and tied in Equiv.v) res (list str)
   Q.mkdir(parents=True, exist_ok=True)    l_mkdir_parents w Q                            res unit * fs
   open(Q, "xb")  (as a with item)         l_open_new w Q                                 res unit * fs
   F.write(b)     (F bound by that with)   l_write w F b                                  res unit * fs
   os.replace(Q1, Q2)                      l_replace w Q1 Q2                              res unit * fs
   Q.unlink()                              l_unlink w Q                                   res unit * fs
   secrets.token_hex(n)                    l_token_hex n                                  str
 PURE: PurePath / str operations -> definitions of StaticGlue.v / Prelude / Model.CertAuth:
   Q / s -> pjoin;  Q.parent, Q.name, Q.suffix -> path_parent, path_name, path_suffix;
   Q.with_name(s) -> path_with_name (res);  Q.relative_to(R) -> path_relative_to (res);
   Q1 == Q2, Q1 != Q2 -> path_eqb;  "/".join(xs) -> join_slash;  s.lower() -> lower;
   except C -> exc_isa (the builtin exception hierarchy, StaticGlue.v)
 OBJECTS: attributes of the objects, as __init__ / the parser leave them:
   StaticFileHandler: document_root, default_indices, enable_directory_listing, max_file_size -> Static.scfg
   FileUploadHandler: upload_dir, max_size, allowed_types, auth_tokens, enable_delete        -> Static.ucfg
   GeminiRequest: path (the request is represented by it);  TitanRequest: path, size, mime_type, token, content
   -> Static.ureq;  TitanRequest.is_delete() == (size == 0);  GeminiResponse(status=, meta=, body=) -> mk_gresp
 CONSTANTS read from the source on every run: StatusCode members (protocol/status.py), the str / int constants of
   protocol/constants.py."""
import ast, sys, os, copy
sys.path.insert(0, os.path.dirname(os.path.abspath(__file__)))
from py2coq import Untranslatable, bad, coq_str, find_function, SRC
from py2coq_server import enum_values, int_consts
from py2coq_server2 import SFn2

FILE = "server/handler.py"

# ------------------------------------------------------------------ tables
OBJECTS = {
    "StaticFileHandler": dict(coq="Static.scfg", fields={
        "document_root": ("s_root", "path"), "default_indices": ("s_indices", ("list", "str")),
        "enable_directory_listing": ("s_listing", "bool"), "max_file_size": ("s_max", "N")}),
    "FileUploadHandler": dict(coq="Static.ucfg", fields={
        "upload_dir": ("u_root", "path"), "max_size": ("u_max", "N"), "allowed_types": ("u_types", ("opt", ("list", "str"))),
        "auth_tokens": ("u_tokens", ("list", "str")), "enable_delete": ("u_delete", "bool")}),
    "GeminiRequest": dict(coq="Str.str", fields={"path": (None, "str")}),
    "TitanRequest": dict(coq="Static.ureq", fields={
        "path": ("q_path", "str"), "size": ("q_size", "N"), "mime_type": ("q_mime", "str"),
        "token": ("q_token", ("opt", "str")), "content": ("q_content", "str")},
        methods={"is_delete": ("(N.eqb (q_size {0}) 0%N)", "bool")}),
}
# (receiver type, method, number of positional arguments, keywords) -> (kind, template, argument types, result type)
LIB_METHODS = {
    ("upath", "resolve", 0, ()): ("res", "(l_resolve L w__ {0})", [], "path"),
    ("path", "resolve", 0, ()): ("res", "(l_resolve_abs L w__ {0})", [], "path"),
    ("path", "is_dir", 0, ()): ("res", "(l_is_dir L w__ {0})", [], "bool"),
    ("path", "is_file", 0, ()): ("res", "(l_is_file L w__ {0})", [], "bool"),
    ("path", "exists", 0, ()): ("res", "(l_exists L w__ {0})", [], "bool"),
    ("path", "read_text", 0, (("encoding", "utf-8"),)): ("res", "(l_read_text L w__ {0})", [], "gbody"),
    ("path", "mkdir", 0, (("exist_ok", True), ("parents", True))): ("rw", "(l_mkdir_parents L w__ {0})", [], "unit"),
    ("path", "unlink", 0, ()): ("rw", "(l_unlink L w__ {0})", [], "unit"),
    ("fh", "write", 1, ()): ("rw", "(l_write L w__ {0} {1})", ["str"], "unit"),
    ("path", "with_name", 1, ()): ("res", "(path_with_name {0} {1})", ["str"], "path"),
    ("path", "relative_to", 1, ()): ("res", "(path_relative_to {0} {1})", ["path"], "path"),
    ("str", "lower", 0, ()): ("pure", "(lower {0})", [], "str"),
}
LIB_FUNCS = {      # name -> (kind, template, parameter names, argument types, defaults, result type)
    "generate_directory_listing": ("res", "(l_listing L w__ {0} {1})", ["directory", "base_path"], ["path", "str"], {}, "gbody"),
    "canonical_path_segments": ("res", "(l_canon L {0} {1})", ["path", "clamp"], ["str", "bool"], {"clamp": True}, ("list", "str")),
    "os.replace": ("rw", "(l_replace L w__ {0} {1})", ["src", "dst"], ["path", "path"], {}, "unit"),
    "secrets.token_hex": ("pure", "(l_token_hex L {0})", ["nbytes"], ["N"], {}, "str"),
}
PATH_ATTRS = {"parent": ("(path_parent {0})", "path"), "name": ("(path_name {0})", "str"), "suffix": ("(path_suffix {0})", "str")}

FUNCS = [
    dict(cls=None, func="_resolve_fully", name="gen_resolve_fully", params=["upath"], ret=("opt", "path")),
    dict(cls="StaticFileHandler", func="_is_safe_path", name="gen_static_is_safe_path", params=["path"], ret="bool"),
    dict(cls="StaticFileHandler", func="_get_mime_type", name="gen_get_mime_type", params=["path"], ret="str"),
    dict(cls="StaticFileHandler", func="handle", name="gen_handle", params=["obj:GeminiRequest"], ret="gresp"),
    dict(cls="FileUploadHandler", func="_is_safe_path", name="gen_upload_is_safe_path", params=["path"], ret="bool"),
    dict(cls="FileUploadHandler", func="_resolve_target", name="gen_resolve_target", params=["str"], ret=("opt", "path")),
    dict(cls="FileUploadHandler", func="_handle_delete", name="gen_handle_delete", params=["str"], ret="gresp", rw=True),
    dict(cls="FileUploadHandler", func="handle_upload", name="gen_handle_upload", params=["obj:TitanRequest"], ret="gresp", rw=True),
]

def ctype(t):
    if isinstance(t, str):
        if t.startswith("obj:"): return OBJECTS[t[4:]]["coq"]
        return {"str": "Str.str", "bool": "bool", "N": "N", "Z": "Z", "path": "Fs.path", "upath": "StaticGlue.upath",
                "gbody": "StaticGlue.gbody", "gresp": "StaticGlue.gresp", "unit": "unit", "fh": "Fs.path"}.get(t) or bad(ast.Constant(value=t), "type")
    if t[0] == "list": return "(list %s)" % ctype(t[1])
    if t[0] == "opt": return "(option %s)" % ctype(t[1])
    raise Untranslatable("type %s" % (t,))

def str_consts(relpath):
    out = {}
    for n in ast.parse(open(os.path.join(SRC, relpath)).read()).body:
        if isinstance(n, ast.Assign) and len(n.targets) == 1 and isinstance(n.targets[0], ast.Name) \
           and isinstance(n.value, ast.Constant) and isinstance(n.value.value, str):
            out[n.targets[0].id] = n.value.value
    return out

def top_function(tree, cls, func):
    """the function `func` defined directly in the module (cls None) or directly in the module-level class cls"""
    body = tree.body
    if cls is not None:
        cs = [n for n in tree.body if isinstance(n, ast.ClassDef) and n.name == cls]
        if len(cs) != 1: raise Untranslatable("class %s not found (or defined twice)" % cls)
        body = cs[0].body
    fs = [n for n in body if isinstance(n, (ast.FunctionDef, ast.AsyncFunctionDef)) and n.name == func]
    if len(fs) != 1: raise Untranslatable("function %s.%s not found (or defined twice)" % (cls, func))
    return fs[0]

def const(v):
    return ast.Constant(value=v)

class PFn(SFn2):
    """one function of server/handler.py"""
    def __init__(self, spec, node, consts, callees):
        super().__init__(spec, node, consts)
        self.callees = callees            # call text ('self._x' / '_x') -> spec of a function translated earlier
        self.rw = bool(spec.get("rw"))
        self.narrow = {}                  # unparse(expression) -> (coq term, type)
        self.hstack = []                  # names of the enclosing handler functions
        self.cur_exc = None               # (k, m) inside a handler body
        self.loops = []                   # (continue thunk, break thunk)
        self.n = 0
        self.temps = set()                # names introduced by the translator
        self.sconsts = consts["__str__"]

    def fresh(self, p):
        self.n += 1
        return "%s__%d" % (p, self.n)

    # ---------------------------------------------------------------- description of table calls
    def describe(self, e):
        """-> dict(kind, children, emit, type) for an expression covered by LIB / PURE / OBJECTS / callees, else None"""
        if isinstance(e, ast.Await):
            return None
        if isinstance(e, ast.Attribute):
            # Q.stat().st_size
            v = e.value
            if e.attr == "st_size" and isinstance(v, ast.Call) and isinstance(v.func, ast.Attribute) and v.func.attr == "stat" \
               and not v.args and not v.keywords and self.typeof(v.func.value) == "path":
                return dict(kind="res", children=[v.func.value], emit=lambda a: "(l_st_size L w__ %s)" % a[0], type="N")
            if isinstance(v, ast.Attribute) and self.attr_key(e).startswith("StatusCode."):
                return None
            try: t = self.typeof(v)
            except Untranslatable: return None
            if t == "path" and e.attr in PATH_ATTRS:
                templ, rt = PATH_ATTRS[e.attr]
                return dict(kind="pure", children=[v], emit=lambda a: templ.format(*a), type=rt)
            if isinstance(t, str) and t.startswith("obj:"):
                f = OBJECTS[t[4:]]["fields"].get(e.attr)
                if f is None: bad(e, "attribute outside the OBJECTS table")
                return dict(kind="pure", children=[v], emit=(lambda a: "(%s %s)" % (f[0], a[0])) if f[0] else (lambda a: a[0]), type=f[1])
            return None
        if isinstance(e, ast.BinOp) and isinstance(e.op, ast.Div):
            if self.typeof(e.left) == "path" and self.typeof(e.right) == "str":
                return dict(kind="pure", children=[e.left, e.right], emit=lambda a: "(pjoin %s %s)" % (a[0], a[1]), type="upath")
            bad(e, "operator / outside the PURE table")
        if not isinstance(e, ast.Call):
            return None
        f = e.func
        text = ast.unparse(f)
        # calls of functions translated earlier
        if text in self.callees:
            c = self.callees[text]
            if e.keywords or len(e.args) != len(c["params"]): bad(e, "call shape of a translated function")
            for a, t in zip(e.args, c["params"]):
                if self.typeof(a) != t: bad(e, "argument type %s, expected %s" % (self.typeof(a), t))
            if c.get("rw") and not self.rw: bad(e, "filesystem-changing call in a read-only function")
            head = "%s L %sw__" % (c["name"], (self.self_name + " ") if c["cls"] else "")
            return dict(kind="rw" if c.get("rw") else "res", children=list(e.args),
                        emit=lambda a: "(%s%s)" % (head, "".join(" " + x for x in a)), type=c["ret"])
        # library functions
        if text in LIB_FUNCS:
            kind, templ, names, types, defaults, rt = LIB_FUNCS[text]
            vals = dict(zip(names, e.args))
            if len(e.args) > len(names): bad(e, "too many arguments")
            for k in e.keywords:
                if k.arg not in names or k.arg in vals: bad(e, "keyword argument")
                vals[k.arg] = k.value
            for nm in names:
                if nm not in vals:
                    if nm not in defaults: bad(e, "missing argument %s" % nm)
                    vals[nm] = const(defaults[nm])
            kids = [vals[nm] for nm in names]
            for a, t in zip(kids, types):
                if self.typeof(a) != t: bad(e, "argument type %s, expected %s" % (self.typeof(a), t))
            return dict(kind=kind, children=kids, emit=lambda a: templ.format(*a), type=rt)
        # the response constructor
        if text == "GeminiResponse":
            kw = {k.arg: k.value for k in e.keywords}
            if e.args or not set(kw) <= {"status", "meta", "body"} or not {"status", "meta"} <= set(kw): bad(e, "GeminiResponse call shape")
            if self.typeof(kw["status"]) != "Z" or self.typeof(kw["meta"]) != "str": bad(e, "GeminiResponse argument types")
            kids = [kw["status"], kw["meta"]]
            bt = None
            if "body" in kw:
                bt = self.typeof(kw["body"])
                if bt not in ("str", "gbody"): bad(e, "body type %s" % (bt,))
                kids.append(kw["body"])
            def emit(a):
                b = "GNone" if bt is None else (a[2] if bt == "gbody" else "(GText %s)" % a[2])
                return "(mk_gresp %s %s %s)" % (a[0], a[1], b)
            return dict(kind="pure", children=kids, emit=emit, type="gresp")
        if isinstance(f, ast.Attribute):
            # "/".join(xs)
            if f.attr == "join" and isinstance(f.value, ast.Constant) and f.value.value == "/" and len(e.args) == 1 and not e.keywords:
                if self.typeof(e.args[0]) != ("list", "str"): bad(e, "join of a non-list")
                return dict(kind="pure", children=[e.args[0]], emit=lambda a: "(join_slash %s)" % a[0], type="str")
            try: rt0 = self.typeof(f.value)
            except Untranslatable: return None
            if isinstance(rt0, str) and rt0.startswith("obj:"):
                m = OBJECTS[rt0[4:]].get("methods", {}).get(f.attr)
                if m is None or e.args or e.keywords: bad(e, "method outside the OBJECTS table")
                return dict(kind="pure", children=[f.value], emit=lambda a: m[0].format(*a), type=m[1])
            if rt0 in ("path", "upath", "fh") or (rt0 == "str" and f.attr == "lower"):
                try:
                    kws = tuple(sorted((k.arg, ast.literal_eval(k.value)) for k in e.keywords))
                except Exception:
                    bad(e, "keyword value")
                ent = LIB_METHODS.get((rt0, f.attr, len(e.args), kws))
                if ent is None: bad(e, "method outside the LIB / PURE tables")
                kind, templ, types, rt = ent
                for a, t in zip(e.args, types):
                    if self.typeof(a) != t: bad(e, "argument type %s, expected %s" % (self.typeof(a), t))
                return dict(kind=kind, children=[f.value] + list(e.args), emit=lambda a: templ.format(*a), type=rt)
        return None

    # ---------------------------------------------------------------- types and pure expressions
    def typeof(self, e):
        if isinstance(e, ast.Await): return self.typeof(e.value)
        if isinstance(e, (ast.Attribute, ast.Name)):
            u = self.narrow.get(ast.unparse(e))
            if u: return u[1]
        if isinstance(e, ast.Name):
            if e.id in self.env: return self.env[e.id]
            if e.id in self.sconsts: return "str"
            if e.id in self.consts and isinstance(self.consts[e.id], int): return "N"
            bad(e, "unknown variable")
        if isinstance(e, ast.Constant):
            if isinstance(e.value, bool): return "bool"
            if isinstance(e.value, int): return "N"
            if isinstance(e.value, str): return "str"
            if e.value is None: return "none"
            bad(e, "constant")
        if isinstance(e, ast.Compare): return "bool"
        d = self.describe(e)
        if d: return d["type"]
        if isinstance(e, ast.BinOp) and isinstance(e.op, ast.Div): bad(e, "operator /")
        return super().typeof(e)

    def vname(self, n):
        return "v_" + n

    def expr(self, e):
        """a PURE expression (effectful calls have been bound to temporaries by ev)"""
        if isinstance(e, (ast.Attribute, ast.Name)):
            u = self.narrow.get(ast.unparse(e))
            if u: return u[0]
        if isinstance(e, ast.Name):
            if e.id in self.temps: return e.id
            if e.id in self.env: return self.vname(e.id)
            if e.id in self.sconsts: return coq_str(self.sconsts[e.id])
            if e.id in self.consts and isinstance(self.consts[e.id], int): return "%d%%N" % self.consts[e.id]
            bad(e, "unknown name")
        if isinstance(e, ast.Constant):
            v = e.value
            if isinstance(v, bool): return "true" if v else "false"
            if isinstance(v, int): return "%d%%N" % v
            if isinstance(v, str): return coq_str(v)
            if v is None: return "None"
            bad(e, "constant")
        d = self.describe(e)
        if d:
            if d["kind"] != "pure": bad(e, "effectful call in a pure position")
            return d["emit"]([self.expr(c) for c in d["children"]])
        if isinstance(e, ast.Compare) and len(e.ops) == 1 and isinstance(e.ops[0], (ast.Eq, ast.NotEq)) and self.typeof(e.left) == "path":
            if self.typeof(e.comparators[0]) != "path": bad(e, "comparison of a path with another type")
            x = "(path_eqb %s %s)" % (self.expr(e.left), self.expr(e.comparators[0]))
            return x if isinstance(e.ops[0], ast.Eq) else "(negb %s)" % x
        if isinstance(e, ast.Call) and isinstance(e.func, ast.Name) and e.func.id == "isinstance" and len(e.args) == 2 and isinstance(e.args[1], ast.Name):
            t = self.typeof(e.args[0])
            if isinstance(t, str) and t.startswith("obj:"):
                if t[4:] == e.args[1].id: return "true"
                bad(e, "isinstance between unrelated table classes")
        return super().expr(e)

    def truthy(self, e):
        t = self.typeof(e)
        if isinstance(t, tuple) and t[0] == "opt":
            if t[1] == "str" or (isinstance(t[1], tuple) and t[1][0] == "list"):
                return "(match %s with Some (_ :: _) => true | _ => false end)" % self.expr(e)
            bad(e, "truthiness of type %s" % (t,))
        if t in ("bool", "str") or (isinstance(t, tuple) and t[0] == "list"): return super().truthy(e)
        bad(e, "truthiness of type %s" % (t,))

    # ---------------------------------------------------------------- effects
    def pure(self, e):
        """no sub-expression can raise or touches the filesystem"""
        todo = [e]
        while todo:
            n = todo.pop()
            if isinstance(n, ast.Await): return False
            if isinstance(n, (ast.Call, ast.Attribute, ast.BinOp)):
                try: d = self.describe(n)
                except Untranslatable: return False       # not translatable as it stands (e.g. before narrowing): the
                if d and d["kind"] != "pure": return False  # effectful path re-examines it and reports the error
            for c in ast.iter_child_nodes(n):
                if isinstance(n, ast.Call) and c is n.func:
                    # the callee expression is not a value of its own: only its receiver is evaluated
                    if isinstance(c, ast.Attribute): todo.append(c.value)
                    continue
                todo.append(c)
        return True

    def fork(self, thunk):
        env, nar = dict(self.env), dict(self.narrow)
        try: return thunk()
        finally: self.env, self.narrow = env, nar

    def ret_raise(self, k, m):
        if self.hstack:
            hn, accs = self.hstack[-1]
            for a in accs:
                if a not in self.env: raise Untranslatable("variable %s of the enclosing try is not defined at a raise" % a)
            return "(%s %s%s%s %s)" % (hn, "w__ " if self.rw else "", "".join(self.vname(a) + " " for a in accs), k, m)
        return "(Err %s %s, w__)" % (k, m) if self.rw else "(Err %s %s)" % (k, m)
    def ret_oom(self):
        return "(OutOfModel, w__)" if self.rw else "OutOfModel"
    def ret_ok(self, v):
        return "(Ok %s, w__)" % v if self.rw else "(Ok %s)" % v

    def strict_children(self, e):
        """(child, setter) for the operands that Python evaluates unconditionally, in evaluation order"""
        out = []
        def fld(obj, name): out.append((getattr(obj, name), lambda v: setattr(obj, name, v)))
        def idx(lst, i): out.append((lst[i], lambda v: lst.__setitem__(i, v)))
        if isinstance(e, ast.BinOp): fld(e, "left"); fld(e, "right")
        elif isinstance(e, ast.Compare):
            fld(e, "left")
            for i in range(len(e.comparators)): idx(e.comparators, i)
        elif isinstance(e, ast.Call):
            if isinstance(e.func, ast.Attribute): fld(e.func, "value")
            for i in range(len(e.args)): idx(e.args, i)
            for k in e.keywords: fld(k, "value")
        elif isinstance(e, ast.Attribute): fld(e, "value")
        elif isinstance(e, ast.Subscript): fld(e, "value")
        elif isinstance(e, ast.JoinedStr):
            for v in e.values:
                if isinstance(v, ast.FormattedValue): fld(v, "value")
        elif isinstance(e, (ast.Tuple, ast.List)):
            for i in range(len(e.elts)): idx(e.elts, i)
        return out

    def ev(self, e, k):
        """evaluate e; k receives a PURE expression (possibly a temporary) that denotes the value"""
        if isinstance(e, ast.Await): return self.ev(e.value, k)
        if self.pure(e): return k(e)
        if isinstance(e, ast.BoolOp) or (isinstance(e, ast.UnaryOp) and isinstance(e.op, ast.Not)):
            return self.branch(e, lambda: k(const(True)), lambda: k(const(False)))
        if isinstance(e, ast.IfExp):
            return self.branch(e.test, lambda: self.ev(e.body, k), lambda: self.ev(e.orelse, k))
        d = self.describe(e)
        if d and d["kind"] != "pure":
            return self.ev_list(d["children"], lambda ps: self.emit_effect(e, d, ps, k))
        e2 = copy.deepcopy(e)
        kids = self.strict_children(e2)
        if not kids: bad(e, "effectful expression form")
        def go(i):
            if i == len(kids):
                if not self.pure(e2): bad(e, "effectful expression form")
                return k(e2)
            child, setter = kids[i]
            if self.pure(child): return go(i + 1)
            def cont(pc):
                setter(pc)
                return go(i + 1)
            return self.ev(child, cont)
        return go(0)

    def ev_list(self, es, k):
        def go(i, acc):
            if i == len(es): return k(acc)
            return self.ev(es[i], lambda p: go(i + 1, acc + [p]))
        return go(0, [])

    def emit_effect(self, e, d, ps, k):
        call = d["emit"]([self.expr(p) for p in ps])
        t = self.fresh("t")
        self.env[t] = d["type"]
        self.temps.add(t)
        pat = "_" if d["type"] == "unit" else t
        if d["kind"] == "rw":
            if not self.rw: bad(e, "filesystem-changing call in a read-only function")
            r = self.fresh("r")
            return "(let '(%s, w__) := %s in match %s with Ok %s => %s | Err k__ m__ => %s | OutOfModel => %s end)" % (
                r, call, r, pat, k(ast.Name(id=t, ctx=ast.Load())), self.ret_raise("k__", "m__"), self.ret_oom())
        return "(match %s with Ok %s => %s | Err k__ m__ => %s | OutOfModel => %s end)" % (
            call, pat, k(ast.Name(id=t, ctx=ast.Load())), self.ret_raise("k__", "m__"), self.ret_oom())

    # ---------------------------------------------------------------- conditions as decision trees
    def match_opt(self, p, k_some, k_none):
        """p : a pure expression of an Optional type.  k_some runs with p narrowed to the inner type."""
        t = self.typeof(p)
        if not (isinstance(t, tuple) and t[0] == "opt"): bad(p, "None test on a non-optional (%s)" % (t,))
        key = ast.unparse(p)
        scrut = self.expr(p)
        def some():
            if isinstance(p, ast.Name) and key not in self.narrow:
                self.env[p.id] = t[1]
                return self.expr(p), k_some()
            v = self.fresh("v")
            self.narrow[key] = (v, t[1])
            return v, k_some()
        v, code = self.fork(some)
        return "(match %s with Some %s => %s | None => %s end)" % (scrut, v, code, self.fork(k_none))

    def branch(self, t, kt, kf):
        if isinstance(t, ast.BoolOp):
            first, more = t.values[0], t.values[1:]
            rest = more[0] if len(more) == 1 else ast.BoolOp(op=t.op, values=more)
            if isinstance(t.op, ast.And):
                return self.branch(first, lambda: self.branch(rest, kt, kf), kf)
            return self.branch(first, kt, lambda: self.branch(rest, kt, kf))
        if isinstance(t, ast.UnaryOp) and isinstance(t.op, ast.Not):
            return self.branch(t.operand, kf, kt)
        if isinstance(t, ast.Compare) and len(t.ops) == 1 and isinstance(t.ops[0], (ast.Is, ast.IsNot)) \
           and isinstance(t.comparators[0], ast.Constant) and t.comparators[0].value is None:
            if isinstance(t.ops[0], ast.Is):
                return self.ev(t.left, lambda p: self.match_opt(p, kf, kt))
            return self.ev(t.left, lambda p: self.match_opt(p, kt, kf))
        def atom(p):
            ty = self.typeof(p)
            if isinstance(ty, tuple) and ty[0] == "opt":
                # truthiness of an Optional: present and itself truthy
                def some():
                    term, ity = self.narrow.get(ast.unparse(p)) or (self.expr(p), self.typeof(p))
                    if ity == "str" or (isinstance(ity, tuple) and ity[0] == "list"):
                        return "(match %s with [] => %s | _ :: _ => %s end)" % (term, self.fork(kf), self.fork(kt))
                    bad(p, "truthiness of Optional[%s]" % (ity,))
                return self.match_opt(p, some, kf)
            c = self.cond(p)
            if c == "true": return kt()
            if c == "false": return kf()
            a, b = self.fork(kt), self.fork(kf)
            if (a, b) == ("true", "false"): return c
            if (a, b) == ("false", "true"): return "(negb %s)" % c
            return "(if %s then %s else %s)" % (c, a, b)
        return self.ev(t, atom)

    def if_stmt(self, t, kt, kf):
        """a pure test whose branches need no narrowing: one boolean (computed by the decision tree) and one `if`,
        so that neither branch is duplicated; otherwise the decision tree with the branches at its leaves"""
        if self.pure(t):
            saved = (self.n, set(self.temps))
            try:
                c = self.fork(lambda: self.branch(t, lambda: "true", lambda: "false"))
                if c == "true": return kt()
                if c == "false": return kf()
                return "(if %s then %s else %s)" % (c, self.fork(kt), self.fork(kf))
            except Untranslatable:
                self.n, self.temps = saved
        return self.branch(t, kt, kf)

    # ---------------------------------------------------------------- statements
    def at(self, thunk):
        """a continuation that runs in the handler context of the place where it was created"""
        hs, ce, lp = list(self.hstack), self.cur_exc, list(self.loops)
        def run():
            s = (self.hstack, self.cur_exc, self.loops)
            self.hstack, self.cur_exc, self.loops = hs, ce, lp
            try: return thunk()
            finally: self.hstack, self.cur_exc, self.loops = s
        return run

    @staticmethod
    def terminates(stmts):
        if not stmts: return False
        s = stmts[-1]
        if isinstance(s, (ast.Return, ast.Raise)): return True
        if isinstance(s, ast.If): return PFn.terminates(s.body) and PFn.terminates(s.orelse)
        if isinstance(s, ast.Try): return PFn.terminates(s.body) and all(PFn.terminates(h.body) for h in s.handlers)
        return False

    @staticmethod
    def assigned(stmts):
        out = set()
        for s in stmts:
            for n in ast.walk(s):
                if isinstance(n, ast.Name) and isinstance(n.ctx, ast.Store): out.add(n.id)
        return out

    def assign(self, name, p, rest):
        t = self.typeof(p)
        if t == "none": bad(p, "assignment of None")
        if name in self.env and self.env[name] != t: bad(p, "variable %s changes its type (%s -> %s)" % (name, self.env[name], t))
        x = self.expr(p)
        self.env[name] = t
        for key in [k for k in self.narrow if k == name or k.startswith(name + ".")]: del self.narrow[key]
        return "(let %s := %s in %s)" % (self.vname(name), x, rest())

    def coerce_ret(self, p):
        want, t = self.spec["ret"], self.typeof(p)
        if t == want: return self.expr(p)
        if isinstance(want, tuple) and want[0] == "opt":
            if t == "none": return "None"
            if t == want[1]: return "(Some %s)" % self.expr(p)
        bad(p, "return of type %s in a function of type %s" % (t, want))

    def try_stmt(self, body, handlers, nxt, node):
        """handlers: list of (class names or None, variable or None, statements)"""
        # the variables that exist before the try and that its body re-assigns: a handler (and the code after it)
        # must see the value they have when the exception is raised, so they are parameters of the handler
        # function and every raise passes their current values.  Variables first assigned inside the body are
        # not defined in a handler: a use there is refused.
        accs = sorted(a for a in self.assigned(body) if a in self.env)
        for a in accs:
            for key in [k for k in self.narrow if k == a or k.startswith(a + ".")]: del self.narrow[key]
        after = self.at(nxt)
        hn, kv, mv = self.fresh("h"), self.fresh("k"), self.fresh("m")
        def dispatch():
            code = self.ret_raise(kv, mv)
            for classes, var, hbody in reversed(handlers):
                def one():
                    self.cur_exc = (kv, mv)
                    if var:
                        self.env[var] = "str"
                        return "(let %s := %s in %s)" % (self.vname(var), mv, self.block(hbody, after))
                    return self.block(hbody, after)
                saved = self.cur_exc
                b = self.fork(one)
                self.cur_exc = saved
                test = "true" if classes is None else " || ".join("exc_isa %s %s" % (kv, coq_str(c)) for c in classes)
                code = "(if %s then %s else %s)" % (test, b, code)
            return code
        hcode = self.at(dispatch)()
        bnd = "".join("(%s : %s) " % (self.vname(a), ctype(self.env[a])) for a in accs)
        self.hstack.append((hn, accs))
        try: bcode = self.block(body, after)
        finally: self.hstack.pop()
        return "(let %s := (fun %s%s(%s %s : Str.str) => %s) in %s)" % (hn, "(w__ : Fs.fs) " if self.rw else "", bnd, kv, mv, hcode, bcode)

    def block(self, stmts, k):
        if not stmts: return k()
        s, rest = stmts[0], stmts[1:]
        nxt = lambda: self.block(rest, k)
        if isinstance(s, (ast.Import, ast.ImportFrom, ast.Pass)): return nxt()
        if isinstance(s, ast.Expr):
            v = s.value
            if isinstance(v, ast.Constant) and isinstance(v.value, str): return nxt()
            if isinstance(v, ast.Call) and ast.unparse(v.func).startswith("logger."): return nxt()
            if isinstance(v, ast.Await): v = v.value
            if isinstance(v, ast.Call) and not self.pure(v): return self.ev(v, lambda _: nxt())
            bad(s, "expression statement")
        if isinstance(s, ast.AnnAssign) and s.value is not None and isinstance(s.target, ast.Name):
            return self.ev(s.value, lambda p: self.assign(s.target.id, p, nxt))
        if isinstance(s, ast.Assign):
            if len(s.targets) != 1 or not isinstance(s.targets[0], ast.Name): bad(s, "assignment target")
            return self.ev(s.value, lambda p: self.assign(s.targets[0].id, p, nxt))
        if isinstance(s, ast.Return):
            if s.value is None: bad(s, "return without a value")
            return self.ev(s.value, lambda p: self.ret_ok(self.coerce_ret(p)))
        if isinstance(s, ast.Raise):
            if s.exc is None:
                if self.cur_exc is None or s.cause is not None: bad(s, "bare raise outside a handler")
                return self.ret_raise(*self.cur_exc)
            x = s.exc
            if isinstance(x, ast.Call) and isinstance(x.func, ast.Name) and len(x.args) == 1 and not x.keywords and s.cause is None:
                return self.ev(x.args[0], lambda p: self.ret_raise(coq_str(x.func.id), self.expr(p)) if self.typeof(p) == "str" else bad(s, "raise message"))
            bad(s, "raise form")
        if isinstance(s, ast.If):
            return self.if_stmt(s.test, lambda: self.block(s.body, nxt), lambda: self.block(s.orelse, nxt))
        if isinstance(s, ast.Break):
            if rest or not self.loops: bad(s, "break")
            return self.loops[-1][1]()
        if isinstance(s, ast.Continue):
            if rest or not self.loops: bad(s, "continue")
            return self.loops[-1][0]()
        if isinstance(s, ast.For):
            if s.orelse or not isinstance(s.target, ast.Name) or not self.pure(s.iter): bad(s, "for form")
            it = self.typeof(s.iter)
            if not (isinstance(it, tuple) and it[0] == "list"): bad(s, "iteration over a non-list")
            var = s.target.id
            if var in self.env: bad(s, "loop variable shadows a variable")
            accs = sorted(a for a in self.assigned(s.body) if a in self.env)
            for a in accs:
                for key in [k for k in self.narrow if k == a or k.startswith(a + ".")]: del self.narrow[key]
            lid = self.fresh("loop")
            after = self.at(nxt)
            bnd = "".join(" (%s : %s)" % (self.vname(a), ctype(self.env[a])) for a in accs) + (" (w__ : Fs.fs)" if self.rw else "")
            def rec():
                for a in accs:
                    if a not in self.env: bad(s, "accumulator lost")
                return "(%s l'__%s%s)" % (lid, "".join(" " + self.vname(a) for a in accs), " w__" if self.rw else "")
            def body():
                self.env[var] = it[1]
                self.loops.append((rec, after))
                try: return self.block(s.body, rec)
                finally: self.loops.pop()
            bcode = self.fork(body)
            ncode = self.fork(after)
            return "((fix %s (l__ : list %s)%s {struct l__} := match l__ with [] => %s | %s :: l'__ => %s end) %s%s%s)" % (
                lid, ctype(it[1]), bnd, ncode, self.vname(var), bcode, self.expr(s.iter),
                "".join(" " + self.vname(a) for a in accs), " w__" if self.rw else "")
        if isinstance(s, ast.Try):
            if s.orelse or s.finalbody or not s.handlers: bad(s, "try form")
            hs = []
            for h in s.handlers:
                if h.type is None: cl = None
                elif isinstance(h.type, ast.Name): cl = [h.type.id]
                elif isinstance(h.type, ast.Tuple) and all(isinstance(x, ast.Name) for x in h.type.elts): cl = [x.id for x in h.type.elts]
                else: bad(s, "exception class")
                hs.append((cl, h.name, h.body))
            return self.try_stmt(s.body, hs, nxt, s)
        if isinstance(s, ast.With) and len(s.items) == 1:
            it = s.items[0]
            c = it.context_expr
            if isinstance(c, ast.Call) and ast.unparse(c.func) == "contextlib.suppress" and it.optional_vars is None \
               and c.args and all(isinstance(a, ast.Name) for a in c.args) and not c.keywords:
                return self.try_stmt(s.body, [([a.id for a in c.args], None, [ast.Pass()])], nxt, s)
            if isinstance(c, ast.Call) and ast.unparse(c.func) == "open" and len(c.args) == 2 and not c.keywords \
               and isinstance(c.args[1], ast.Constant) and c.args[1].value == "xb" and isinstance(it.optional_vars, ast.Name):
                fh = it.optional_vars.id
                if fh in self.env: bad(s, "file variable shadows a variable")
                def opened(ps):
                    if self.typeof(ps[0]) != "path": bad(s, "open() of a non-path")
                    def body(_):
                        # F stands for the open file; it is usable inside the block only
                        self.env[fh] = "fh"
                        def leave():
                            self.env.pop(fh, None)
                            return nxt()
                        return "(let %s := %s in %s)" % (self.vname(fh), self.expr(ps[0]), self.block(s.body, leave))
                    d = dict(kind="rw", type="unit", emit=lambda a: "(l_open_new L w__ %s)" % a[0])
                    return self.emit_effect(s, d, ps, body)
                return self.ev_list([c.args[0]], opened)
            bad(s, "with form")
        bad(s, "statement")

    def translate(self):
        a = self.node.args
        if a.vararg or a.kwarg or a.kwonlyargs or a.posonlyargs or a.defaults or a.kw_defaults or self.node.decorator_list:
            bad(self.node, "signature")
        names = [x.arg for x in a.args]
        binders = ["(L : StaticGlue.pylib)"]
        self.self_name = None
        if self.spec["cls"]:
            if not names: bad(self.node, "method without self")
            self.self_name = self.vname(names[0])
            self.env[names[0]] = "obj:" + self.spec["cls"]
            binders.append("(%s : %s)" % (self.self_name, OBJECTS[self.spec["cls"]]["coq"]))
            names = names[1:]
        if len(names) != len(self.spec["params"]): bad(self.node, "number of parameters")
        binders.append("(w__ : Fs.fs)")
        for n, t in zip(names, self.spec["params"]):
            self.env[n] = t
            binders.append("(%s : %s)" % (self.vname(n), ctype(t)))
        def off_end():
            raise Untranslatable("%s: control can fall off the end" % self.spec["func"])
        body = self.block(self.node.body, off_end)
        rt = "Res.res %s" % ctype(self.spec["ret"])
        if self.rw: rt = "(%s * Fs.fs)%%type" % rt
        return "Definition %s %s : %s :=\n  %s.\n" % (self.spec["name"], " ".join(binders), rt, body)

HEADER = """(* GENERATED by /verif/translate/py2coq_static.py from /repo/src/nauyaca/server/handler.py - do not edit *)
From Coq Require Import List NArith ZArith Bool.
From NV Require Import Prelude.Str Prelude.Res Prelude.Utf8 Model.Fs Model.Static Model.CertAuth Equiv.StaticGlue.
Import ListNotations.
Open Scope list_scope.

"""

def main(out_path):
    consts = {k: v for k, v in int_consts("protocol/constants.py").items() if isinstance(v, int)}
    consts["__status__"] = enum_values("protocol/status.py", "StatusCode")
    consts["__str__"] = str_consts("protocol/constants.py")
    tree = ast.parse(open(os.path.join(SRC, FILE)).read())
    chunks = [HEADER]
    done = []
    for spec in FUNCS:
        spec = dict(spec, file=FILE)
        fn = copy.deepcopy(top_function(tree, spec["cls"], spec["func"]))
        callees = {}
        for c in done:
            if c["cls"] is None: callees[c["func"]] = c
            elif c["cls"] == spec["cls"]: callees["self." + c["func"]] = c
        try:
            chunks.append(PFn(spec, fn, consts, callees).translate())
        except Untranslatable as e:
            raise Untranslatable("%s:%s.%s: %s" % (FILE, spec["cls"], spec["func"], e))
        chunks.append("\n")
        done.append(spec)
    open(out_path, "w").write("".join(chunks))
    print("py2coq_static: %d functions translated" % len(FUNCS))

if __name__ == "__main__":
    try:
        main(sys.argv[1] if len(sys.argv) > 1 else os.path.join(os.path.dirname(os.path.dirname(os.path.abspath(__file__))), "coq", "Gen", "StaticGen.v"))
    except Untranslatable as e:
        print("UNTRANSLATABLE:", e); sys.exit(2)
