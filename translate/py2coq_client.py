#!/usr/bin/env python3
"""py2coq_client: fail-closed translator for the methods of GeminiClientProtocol and TitanClientProtocol (client/protocol.py)
-> coq/Gen/ClientGen.v.  The two classes go through the same rules and tables (CLASSES gives the class names and the prefix
of the generated names: gen_m for the Gemini class, gen_titan_m for the Titan class).

Each method `m(self, args) -> None` becomes a Gallina function over the MODEL's connection record (Model.ClientProto.cst)

    gen_m  <callees> <environment>  (s__ : cst) args : cst * list caction

and a method `-> bool` that only reads the object becomes `gen_m (s__ : cst) : bool`.  coq/Equiv/EquivClient.v states,
and coq/Proofs/EquivClient_proofs.v proves, that each of them (callees instantiated by the model's functions) IS the
model's function.  The file is regenerated from the current source (SRC, i.e. $NV_SRC or /repo/src/nauyaca) on every
run; anything outside the subset below raises Untranslatable (exit status 2).

GENERAL RULES (py2coq.Fn's continuation style: the term of a statement contains the term of what follows it)
  x = e / x: T = e / x += e            let x := e in ...            (x = A if C else B  is first rewritten to if/else;
                                       a local keeps one type, except that an N may be stored in a Z local)
  self.f = e / self.f += e             let s__ := <setter f> s__ e in ...                        (table ATTRS)
  a, b = X.split(SEP, 1)               match break_sub SEP X with Some (a, b) => ... | None => <escape ValueError>
  if / elif / else, return, pass, break, continue; `and` / `or` / `not` short-circuit (an operand that can raise is
  only evaluated where Python evaluates it: the test is then compiled to nested ifs)
  if x:   (x an optional exception)    match x with Some x' => ... | None => ... end
  for x in L: <no effect on self>      a local `fix` over L that returns `Ok <assigned outer locals>` (at the end or at
                                       `break`) or `Err <exception>`; the statements after the loop continue from Ok
  self._m(args)  (statement)           let '(s__, b__) := m s__ args in let a__ := a__ ++ b__ in ...     (m a parameter)
  self._m()      (expression, m -> bool)   (m s__)                                                       (m a parameter)
  try: v = B.decode(label) except (ValueError, LookupError) as e: H
                                       match decode_with label B with Some t => let v := t .. | None => let e := "decode" in H
  expressions: names, module constants (values read from the source), literals, f-strings of str parts, + and - on
  ints (N when both sides are lengths / non-negative literals / N fields, Z otherwise; `-` is always Z), + on
  str / bytes, comparisons (chained too), `is None`, `is not None`, `in` on str / bytes, x or "" on str, conditional
  expressions, len, L[<literal index>], and the library calls of table LIB.
  PARTIAL OPERATIONS: an operation that raises in Python (None where an int is needed, L[i] out of range, a failed
  decode / encode / int(), transport.write on None, set_exception on a done future, ...) becomes a `match` whose failing
  branch ends the callback with the action  CEscape <exception class>  and the state reached so far.  Where the model
  has no value for a Python value (negative status, isdigit on non-ASCII text) the class is "out_of_model".

TRUSTED TABLES (each entry is an assumption about how the model's record and labels represent the Python objects)
  ATTRS      self.buffer -> cbuf (bytes), self.header_received -> hdr (bool), self.status -> status (option N),
             self.meta -> meta (str; Python's initial None is represented by "" - the translated methods read self.meta
             only as `self.meta or ""`, after assigning it, or, for the response, once self.status is known not to be
             None, which _parse_header sets together with self.meta), self.transport -> connected (bool: is it set)
  ENV_ATTRS  self.url, self.titan_url, self.content, self.send_on_connect, self.decode_body: constants of the connection
             = parameters
  FUTURE     self.response_future.done() -> fut_done; .set_exception(e) / .set_result(r) -> upd_cfut (Done ..), escaping
             with InvalidStateError if already done
  TRANSPORT  self.transport.write(x) -> action CWrite x; self.transport.close() -> action CClose (AttributeError escapes
             if the transport is not set)
  EXC_LABELS exception constructor + message prefix -> the model's class label (like raise_kinds in py2coq.py)
  ESCAPES    UnicodeDecodeError escaping a callback is the model's label "header_utf8"; other classes keep their name
  DECODE     the except-clause (ValueError, LookupError) around bytes.decode(<label>) catches exactly the failures the
             model's oracle `decode_with` reports as None; the caught exception has label "decode"
  KW_CTORS   GeminiResponse(status=, meta=, body=, url=) -> mk_cresp status meta body (url: constant of the connection)
  LIB        bytes.find / `in` / split(sep, 1) -> py_find / contains / break_sub, split1 (Equiv/ClientGlue.v);
             startswith / endswith -> prefixb / suffixb; str.split(<one char>) -> split_on; str.strip() -> ustrip (Unicode
             white space); str.strip(chars) -> strip_by; str.lower() -> lower (ASCII letters only: enough for the
             comparisons with "text/" and "charset=", no other code point lower-cases to one of their letters);
             str.isascii() -> all_ascii; str.isdigit() -> py_isdigit (partial); int(str) -> Model.Titan.py_int (partial);
             bytes.decode("utf-8") / str.encode("utf-8") / str.encode() -> Utf8.decode / Utf8.encode (partial); len -> length
  ANNOT      parameter / local annotations -> types (bytes, str, Exception, Exception | None, a transport,
             `str | bytes | None` = the model's cbody)
SKIPPED STATEMENTS: docstrings only.  IDIOMS (shape-matched statements): only the try/except of DECODE."""
import ast, sys, os, re
sys.path.insert(0, os.path.dirname(os.path.abspath(__file__)))
from py2coq import Untranslatable, bad, coq_str, find_function, SRC
from py2coq_server import StFn, int_consts

FILE = "client/protocol.py"
CLASSES = [("GeminiClientProtocol", ""), ("TitanClientProtocol", "titan_")]     # (class, prefix of the generated names): same tables, same METHODS
METHODS = ["data_received", "_header_too_long", "_parse_header", "connection_lost", "_set_error", "send_request", "connection_made"]

# ------------------------------------------------------------------ the tables
ATTRS = {   # self.<attr>: (getter, type, setter)
    "self.buffer": ("(cbuf s__)", "bytes", "upd_cbuf"),
    "self.header_received": ("(hdr s__)", "bool", "upd_hdr"),
    "self.status": ("(status s__)", ("opt", "N"), "upd_status"),
    "self.meta": ("(meta s__)", "str", "upd_meta"),
    "self.transport": ("(connected s__)", "transport?", "upd_connected"),
}
ENV_ATTRS = [("self.url", "url", "str"), ("self.titan_url", "titan_url", "str"), ("self.content", "content", "bytes"),
             ("self.send_on_connect", "send_on_connect", "bool"), ("self.decode_body", "decode_body", "bool")]
EXC_LABELS = [   # (constructor, message prefix, model label)
    ("ValueError", "Response header too long", "header_too_long"),
    ("ValueError", "Invalid response header: missing status", "missing_status"),
    ("ValueError", "Invalid status code", "invalid_status"),
    ("ValueError", "Status code out of range", "out_of_range"),
    ("ValueError", "Invalid response header: line break in meta", "bad_meta"),
    ("Exception", "Response body exceeds maximum size", "too_large"),
    ("ConnectionError", "Connection closed before receiving response", "closed_before_header"),
]
ESCAPES = {"UnicodeDecodeError": "header_utf8"}
DECODE_HANDLERS, DECODE_LABEL = {"ValueError", "LookupError"}, "decode"
KW_CTORS = {"GeminiResponse": ([("status", "N"), ("meta", "str"), ("body", "cbody"), ("url", "str")], "(mk_cresp {status} {meta} {body})", "cresp")}
ANNOT = {"bytes": "bytes", "str": "str", "Exception": "exc", "Exception | None": ("opt", "exc"),
         "asyncio.BaseTransport": "transport", "str | bytes | None": "cbody"}
ALWAYS_TRUTHY = {"exc"}

COQ_KEYWORDS = {"end", "as", "at", "cofix", "else", "exists", "exists2", "fix", "for", "forall", "fun", "if", "IF", "in", "let",
                "match", "mod", "return", "then", "using", "where", "with", "Type", "Prop", "Set", "SProp"}
# identifiers the templates emit: a Python local of the same name would capture them
RESERVED = {"cbuf", "hdr", "status", "meta", "cfut", "connected", "upd_cbuf", "upd_hdr", "upd_status", "upd_meta", "upd_cfut",
            "upd_connected", "fut_done", "mk_cresp", "break_sub", "py_find", "contains", "split1", "py_isdigit", "z_to_N", "py_int",
            "prefixb", "suffixb", "split_on", "ustrip", "strip_by", "lower", "all_ascii", "decode", "encode", "length", "nth_error",
            "eqb", "negb", "lit", "Some", "None", "Ok", "Err", "OutOfModel", "Done", "Pending", "ROk", "RErr", "CWrite", "CClose",
            "CEscape", "CNone", "CText", "CBytes", "true", "false", "tt", "N", "Z", "str", "list", "option", "res", "cst", "caction",
            "cbody", "cresp", "decode_with", "url", "titan_url", "content", "send_on_connect", "decode_body", "bool", "nat"}

class NeedsCPS(Exception):
    """an operand that may raise sits where Python evaluates it conditionally"""

def bytes_lit(b):
    return "[" + "; ".join(str(x) for x in b) + "]%N" if len(b) else "(@nil N)"
def str_lit(s):
    return coq_str(s) if s else "(@nil N)"

def coq_type(t):
    if t in ("str", "bytes", "exc"): return "str"
    if t in ("N", "Z", "bool", "cbody", "cresp"): return t
    if isinstance(t, tuple) and t[0] == "list": return "(list %s)" % coq_type(t[1])
    if isinstance(t, tuple) and t[0] == "opt": return "(option %s)" % coq_type(t[1])
    raise Untranslatable("no Coq type for %s" % (t,))

def annot_type(node, what):
    if node is None: raise Untranslatable("missing annotation on %s" % what)
    txt = ast.unparse(node)
    if txt not in ANNOT: raise Untranslatable("annotation %r of %s is not in ANNOT" % (txt, what))
    return ANNOT[txt]

class CFn(StFn):
    def __init__(self, cls_node, node, consts, prefix=""):
        self.cls_node, self.node, self.consts, self.prefix = cls_node, node, consts, prefix
        self.env, self.names = {}, {}
        self.pend, self.counter, self.loop_id = [], 0, 0
        self.used_callees, self.used_env, self.used_consts, self.uses_decode_with = [], [], [], False
        self.mode = None
        self.methods = {n.name: n for n in cls_node.body if isinstance(n, ast.FunctionDef)}
        self.taken = set()

    # ---- names
    def fresh(self, stem="v"):
        self.counter += 1
        return "%s%d__" % (stem, self.counter)
    def bind(self, pyname, ty):
        """(re)bind a Python local: same Coq name every time, so that an assignment shadows the earlier binding.
        self.names is permanent; self.env (the types) says which locals are in scope"""
        if pyname not in self.names:
            c = pyname
            if c.endswith("__"): raise Untranslatable("local name %s is reserved for the translator" % pyname)
            while c in COQ_KEYWORDS or c in RESERVED or c in self.taken: c += "_"
            self.taken.add(c); self.names[pyname] = c
        self.env[pyname] = ty
        return self.names[pyname]

    # ---- escapes and partial operations
    def esc(self, cls):
        label = ESCAPES.get(cls, cls)
        if self.mode == "state": return "(s__, a__ ++ [CEscape (lit \"%s\")])" % label
        if self.mode == "loop": return "(Err (lit \"%s\") (@nil N))" % label
        raise Untranslatable("an operation that can raise %s in a method translated as a total function" % cls)
    def esc_dyn(self, var):
        if self.mode == "state": return "(s__, a__ ++ [CEscape %s])" % var
        if self.mode == "loop": return "(Err %s (@nil N))" % var
        raise Untranslatable("loop that can raise in a method translated as a total function")
    def partial(self, kind, term, cls):
        v = self.fresh()
        self.pend.append((kind, term, v, cls))
        return v
    def with_pending(self, build):
        """build() -> term of a statement (and of what follows it); the partial operations its own expressions
        registered are wrapped around it, first evaluated outermost"""
        mark = len(self.pend)
        term = build()
        mine = self.pend[mark:]
        del self.pend[mark:]
        for kind, t, v, cls in reversed(mine):
            if kind == "opt":
                term = "(match %s with Some %s => %s | None => %s end)" % (t, v, term, self.esc(cls))
            else:
                term = "(match %s with Ok %s => %s | Err _ _ => %s | OutOfModel => %s end)" % (t, v, term, self.esc(cls), self.esc("out_of_model"))
        return term
    def no_pending(self, f, node):
        """evaluate f() in a position that Python evaluates conditionally: it must not register partial operations"""
        mark = len(self.pend)
        r = f()
        if len(self.pend) > mark:
            del self.pend[mark:]
            raise NeedsCPS(ast.unparse(node))
        return r

    # ---- coercions
    def coerce(self, term, t, want, cls, node):
        if t == want: return term
        if isinstance(t, tuple) and t[0] == "opt" and not (isinstance(want, tuple) and want[0] == "opt"):
            v = self.partial("opt", term, cls)
            return self.coerce(v, t[1], want, cls, node)
        if t == "N" and want == "Z":
            m = re.fullmatch(r"(\d+)%N", term)
            return "%s%%Z" % m.group(1) if m else "(Z.of_N %s)" % term
        if t == "Z" and want == "N":
            return self.partial("opt", "(z_to_N %s)" % term, "out_of_model")
        if isinstance(want, tuple) and want[0] == "opt":
            if t == "none": return "None"
            return "(Some %s)" % self.coerce(term, t, want[1], cls, node)
        if want == "cbody":
            if t == "none": return "CNone"
            if t == "str": return "(CText %s)" % term
            if t == "bytes": return "(CBytes %s)" % term
        if want == "transport?":
            if t == "none": return "false"
            if t == "transport": return "true"
        bad(node, "cannot use a value of type %s where %s is needed" % (t, want))

    def truthy(self, term, t, node):
        if t == "bool" or t == "transport?": return term
        if t in ("str", "bytes") or (isinstance(t, tuple) and t[0] == "list"):
            return "(match %s with [] => false | _ => true end)" % term
        if isinstance(t, tuple) and t[0] == "opt" and t[1] in ALWAYS_TRUTHY:
            return "(match %s with Some _ => true | None => false end)" % term
        bad(node, "truthiness of type %s" % (t,))

    # ---- expressions: ev(e) -> (term, type)
    def const_value(self, e):
        """a non-empty bytes / str constant (literal or module constant) as a Python value, or None"""
        if isinstance(e, ast.Constant) and isinstance(e.value, (bytes, str)) and len(e.value): return e.value
        if isinstance(e, ast.Name) and e.id not in self.env and isinstance(self.consts.get(e.id), bytes) and len(self.consts[e.id]): return self.consts[e.id]
        return None

    def ev(self, e):
        if isinstance(e, ast.Constant):
            v = e.value
            if isinstance(v, bool): return ("true" if v else "false"), "bool"
            if isinstance(v, str): return str_lit(v), "str"
            if isinstance(v, bytes): return bytes_lit(v), "bytes"
            if v is None: return "None", "none"
            if isinstance(v, int) and v >= 0: return "%d%%N" % v, "N"
            bad(e, "constant")
        if isinstance(e, ast.UnaryOp) and isinstance(e.op, ast.USub) and isinstance(e.operand, ast.Constant) and isinstance(e.operand.value, int) \
           and not isinstance(e.operand.value, bool):
            return "(-%d)%%Z" % e.operand.value, "Z"
        if isinstance(e, ast.Name):
            if e.id in self.env: return self.names[e.id], self.env[e.id]
            if e.id in self.consts:
                v = self.consts[e.id]
                if isinstance(v, bytes): return bytes_lit(v), "bytes"
                if isinstance(v, int) and v >= 0:
                    if e.id not in self.used_consts: self.used_consts.append(e.id)
                    return "gen_" + e.id, "N"
            bad(e, "unknown name")
        if isinstance(e, ast.Attribute):
            k = self.attr_key(e)
            if k in ATTRS: return ATTRS[k][0], ATTRS[k][1]
            for key, pname, ty in ENV_ATTRS:
                if k == key:
                    if key not in self.used_env: self.used_env.append(key)
                    return pname, ty
            bad(e, "unknown attribute")
        if isinstance(e, ast.JoinedStr):
            parts = []
            for v in e.values:
                if isinstance(v, ast.Constant): parts.append(str_lit(v.value))
                elif isinstance(v, ast.FormattedValue) and v.format_spec is None and v.conversion == -1:
                    t, ty = self.ev(v.value)
                    if ty != "str": bad(e, "f-string part of type %s" % (ty,))
                    parts.append(t)
                else: bad(e, "f-string part")
            return ("(" + " ++ ".join(parts) + ")" if parts else "(@nil N)"), "str"
        if isinstance(e, ast.BinOp):
            l, tl = self.ev(e.left)
            r, tr = self.ev(e.right)
            if isinstance(e.op, ast.Add) and tl == tr and tl in ("str", "bytes"): return "(%s ++ %s)" % (l, r), tl
            if isinstance(e.op, (ast.Add, ast.Sub)):
                tl2, tr2 = (tl[1] if isinstance(tl, tuple) and tl[0] == "opt" else tl), (tr[1] if isinstance(tr, tuple) and tr[0] == "opt" else tr)
                if tl2 in ("N", "Z") and tr2 in ("N", "Z"):
                    if isinstance(e.op, ast.Add) and tl2 == "N" and tr2 == "N":
                        return "(%s + %s)%%N" % (self.coerce(l, tl, "N", "TypeError", e), self.coerce(r, tr, "N", "TypeError", e)), "N"
                    op = "+" if isinstance(e.op, ast.Add) else "-"
                    return "(%s %s %s)%%Z" % (self.coerce(l, tl, "Z", "TypeError", e), op, self.coerce(r, tr, "Z", "TypeError", e)), "Z"
            bad(e, "binary operator")
        if isinstance(e, ast.BoolOp):
            mark = len(self.pend)
            first, t0 = self.ev(e.values[0])
            if t0 in ("str", "bytes"):
                terms = [(first, t0)] + [self.no_pending(lambda v=v: self.ev(v), v) for v in e.values[1:]]
                if any(t != t0 for _, t in terms): bad(e, "and/or of values of different types")
                acc = terms[-1][0]
                for term, _ in reversed(terms[:-1]):
                    tr = self.truthy(term, t0, e)
                    acc = "(if %s then %s else %s)" % ((tr, term, acc) if isinstance(e.op, ast.Or) else (tr, acc, term))
                return acc, t0
            del self.pend[mark:]              # not a value-level and/or: translate it again, as a condition
            return self.cond(e), "bool"
        if isinstance(e, ast.UnaryOp) and isinstance(e.op, ast.Not):
            return self.cond(e), "bool"
        if isinstance(e, ast.IfExp):
            c = self.cond(e.test)
            a, ta = self.no_pending(lambda: self.ev(e.body), e.body)
            b, tb = self.no_pending(lambda: self.ev(e.orelse), e.orelse)
            t = self.join(ta, tb, e)
            a = self.no_pending(lambda: self.coerce(a, ta, t, "TypeError", e), e); b = self.no_pending(lambda: self.coerce(b, tb, t, "TypeError", e), e)
            return "(if %s then %s else %s)" % (c, a, b), t
        if isinstance(e, ast.Subscript):
            base, tb = self.ev(e.value)
            if isinstance(tb, tuple) and tb[0] == "list" and isinstance(e.slice, ast.Constant) and isinstance(e.slice.value, int) \
               and not isinstance(e.slice.value, bool) and e.slice.value >= 0:
                return self.partial("opt", "(nth_error %s %d)" % (base, e.slice.value), "IndexError"), tb[1]
            bad(e, "subscript")
        if isinstance(e, ast.Compare): return self.compare(e), "bool"
        if isinstance(e, ast.Call): return self.call(e)
        bad(e, "expression")

    def join(self, ta, tb, node):
        if ta == tb: return ta
        if {ta, tb} == {"N", "Z"}: return "Z"
        bad(node, "branches of types %s and %s" % (ta, tb))

    def compare(self, e):
        l, tl = self.ev(e.left)
        out = []
        for i, (op, rhs) in enumerate(zip(e.ops, e.comparators)):
            # a < b < c: b is evaluated once (its value, unwrapped / widened by the first comparison, is what the second sees);
            # c and the second comparison are only evaluated if the first holds: they must not be partial
            if i == 0:
                r, tr = self.ev(rhs)
                c, l, tl = self.compare1(op, l, tl, r, tr, e)
            else:
                r, tr = self.no_pending(lambda rhs=rhs: self.ev(rhs), rhs)
                c, l, tl = self.no_pending(lambda: self.compare1(op, l, tl, r, tr, e), e)
            out.append(c)
        return out[0] if len(out) == 1 else "(" + " && ".join(out) + ")"

    def compare1(self, op, l, tl, r, tr, node):
        """-> (condition, right operand as the comparison saw it, its type)"""
        if isinstance(op, (ast.Is, ast.IsNot)):
            if tr != "none" or not (isinstance(tl, tuple) and tl[0] == "opt"): bad(node, "`is` other than <optional> is None")
            x = "(match %s with None => true | Some _ => false end)" % l
            return (x if isinstance(op, ast.Is) else "(negb %s)" % x), r, tr
        if isinstance(op, (ast.In, ast.NotIn)):
            if tl == tr and tl in ("str", "bytes"):
                x = "(contains %s %s)" % (l, r)
                return (x if isinstance(op, ast.In) else "(negb %s)" % x), r, tr
            bad(node, "membership")
        base = lambda t: t[1] if isinstance(t, tuple) and t[0] == "opt" else t
        if base(tl) in ("N", "Z") and base(tr) in ("N", "Z"):
            t = "N" if base(tl) == "N" and base(tr) == "N" else "Z"
            a = self.coerce(l, tl, t, "TypeError", node)
            b = self.coerce(r, tr, t, "TypeError", node)
            if isinstance(op, ast.Eq): x = "(%s.eqb %s %s)" % (t, a, b)
            elif isinstance(op, ast.NotEq): x = "(negb (%s.eqb %s %s))" % (t, a, b)
            elif isinstance(op, ast.Gt): x = "(%s.ltb %s %s)" % (t, b, a)
            elif isinstance(op, ast.Lt): x = "(%s.ltb %s %s)" % (t, a, b)
            elif isinstance(op, ast.GtE): x = "(%s.leb %s %s)" % (t, b, a)
            elif isinstance(op, ast.LtE): x = "(%s.leb %s %s)" % (t, a, b)
            else: bad(node, "comparison operator")
            return x, b, t
        if tl == tr and tl in ("str", "bytes") and isinstance(op, (ast.Eq, ast.NotEq)):
            x = "(eqb %s %s)" % (l, r)
            return (x if isinstance(op, ast.Eq) else "(negb %s)" % x), r, tr
        bad(node, "comparison")

    def cond(self, e):
        """a Python condition as a Coq bool (operands after the first of and/or must not be partial: NeedsCPS)"""
        if isinstance(e, ast.BoolOp):
            op = " && " if isinstance(e.op, ast.And) else " || "
            cs = [self.cond(e.values[0])] + [self.no_pending(lambda v=v: self.cond(v), v) for v in e.values[1:]]
            return "(" + op.join(cs) + ")"
        if isinstance(e, ast.UnaryOp) and isinstance(e.op, ast.Not):
            return "(negb %s)" % self.cond(e.operand)
        t, ty = self.ev(e)
        return self.truthy(t, ty, e)

    def method_sig(self, name, node):
        """(kind, [param types]) of a method of the class, from its annotations"""
        m = self.methods.get(name)
        if m is None: bad(node, "call of an unknown method")
        a = m.args
        if a.vararg or a.kwarg or a.kwonlyargs or a.defaults or a.posonlyargs or not a.args or a.args[0].arg != "self": bad(node, "callee signature")
        ret = ast.unparse(m.returns) if m.returns is not None else "?"
        kind = {"None": "state", "bool": "pure"}.get(ret)
        if kind is None: bad(node, "callee return annotation %s" % ret)
        return kind, [annot_type(p.annotation, "%s.%s" % (name, p.arg)) for p in a.args[1:]]

    def callee(self, name):
        c = name.lstrip("_")
        if name not in self.used_callees: self.used_callees.append(name)
        return c

    def call(self, e):
        f = e.func
        if isinstance(f, ast.Name):
            if f.id in KW_CTORS:
                fields, templ, ty = KW_CTORS[f.id]
                if e.args or [k.arg for k in e.keywords] != [n for n, _ in fields]: bad(e, "constructor call shape")
                vals = {}
                for k, (n, want) in zip(e.keywords, fields):
                    t, tt_ = self.ev(k.value)
                    vals[n] = self.coerce(t, tt_, want, "out_of_model", e)
                return templ.format(**vals), ty
            if e.keywords: bad(e, "keyword arguments")
            if f.id in {c for c, _, _ in EXC_LABELS} and len(e.args) == 1:
                msg = e.args[0]
                if isinstance(msg, ast.Constant) and isinstance(msg.value, str): first = msg.value
                elif isinstance(msg, ast.JoinedStr) and msg.values and isinstance(msg.values[0], ast.Constant):
                    first = msg.values[0].value
                    for v in msg.values:      # the formatted values are evaluated (they may raise); their text is not part of the label
                        if isinstance(v, ast.FormattedValue): self.ev(v.value)
                else: bad(e, "exception message")
                for c, prefix, label in EXC_LABELS:
                    if c == f.id and first.startswith(prefix): return "(lit \"%s\")" % label, "exc"
                bad(e, "exception not in EXC_LABELS")
            if f.id == "len" and len(e.args) == 1:
                t, ty = self.ev(e.args[0])
                if ty in ("str", "bytes") or (isinstance(ty, tuple) and ty[0] == "list"): return "(N.of_nat (length %s))" % t, "N"
                bad(e, "len of %s" % (ty,))
            if f.id == "int" and len(e.args) == 1:
                t, ty = self.ev(e.args[0])
                if ty == "str": return self.partial("res", "(py_int %s)" % t, "ValueError"), "Z"
                bad(e, "int of %s" % (ty,))
            bad(e, "call")
        if not isinstance(f, ast.Attribute) or e.keywords: bad(e, "call")
        # the response future, methods of the class
        base = f
        while isinstance(base, ast.Attribute): base = base.value
        if isinstance(base, ast.Name) and base.id == "self":
            k = self.attr_key(f)
            if k == "self.response_future.done" and not e.args: return "(fut_done s__)", "bool"
            if isinstance(f.value, ast.Name) and not e.args:
                kind, ptypes = self.method_sig(f.attr, e)
                if kind == "pure" and not ptypes: return "(%s s__)" % self.callee(f.attr), "bool"
        # library methods on values
        r, tr = self.ev(f.value)
        args = [self.ev(a) for a in e.args]
        cv = [self.const_value(a) for a in e.args]
        m = f.attr
        if tr in ("str", "bytes"):
            if m == "find" and len(args) == 1 and args[0][1] == tr: return "(py_find %s %s)" % (args[0][0], r), "Z"
            if m == "startswith" and len(args) == 1 and args[0][1] == tr: return "(prefixb %s %s)" % (args[0][0], r), "bool"
            if m == "endswith" and len(args) == 1 and args[0][1] == tr: return "(suffixb %s %s)" % (args[0][0], r), "bool"
            if m == "split" and len(args) == 2 and args[0][1] == tr and cv[0] and isinstance(e.args[1], ast.Constant) and e.args[1].value == 1:
                return "(split1 %s %s)" % (args[0][0], r), ("list", tr)
        if tr == "str":
            if m == "split" and len(args) == 1 and isinstance(cv[0], str) and len(cv[0]) == 1: return "(split_on %d%%N %s)" % (ord(cv[0]), r), ("list", "str")
            if m == "strip" and not args: return "(ustrip %s)" % r, "str"
            if m == "strip" and len(args) == 1 and isinstance(cv[0], str):
                return "(strip_by (fun c__ => %s) %s)" % (" || ".join("(N.eqb c__ %d%%N)" % ord(c) for c in cv[0]), r), "str"
            if m == "lower" and not args: return "(lower %s)" % r, "str"
            if m == "isascii" and not args: return "(all_ascii %s)" % r, "bool"
            if m == "isdigit" and not args: return self.partial("opt", "(py_isdigit %s)" % r, "out_of_model"), "bool"
            if m == "encode" and cv in ([], ["utf-8"]):      # the default encoding of str.encode is utf-8
                return self.partial("opt", "(encode %s)" % r, "UnicodeEncodeError"), "bytes"
        if tr == "bytes":
            if m == "decode" and cv == ["utf-8"]: return self.partial("opt", "(decode %s)" % r, "UnicodeDecodeError"), "str"
        bad(e, "call")

    # ---- statements.  K: continuations {fall, brk, cont}
    def state_only(self, s):
        if self.mode != "state": bad(s, "statement with an effect on the object outside a state-mode method body")

    def assign_local(self, name, term, ty, rest, K, node):
        declared = self.env.get(name)
        if declared == "cbody": term, ty = self.coerce(term, ty, "cbody", "TypeError", node), "cbody"
        elif declared == "Z" and ty == "N": term, ty = self.coerce(term, ty, "Z", "TypeError", node), "Z"
        elif declared is not None and declared != ty: bad(node, "local %s changes type from %s to %s" % (name, declared, ty))
        if ty == "none": bad(node, "local bound to None without a declared type")
        c = self.bind(name, ty)
        return "(let %s := %s in %s)" % (c, term, self.block(rest, K))

    def block(self, stmts, K):
        if not stmts: return K["fall"]
        s, rest = stmts[0], stmts[1:]
        if isinstance(s, ast.Expr) and isinstance(s.value, ast.Constant) and isinstance(s.value.value, str):
            return self.block(rest, K)                                      # docstring
        if isinstance(s, ast.Pass): return self.block(rest, K)
        if isinstance(s, ast.AugAssign):
            load = ast.Name(id=s.target.id, ctx=ast.Load()) if isinstance(s.target, ast.Name) else \
                   ast.Attribute(value=s.target.value, attr=s.target.attr, ctx=ast.Load()) if isinstance(s.target, ast.Attribute) else bad(s, "target")
            s = ast.copy_location(ast.Assign(targets=[s.target], value=ast.BinOp(left=load, op=s.op, right=s.value)), s)
        if isinstance(s, ast.AnnAssign):
            if s.value is None or not isinstance(s.target, ast.Name): bad(s, "annotated assignment")
            ty = annot_type(s.annotation, "local " + s.target.id)
            if s.target.id in self.env and self.env[s.target.id] != ty: bad(s, "re-declaration")
            self.bind(s.target.id, ty)
            s = ast.copy_location(ast.Assign(targets=[s.target], value=s.value), s)
        if isinstance(s, ast.Assign):
            if len(s.targets) != 1: bad(s, "multiple targets")
            t = s.targets[0]
            if isinstance(s.value, ast.IfExp) and isinstance(t, (ast.Name, ast.Attribute)):
                mk = lambda v: ast.copy_location(ast.Assign(targets=[t], value=v), s)
                return self.block([ast.copy_location(ast.If(test=s.value.test, body=[mk(s.value.body)], orelse=[mk(s.value.orelse)]), s)] + rest, K)
            if isinstance(t, ast.Name):
                def build():
                    term, ty = self.ev(s.value)
                    return self.assign_local(t.id, term, ty, rest, K, s)
                return self.with_pending(build)
            if isinstance(t, ast.Attribute):
                self.state_only(s)
                key = self.attr_key(t)
                if key not in ATTRS: bad(s, "assignment to an attribute outside ATTRS")
                def build():
                    term, ty = self.ev(s.value)
                    v = self.coerce(term, ty, ATTRS[key][1], "out_of_model", s)
                    return "(let s__ := %s s__ %s in %s)" % (ATTRS[key][2], v, self.block(rest, K))
                return self.with_pending(build)
            if isinstance(t, ast.Tuple) and len(t.elts) == 2 and all(isinstance(x, ast.Name) for x in t.elts) and isinstance(s.value, ast.Call) \
               and isinstance(s.value.func, ast.Attribute) and s.value.func.attr == "split" and len(s.value.args) == 2 and not s.value.keywords \
               and self.const_value(s.value.args[0]) and isinstance(s.value.args[1], ast.Constant) and s.value.args[1].value == 1:
                def build():
                    r, tr = self.ev(s.value.func.value)
                    sep, ts = self.ev(s.value.args[0])
                    if tr not in ("str", "bytes") or ts != tr: bad(s, "split of %s by %s" % (tr, ts))
                    for x in t.elts:
                        if x.id in self.env and self.env[x.id] != tr: bad(s, "local %s changes type" % x.id)
                    n1, n2 = self.bind(t.elts[0].id, tr), self.bind(t.elts[1].id, tr)
                    if n1 == n2: bad(s, "same name twice")
                    return "(match break_sub %s %s with Some (%s, %s) => %s | None => %s end)" % (sep, r, n1, n2, self.block(rest, K), self.esc("ValueError"))
                return self.with_pending(build)
            bad(s, "assignment target")
        if isinstance(s, ast.Return):
            if self.mode == "state" and s.value is None: return "(s__, a__)"
            if self.mode == "pure" and s.value is not None:
                term, ty = self.ev(s.value)
                if self.pend: bad(s, "partial operation in a method translated as a total function")
                if ty != "bool": bad(s, "return type")
                return term
            bad(s, "return")
        if isinstance(s, ast.Break):
            if K.get("brk") is None: bad(s, "break outside a loop")
            return K["brk"]
        if isinstance(s, ast.Continue):
            if K.get("cont") is None: bad(s, "continue outside a loop")
            return K["cont"]
        if isinstance(s, ast.Expr) and isinstance(s.value, ast.Call): return self.call_stmt(s, s.value, rest, K)
        if isinstance(s, ast.If): return self.if_stmt(s, rest, K)
        if isinstance(s, ast.For): return self.for_stmt(s, rest, K)
        if isinstance(s, ast.Try): return self.try_stmt(s, rest, K)
        bad(s, "statement")

    def call_stmt(self, s, v, rest, K):
        f = v.func
        if not isinstance(f, ast.Attribute) or v.keywords: bad(s, "expression statement")
        key = self.attr_key(f) if isinstance(f.value, (ast.Name, ast.Attribute)) else ""
        self.state_only(s)
        if key in ("self.transport.write", "self.transport.close"):
            if key.endswith("write"):
                if len(v.args) != 1: bad(s, "write arguments")
                def build():
                    t, ty = self.ev(v.args[0])
                    return "(let a__ := a__ ++ [CWrite %s] in %s)" % (self.coerce(t, ty, "bytes", "TypeError", s), self.block(rest, K))
                inner = self.with_pending(build)
            else:
                if v.args: bad(s, "close arguments")
                inner = "(let a__ := a__ ++ [CClose] in %s)" % self.block(rest, K)
            return "(if (connected s__) then %s else %s)" % (inner, self.esc("AttributeError"))
        if key in ("self.response_future.set_exception", "self.response_future.set_result"):
            if len(v.args) != 1: bad(s, "future arguments")
            want, ctor = ("exc", "RErr") if key.endswith("set_exception") else ("cresp", "ROk")
            def build():
                t, ty = self.ev(v.args[0])
                val = self.coerce(t, ty, want, "TypeError", s)
                return "(if (fut_done s__) then %s else (let s__ := upd_cfut s__ (Done (%s %s)) in %s))" % (self.esc("InvalidStateError"), ctor, val, self.block(rest, K))
            return self.with_pending(build)
        if isinstance(f.value, ast.Name) and f.value.id == "self":
            kind, ptypes = self.method_sig(f.attr, s)
            if kind != "state" or len(ptypes) != len(v.args): bad(s, "method call")
            def build():
                args = []
                for a, want in zip(v.args, ptypes):
                    t, ty = self.ev(a)
                    args.append(self.coerce(t, ty, want, "TypeError", s))
                return "(let '(s__, b__) := %s s__%s in let a__ := a__ ++ b__ in %s)" % (self.callee(f.attr), "".join(" " + a for a in args), self.block(rest, K))
            return self.with_pending(build)
        bad(s, "expression statement")

    def branch(self, stmts, K):
        """a branch of an if: its new locals do not outlive it, and it must not change the type of an outer local"""
        env0 = dict(self.env)
        term = self.block(stmts, K)
        for n, t in env0.items():
            if self.env.get(n) != t: raise Untranslatable("local %s changes type inside a branch" % n)
        self.env = env0
        return term

    def if_stmt(self, s, rest, K):
        after = self.branch(rest, K)           # pasted at the end of both branches; locals it introduces are not in scope in them
        K2 = dict(K, fall=after)
        # `if x:` on an optional exception: the branch sees the exception itself
        if isinstance(s.test, ast.Name) and isinstance(self.env.get(s.test.id), tuple) and self.env[s.test.id][0] == "opt" \
           and self.env[s.test.id][1] in ALWAYS_TRUTHY:
            n = s.test.id
            outer, t_outer = self.names[n], self.env[n]
            inner = self.fresh(n + "_")
            env0 = dict(self.env)
            self.names[n], self.env[n] = inner, t_outer[1]
            T = self.block(s.body, K2)
            self.names[n], self.env = outer, env0
            F = self.branch(s.orelse, K2)
            return "(match %s with Some %s => %s | None => %s end)" % (outer, inner, T, F)
        T = self.branch(s.body, K2)
        F = self.branch(s.orelse, K2)
        mark = len(self.pend)
        try:
            return self.with_pending(lambda: "(if %s then %s else %s)" % (self.cond(s.test), T, F))
        except NeedsCPS:
            del self.pend[mark:]
            return self.cond_k(s.test, T, F)

    def cond_k(self, e, T, F):
        """if e then T else F, evaluating each operand of and/or/not exactly where Python does"""
        if isinstance(e, ast.BoolOp):
            if len(e.values) == 1: return self.cond_k(e.values[0], T, F)
            tail = ast.BoolOp(op=e.op, values=e.values[1:])
            if isinstance(e.op, ast.And): return self.cond_k(e.values[0], self.cond_k(tail, T, F), F)
            return self.cond_k(e.values[0], T, self.cond_k(tail, T, F))
        if isinstance(e, ast.UnaryOp) and isinstance(e.op, ast.Not):
            return self.cond_k(e.operand, F, T)
        try:
            return self.with_pending(lambda: "(if %s then %s else %s)" % (self.cond(e), T, F))
        except NeedsCPS as x:
            raise Untranslatable("conditionally evaluated partial operation: %s" % x)

    def for_stmt(self, s, rest, K):
        if s.orelse or not isinstance(s.target, ast.Name) or s.target.id in self.env: bad(s, "for form")
        def build():
            it, tit = self.ev(s.iter)
            if not (isinstance(tit, tuple) and tit[0] == "list"): bad(s, "iteration over %s" % (tit,))
            assigned = []
            for n in ast.walk(s):
                tg = n.targets if isinstance(n, ast.Assign) else [n.target] if isinstance(n, (ast.AugAssign, ast.AnnAssign, ast.For)) else []
                for t in tg:
                    for x in ([t] if isinstance(t, ast.Name) else t.elts if isinstance(t, ast.Tuple) else []):
                        if isinstance(x, ast.Name) and x.id not in assigned: assigned.append(x.id)
            accs = [n for n in assigned if n in self.env]
            env0, mode0 = dict(self.env), self.mode
            self.loop_id += 1
            lid = "loop%d__" % self.loop_id
            acc_names = [self.names[n] for n in accs]
            acc_val = "tt" if not accs else acc_names[0] if len(accs) == 1 else "(" + ", ".join(acc_names) + ")"
            acc_ty = "unit" if not accs else " * ".join(coq_type(self.env[n]) for n in accs)
            rec = "(%s l'__%s)" % (lid, "".join(" " + a for a in acc_names))
            self.mode = "loop"
            tgt = self.bind(s.target.id, tit[1])
            body = self.block(s.body, dict(fall=rec, cont=rec, brk="(Ok %s)" % acc_val))
            for n in accs:
                if self.env.get(n) != env0[n]: bad(s, "loop changes the type of %s" % n)
            self.env, self.mode = env0, mode0
            binders = "".join(" (%s : %s)" % (self.names[n], coq_type(self.env[n])) for n in accs)
            fix = "((fix %s (l__ : list %s)%s {struct l__} : res (%s) := match l__ with [] => Ok %s | %s :: l'__ => %s end) %s%s)" % (
                lid, coq_type(tit[1]), binders, acc_ty, acc_val, tgt, body, it, "".join(" " + a for a in acc_names))
            pat = "_" if not accs else acc_val
            return "(match %s with Ok %s => %s | Err k__ _ => %s | OutOfModel => %s end)" % (fix, pat, self.block(rest, K), self.esc_dyn("k__"), self.esc("out_of_model"))
        return self.with_pending(build)

    def try_stmt(self, s, rest, K):
        """try: v = <bytes>.decode(<label>)  except (ValueError, LookupError) as e: <handler>"""
        ok = len(s.body) == 1 and len(s.handlers) == 1 and not s.orelse and not s.finalbody and isinstance(s.body[0], ast.Assign) \
             and len(s.body[0].targets) == 1 and isinstance(s.body[0].targets[0], ast.Name)
        if ok:
            a, h = s.body[0], s.handlers[0]
            c = a.value
            ok = isinstance(c, ast.Call) and isinstance(c.func, ast.Attribute) and c.func.attr == "decode" and len(c.args) == 1 and not c.keywords \
                 and isinstance(h.type, ast.Tuple) and all(isinstance(x, ast.Name) for x in h.type.elts) \
                 and {x.id for x in h.type.elts} == DECODE_HANDLERS and h.name
        if not ok: bad(s, "try form")
        self.state_only(s)
        def build():
            r, tr = self.ev(c.func.value)
            lab, tl = self.ev(c.args[0])
            if tr != "bytes" or tl != "str": bad(s, "decode of %s with %s" % (tr, tl))
            self.uses_decode_with = True
            tv = self.fresh("t")
            env0 = dict(self.env)
            okb = self.assign_local(a.targets[0].id, tv, "str", rest, K, s)
            self.env = dict(env0)
            if h.name in self.env: bad(s, "handler name shadows a local")
            after = self.branch(rest, K)
            ename = self.bind(h.name, "exc")
            hb = self.block(h.body, dict(K, fall=after))
            self.env = env0
            return "(match decode_with %s %s with Some %s => %s | None => (let %s := (lit \"%s\") in %s) end)" % (lab, r, tv, okb, ename, DECODE_LABEL, hb)
        return self.with_pending(build)

    # ---- a whole method
    def translate(self):
        fn = self.node
        a = fn.args
        if a.vararg or a.kwarg or a.kwonlyargs or a.defaults or a.posonlyargs or fn.decorator_list or not a.args or a.args[0].arg != "self":
            raise Untranslatable("signature of %s" % fn.name)
        kind, ptypes = self.method_sig(fn.name, fn)
        self.mode = kind
        params = []
        for p, ty in zip(a.args[1:], ptypes):
            c = self.bind(p.arg, ty)
            if ty != "transport": params.append("(%s : %s)" % (c, coq_type(ty)))      # a transport carries no data in the model
        if kind == "pure" and params: raise Untranslatable("parameters of a total method")
        body = self.block(fn.body, dict(fall="(s__, a__)" if kind == "state" else "FALLTHROUGH__"))
        if "FALLTHROUGH__" in body: raise Untranslatable("%s: control can fall off the end" % fn.name)
        if self.pend: raise Untranslatable("internal: unplaced partial operations")
        name = "gen_" + self.prefix + fn.name.lstrip("_")
        if kind == "pure":
            if self.used_callees or self.used_env or self.uses_decode_with: raise Untranslatable("%s: total method with an environment" % fn.name)
            return "Definition %s (s__ : cst) : bool :=\n  %s.\n" % (name, body)
        pre = []
        for m in self.methods:                                     # callees, in the order of the class body
            if m in self.used_callees:
                k2, pt = self.method_sig(m, fn)
                ty = " -> ".join(["cst"] + [coq_type(t) for t in pt] + ["bool" if k2 == "pure" else "cst * list caction"])
                pre.append("(%s : %s)" % (m.lstrip("_"), ty))
        if self.uses_decode_with: pre.append("(decode_with : str -> str -> option str)")
        for key, pname, ty in ENV_ATTRS:
            if key in self.used_env: pre.append("(%s : %s)" % (pname, coq_type(ty)))
        return "Definition %s %s (s__ : cst) %s : cst * list caction :=\n  let a__ : list caction := [] in\n  %s.\n" % (name, " ".join(pre), " ".join(params), body)

HEADER = """(* GENERATED by /verif/translate/py2coq_client.py from /repo/src/nauyaca/client/protocol.py - do not edit *)
From Coq Require Import List NArith ZArith Bool.
From NV Require Import Prelude.Str Prelude.Res Prelude.Utf8 Model.Titan Model.ClientProto Equiv.ClientGlue.
Import ListNotations.
Open Scope list_scope.

"""

def main(out_path):
    consts = int_consts("protocol/constants.py")
    tree = ast.parse(open(os.path.join(SRC, FILE)).read())
    imported = set()
    for n in tree.body:      # only the constants the module really imports from protocol.constants, then its own
        if isinstance(n, ast.ImportFrom) and n.module == "protocol.constants" and n.level == 2:
            imported |= {a.name for a in n.names if a.asname is None}
    consts = {k: v for k, v in consts.items() if k in imported}
    consts.update(int_consts(FILE))
    defs, used = [], []
    for CLS, prefix in CLASSES:
        cls = next((n for n in tree.body if isinstance(n, ast.ClassDef) and n.name == CLS), None)
        if cls is None: raise Untranslatable("class %s not found" % CLS)
        for m in METHODS:
            fn = find_function(tree, CLS, m)
            try:
                t = CFn(cls, fn, consts, prefix)
                defs.append(t.translate())
                used += [c for c in t.used_consts if c not in used]
            except NeedsCPS as e:
                raise Untranslatable("%s:%s.%s: conditionally evaluated partial operation: %s" % (FILE, CLS, m, e))
            except Untranslatable as e:
                raise Untranslatable("%s:%s.%s: %s" % (FILE, CLS, m, e))
    chunks = [HEADER]
    for c in sorted(used):
        chunks.append("Definition gen_%s : N := %d%%N.\n" % (c, consts[c]))
    chunks.append("\n")
    for d in defs: chunks += [d, "\n"]
    open(out_path, "w").write("".join(chunks))
    print("py2coq_client: %d methods translated" % (len(METHODS) * len(CLASSES)))

if __name__ == "__main__":
    try:
        main(sys.argv[1] if len(sys.argv) > 1 else os.path.join(os.path.dirname(os.path.dirname(os.path.abspath(__file__))), "coq", "Gen", "ClientGen.v"))
    except Untranslatable as e:
        print("UNTRANSLATABLE:", e); sys.exit(2)
