#!/usr/bin/env python3
"""py2coq_gemtext: translator for content/gemtext.py -> coq/Gen/GemtextGen.v

Translated:

    _format_file_size(size_bytes)                     gen_format_file_size (v_size_bytes : N) : res str
    generate_directory_listing(directory, base_path)  gen_generate_directory_listing (L : gemlib) (w__ : fs)
                                                          (v_directory : path) (v_base_path : str) : res str

(the call site, StaticFileHandler.handle - which path and which string are passed, the try/except around the call -
is translated by py2coq_static.py: `l_listing L w__ <directory> <base>`; Equiv/EquivGemtext.v connects the two.)

The functions are compiled from the AST by general rules; anything that is not covered by a rule raises
Untranslatable (exit status 2).  Python exceptions are values of Prelude.Res (`Err class message`); `w__` is the
filesystem; every Python identifier x is emitted as v_x.

RULES
  expressions are evaluated in Python's order in continuation-passing style: a call of the LIB table or of a
      translated function is bound first, `match <call> with Ok t => .. | Err k m => Err k m | OutOfModel => ..`
  and / or / conditional expressions: operands without such calls only (one boolean); `not`
  x = E, x += E (str), x /= C (number, C a power of two), xs.append(E)   -> let v_x := .. in ..   (a variable keeps its type)
  if T: A [else: B]   -> when a branch ends in return / raise: `if`, the code after the statement goes to the other
      branch; when neither does and both are free of LIB calls: a join  let v := (if T then A; v else B; v) in ..  over the
      variables that exist before the statement and that A / B assign (a variable first assigned inside is not defined
      afterwards: a later use is refused); otherwise the code after the statement is translated once per branch
  for x in xs: B      -> local fix over the list; the variables B re-assigns are its accumulators; B may return /
      raise; no break / continue / else
  return E, raise C(E)
  sorted(xs, key=lambda p: K)   -> sorted_by_key <order of K's type> (fun v_p => <K, monadic>) xs   (GemtextGlue:
      keys first, in order; stable).  Orders: bool (False < True), str (by code point), int, tuples lexicographic.
  f-strings -> concatenation; {s} s a str; {p} p a path -> path_str; {n} n an int -> dec; {x:.0f} {x:.1f} x a number -> fmt_f0 / fmt_f1
  docstrings -> skipped;  a default value of a parameter must be a constant (the generated function takes every
      parameter explicitly)

TRUSTED TABLES (every entry is an assumption about a library)
 LIB: world-dependent pathlib calls -> fields of GemtextGlue.gemlib, the first argument of the generated function
      (the tie theorem instantiates it with GemtextGlue.model_gemlib, the reading over Model/Fs.v):
   Q.is_dir()          gl_is_dir L w__ Q       res bool          (stat through links = Fs.follow)
   Q.iterdir()         gl_iterdir L w__ Q      res (list path)   (the direct entries, Q / name = Fs.children)
   Q.stat().st_size    gl_st_size L w__ Q      res N             (length of the content Fs.follow finds)
 PURE: PurePath / str / number operations -> definitions of Model/Listing.v, Model/Static.v, Prelude/Str.v, GemtextGlue.v:
   Q.name -> path_name;  Path(s) -> pp_parse;  P.parent -> pp_parent;  str(P) -> pp_str   (PurePosixPath on strings)
   s.endswith(t) / s.startswith(t) -> suffixb / prefixb;  t.join(xs) -> join_with;  s + t -> ++;  == != on str -> eqb
   numbers (`num`: an int, or the float it has become): a < b (and <= > >=) -> num_ltb (exact);  x /= 2.0**k ->
   num_div_pow2 x k;  {x:.0f} -> fmt_f0;  {x:.1f} -> fmt_f1;  an int or integral float literal -> NInt
   `Path` must be pathlib.Path (the module's import is checked)
 The float arithmetic itself is NOT translated: see coq/Equiv/GemtextGlue.v section 1."""
import ast, sys, os, math
sys.path.insert(0, os.path.dirname(os.path.abspath(__file__)))
from py2coq import Untranslatable, bad, coq_str, SRC

FILE = "content/gemtext.py"

FUNCS = [
    dict(func="_format_file_size", name="gen_format_file_size", params=[("num", "N")], ret="str", world=False),
    dict(func="generate_directory_listing", name="gen_generate_directory_listing", params=[("path", "path"), ("str", "str")], ret="str", world=True),
]

class NotPure(Exception):
    pass

def ctype(t):
    if isinstance(t, str):
        return {"str": "Str.str", "bool": "bool", "N": "N", "num": "GemtextGlue.num", "path": "Fs.path",
                "ppath": "(Str.str * list Str.str)%type"}[t]
    if t[0] == "list": return "(list %s)" % ctype(t[1])
    if t[0] == "tuple": return "(%s)%%type" % " * ".join(ctype(x) for x in t[1:])
    raise Untranslatable("type %s" % (t,))

def leb_of(t):
    if t == "bool": return "bool_leb"
    if t == "str": return "str_leb"
    if t == "N": return "N.leb"
    if isinstance(t, tuple) and t[0] == "tuple" and len(t) == 3: return "(pair_leb %s %s)" % (leb_of(t[1]), leb_of(t[2]))
    raise Untranslatable("no order for keys of type %s" % (t,))

RES_TAIL = " | Err k__ m__ => (Err k__ m__) | OutOfModel => OutOfModel end)"

class GFn:
    def __init__(self, spec, node, callees):
        self.spec, self.node, self.callees = spec, node, callees
        self.env = {}
        self.n = 0
        self.pure_only = 0
        self.in_loop = 0

    def fresh(self, p):
        self.n += 1
        return "%s__%d" % (p, self.n)
    def vname(self, n): return "v_" + n

    # ---------------------------------------------------------------- effects
    def effect(self, node, call, ty, k):
        if self.pure_only: raise NotPure()
        t = self.fresh("t")
        return "(match %s with Ok %s => %s%s" % (call, t, k(t, ty), RES_TAIL)

    def lib(self, node):
        if not self.spec["world"]: bad(node, "library call in a function without a filesystem")

    def is_pure(self, e):
        saved = (self.n, dict(self.env))
        self.pure_only += 1
        try:
            self.ev(e, lambda t, ty: t)
            return True
        except NotPure:
            return False
        finally:
            self.pure_only -= 1
            self.n, self.env = saved

    # ---------------------------------------------------------------- expressions (CPS: k(term, type))
    def as_num(self, t, ty, node):
        if ty == "num": return t
        if ty == "N": return "(NInt %s)" % t
        bad(node, "a %s where a number is expected" % (ty,))

    def ev_list(self, es, k):
        def go(i, acc):
            if i == len(es): return k(acc)
            return self.ev(es[i], lambda t, ty: go(i + 1, acc + [(t, ty)]))
        return go(0, [])

    def ev(self, e, k):
        if isinstance(e, ast.Constant):
            v = e.value
            if isinstance(v, bool): return k("true" if v else "false", "bool")
            if isinstance(v, int): return k("%d%%N" % v, "N") if v >= 0 else bad(e, "negative constant")
            if isinstance(v, float):
                if not (math.isfinite(v) and v >= 0 and v == int(v)): bad(e, "float constant that is not a non-negative integer")
                return k("(NInt %d%%N)" % int(v), "num")
            if isinstance(v, str): return k(coq_str(v), "str")
            bad(e, "constant")
        if isinstance(e, ast.Name):
            if e.id not in self.env: bad(e, "unknown variable")
            return k(self.vname(e.id), self.env[e.id])
        if isinstance(e, ast.JoinedStr):
            def parts(i, acc):
                if i == len(e.values):
                    return k("(" + " ++ ".join(acc) + ")" if acc else "[]", "str")
                v = e.values[i]
                if isinstance(v, ast.Constant) and isinstance(v.value, str):
                    return parts(i + 1, acc + [coq_str(v.value)])
                if not isinstance(v, ast.FormattedValue) or v.conversion != -1: bad(e, "f-string part")
                spec = None
                if v.format_spec is not None:
                    fs = v.format_spec
                    if not (isinstance(fs, ast.JoinedStr) and len(fs.values) == 1 and isinstance(fs.values[0], ast.Constant)): bad(e, "format specification")
                    spec = fs.values[0].value
                def one(t, ty):
                    if spec is None:
                        if ty == "str": return parts(i + 1, acc + [t])
                        if ty == "path": return parts(i + 1, acc + ["(path_str %s)" % t])
                        if ty == "N": return parts(i + 1, acc + ["(dec %s)" % t])
                        bad(e, "f-string value of type %s" % (ty,))
                    if spec in (".0f", ".1f") and ty in ("num", "N"):
                        return parts(i + 1, acc + ["(fmt_f%s %s)" % (spec[1], self.as_num(t, ty, e))])
                    bad(e, "format specification %r on type %s" % (spec, ty))
                return self.ev(v.value, one)
            return parts(0, [])
        if isinstance(e, ast.BinOp):
            if isinstance(e.op, ast.Add):
                def add(ps):
                    (a, ta), (b, tb) = ps
                    if ta == "str" and tb == "str": return k("(%s ++ %s)" % (a, b), "str")
                    bad(e, "operator + on %s, %s" % (ta, tb))
                return self.ev_list([e.left, e.right], add)
            bad(e, "operator")
        if isinstance(e, ast.UnaryOp) and isinstance(e.op, ast.Not):
            return self.ev(e.operand, lambda t, ty: k("(negb %s)" % self.truth(t, ty, e), "bool"))
        if isinstance(e, ast.BoolOp):
            for v in e.values:
                if not self.is_pure(v): bad(e, "and / or over a library call")
            def bo(ps):
                op = " && " if isinstance(e.op, ast.And) else " || "
                return k("(" + op.join(self.truth(t, ty, e) for t, ty in ps) + ")", "bool")
            return self.ev_list(e.values, bo)
        if isinstance(e, ast.IfExp):
            for v in (e.test, e.body, e.orelse):
                if not self.is_pure(v): bad(e, "conditional expression over a library call")
            def ie(ps):
                (c, tc), (a, ta), (b, tb) = ps
                if ta != tb: bad(e, "conditional expression with branches of different types")
                return k("(if %s then %s else %s)" % (self.truth(c, tc, e), a, b), ta)
            return self.ev_list([e.test, e.body, e.orelse], ie)
        if isinstance(e, ast.Compare):
            if len(e.ops) != 1: bad(e, "chained comparison")
            op = e.ops[0]
            def cmp(ps):
                (a, ta), (b, tb) = ps
                if isinstance(op, (ast.Eq, ast.NotEq)):
                    if ta == "str" and tb == "str": x = "(eqb %s %s)" % (a, b)
                    elif ta == "N" and tb == "N": x = "(N.eqb %s %s)" % (a, b)
                    elif ta == "bool" and tb == "bool": x = "(Bool.eqb %s %s)" % (a, b)
                    else: bad(e, "== on %s, %s" % (ta, tb))
                    return k(x if isinstance(op, ast.Eq) else "(negb %s)" % x, "bool")
                if isinstance(op, (ast.Lt, ast.LtE, ast.Gt, ast.GtE)) and ta in ("num", "N") and tb in ("num", "N"):
                    a, b = self.as_num(a, ta, e), self.as_num(b, tb, e)
                    x = {ast.Lt: "(num_ltb %s %s)" % (a, b), ast.Gt: "(num_ltb %s %s)" % (b, a),
                         ast.LtE: "(negb (num_ltb %s %s))" % (b, a), ast.GtE: "(negb (num_ltb %s %s))" % (a, b)}[type(op)]
                    return k(x, "bool")
                bad(e, "comparison")
            return self.ev_list([e.left, e.comparators[0]], cmp)
        if isinstance(e, ast.List):
            def lst(ps):
                tys = set(ty for _, ty in ps)
                if len(tys) != 1: bad(e, "list display (empty or of mixed types)")
                return k("[" + "; ".join(t for t, _ in ps) + "]", ("list", ps[0][1]))
            return self.ev_list(e.elts, lst)
        if isinstance(e, ast.Tuple):
            def tup(ps):
                if len(ps) != 2: bad(e, "tuple that is not a pair")
                return k("(%s, %s)" % (ps[0][0], ps[1][0]), ("tuple", ps[0][1], ps[1][1]))
            return self.ev_list(e.elts, tup)
        if isinstance(e, ast.Attribute):
            # Q.stat().st_size
            v = e.value
            if e.attr == "st_size" and isinstance(v, ast.Call) and isinstance(v.func, ast.Attribute) and v.func.attr == "stat" and not v.args and not v.keywords:
                def st(t, ty):
                    if ty != "path": bad(e, "stat() of a %s" % (ty,))
                    self.lib(e)
                    return self.effect(e, "(gl_st_size L w__ %s)" % t, "N", k)
                return self.ev(v.func.value, st)
            def attr(t, ty):
                if ty == "path" and e.attr == "name": return k("(path_name %s)" % t, "str")
                if ty == "ppath" and e.attr == "parent": return k("(pp_parent %s)" % t, "ppath")
                bad(e, "attribute outside the PURE table")
            return self.ev(v, attr)
        if isinstance(e, ast.Call):
            return self.call(e, k)
        bad(e, "expression")

    def truth(self, t, ty, node):
        if ty == "bool": return t
        if ty == "str" or (isinstance(ty, tuple) and ty[0] == "list"):
            return "(match %s with [] => false | _ :: _ => true end)" % t
        bad(node, "truthiness of type %s" % (ty,))

    def call(self, e, k):
        f = e.func
        if isinstance(f, ast.Name):
            if f.id in self.callees:
                c = self.callees[f.id]
                if e.keywords or len(e.args) != len(c["params"]): bad(e, "call shape of a translated function")
                def cal(ps):
                    for (t, ty), (_, want) in zip(ps, c["params"]):
                        if ty != want: bad(e, "argument type %s, expected %s" % (ty, want))
                    if c["world"]: self.lib(e)
                    head = c["name"] + (" L w__" if c["world"] else "")
                    return self.effect(e, "(%s%s)" % (head, "".join(" " + t for t, _ in ps)), c["ret"], k)
                return self.ev_list(e.args, cal)
            if f.id == "str" and len(e.args) == 1 and not e.keywords:
                def s(t, ty):
                    if ty == "str": return k(t, "str")
                    if ty == "ppath": return k("(pp_str %s)" % t, "str")
                    if ty == "path": return k("(path_str %s)" % t, "str")
                    bad(e, "str() of a %s" % (ty,))
                return self.ev(e.args[0], s)
            if f.id == "Path" and len(e.args) == 1 and not e.keywords:
                def p(t, ty):
                    if ty != "str": bad(e, "Path() of a %s" % (ty,))
                    return k("(pp_parse %s)" % t, "ppath")
                return self.ev(e.args[0], p)
            if f.id == "sorted" and len(e.args) == 1 and len(e.keywords) == 1 and e.keywords[0].arg == "key":
                lam = e.keywords[0].value
                if not (isinstance(lam, ast.Lambda) and len(lam.args.args) == 1 and not lam.args.defaults and not lam.args.vararg
                        and not lam.args.kwarg and not lam.args.kwonlyargs and not lam.args.posonlyargs): bad(e, "sort key")
                def srt(t, ty):
                    if not (isinstance(ty, tuple) and ty[0] == "list"): bad(e, "sorted() of a %s" % (ty,))
                    if self.pure_only: raise NotPure()
                    var = lam.args.args[0].arg
                    if var in self.env: bad(e, "lambda parameter shadows a variable")
                    saved = dict(self.env)
                    self.env[var] = ty[1]
                    kt = []
                    def fin(kt_t, kt_ty):
                        kt.append(kt_ty)
                        return "(Ok %s)" % kt_t
                    body = self.ev(lam.body, fin)
                    self.env = saved
                    keyf = "(fun %s : %s => %s)" % (self.vname(var), ctype(ty[1]), body)
                    return self.effect(e, "(sorted_by_key %s %s %s)" % (leb_of(kt[0]), keyf, t), ty, k)
                return self.ev(e.args[0], srt)
            bad(e, "call of a function outside the tables")
        if isinstance(f, ast.Attribute) and not e.keywords:
            m = f.attr
            if m == "join" and len(e.args) == 1:
                def jn(ps):
                    (s, ts), (l, tl) = ps
                    if ts != "str" or tl != ("list", "str"): bad(e, "join on %s, %s" % (ts, tl))
                    return k("(join_with %s %s)" % (s, l), "str")
                return self.ev_list([f.value, e.args[0]], jn)
            if m in ("endswith", "startswith") and len(e.args) == 1:
                def ew(ps):
                    (s, ts), (x, tx) = ps
                    if ts != "str" or tx != "str": bad(e, "%s on %s, %s" % (m, ts, tx))
                    return k("(%s %s %s)" % ("suffixb" if m == "endswith" else "prefixb", x, s), "bool")
                return self.ev_list([f.value, e.args[0]], ew)
            if m in ("is_dir", "iterdir") and not e.args:
                def lb(t, ty):
                    if ty != "path": bad(e, "%s() of a %s" % (m, ty))
                    self.lib(e)
                    return self.effect(e, "(gl_%s L w__ %s)" % (m, t), "bool" if m == "is_dir" else ("list", "path"), k)
                return self.ev(f.value, lb)
        bad(e, "call outside the LIB / PURE tables")

    # ---------------------------------------------------------------- statements
    @staticmethod
    def terminates(stmts):
        if not stmts: return False
        s = stmts[-1]
        if isinstance(s, (ast.Return, ast.Raise)): return True
        if isinstance(s, ast.If): return GFn.terminates(s.body) and GFn.terminates(s.orelse)
        return False
    @staticmethod
    def may_exit(stmts):
        return any(isinstance(n, (ast.Return, ast.Raise)) for s in stmts for n in ast.walk(s))
    @staticmethod
    def assigned(stmts):
        out = set()
        for s in stmts:
            for n in ast.walk(s):
                if isinstance(n, ast.Name) and isinstance(n.ctx, ast.Store): out.add(n.id)
                if isinstance(n, ast.Call) and isinstance(n.func, ast.Attribute) and n.func.attr == "append" and isinstance(n.func.value, ast.Name):
                    out.add(n.func.value.id)
        return out

    def fork(self, thunk):
        env = dict(self.env)
        try: return thunk()
        finally: self.env = env

    def assign(self, name, t, ty, rest, node):
        if name in self.env and self.env[name] != ty: bad(node, "variable %s changes its type (%s -> %s)" % (name, self.env[name], ty))
        self.env[name] = ty
        return "(let %s := %s in %s)" % (self.vname(name), t, rest())

    def block(self, stmts, k):
        if not stmts: return k()
        s, rest = stmts[0], stmts[1:]
        nxt = lambda: self.block(rest, k)
        if isinstance(s, ast.Pass): return nxt()
        if isinstance(s, ast.Expr):
            v = s.value
            if isinstance(v, ast.Constant) and isinstance(v.value, str): return nxt()
            if isinstance(v, ast.Call) and isinstance(v.func, ast.Attribute) and v.func.attr == "append" and isinstance(v.func.value, ast.Name) \
               and len(v.args) == 1 and not v.keywords:
                name = v.func.value.id
                lt = self.env.get(name)
                if not (isinstance(lt, tuple) and lt[0] == "list"): bad(s, "append to something that is not a list variable")
                def app(t, ty):
                    if ty != lt[1]: bad(s, "append of a %s to a list of %s" % (ty, lt[1]))
                    return self.assign(name, "(%s ++ [%s])" % (self.vname(name), t), lt, nxt, s)
                return self.ev(v.args[0], app)
            bad(s, "expression statement")
        if isinstance(s, ast.Assign):
            if len(s.targets) != 1 or not isinstance(s.targets[0], ast.Name): bad(s, "assignment target")
            return self.ev(s.value, lambda t, ty: self.assign(s.targets[0].id, t, ty, nxt, s))
        if isinstance(s, ast.AnnAssign) and s.value is not None and isinstance(s.target, ast.Name):
            return self.ev(s.value, lambda t, ty: self.assign(s.target.id, t, ty, nxt, s))
        if isinstance(s, ast.AugAssign):
            if not isinstance(s.target, ast.Name) or s.target.id not in self.env: bad(s, "augmented assignment target")
            name = s.target.id
            ty0 = self.env[name]
            if isinstance(s.op, ast.Add) and ty0 == "str":
                def aa(t, ty):
                    if ty != "str": bad(s, "+= of a %s to a str" % (ty,))
                    return self.assign(name, "(%s ++ %s)" % (self.vname(name), t), "str", nxt, s)
                return self.ev(s.value, aa)
            if isinstance(s.op, ast.Div) and ty0 == "num":
                c = s.value
                if not (isinstance(c, ast.Constant) and isinstance(c.value, (int, float)) and not isinstance(c.value, bool)): bad(s, "division by something that is not a constant")
                v = c.value
                if not (math.isfinite(v) and v >= 1 and v == int(v) and (int(v) & (int(v) - 1)) == 0): bad(s, "division by a constant that is not a power of two")
                kk = int(v).bit_length() - 1
                return self.assign(name, "(num_div_pow2 %s %d%%N)" % (self.vname(name), kk), "num", nxt, s)
            bad(s, "augmented assignment")
        if isinstance(s, ast.Return):
            if s.value is None: bad(s, "return without a value")
            def ret(t, ty):
                if ty != self.spec["ret"]: bad(s, "return of a %s in a function of type %s" % (ty, self.spec["ret"]))
                return "(Ok %s)" % t
            return self.ev(s.value, ret)
        if isinstance(s, ast.Raise):
            x = s.exc
            if isinstance(x, ast.Call) and isinstance(x.func, ast.Name) and len(x.args) == 1 and not x.keywords and s.cause is None:
                def rs(t, ty):
                    if ty != "str": bad(s, "raise message")
                    return "(Err %s %s)" % (coq_str(x.func.id), t)
                return self.ev(x.args[0], rs)
            bad(s, "raise form")
        if isinstance(s, ast.If):
            return self.if_stmt(s, nxt)
        if isinstance(s, ast.For):
            return self.for_stmt(s, nxt)
        bad(s, "statement")

    def dead(self):
        raise Untranslatable("internal: continuation of a terminated branch used")

    def if_stmt(self, s, nxt):
        tb, te = self.terminates(s.body), self.terminates(s.orelse)
        def cond(kt, kf):
            return self.ev(s.test, lambda t, ty: "(if %s then %s else %s)" % (self.truth(t, ty, s), self.fork(kt), self.fork(kf)))
        if tb and te:
            return cond(lambda: self.block(s.body, self.dead), lambda: self.block(s.orelse, self.dead))
        if tb: return cond(lambda: self.block(s.body, self.dead), lambda: self.block(s.orelse, nxt))
        if te: return cond(lambda: self.block(s.body, nxt), lambda: self.block(s.orelse, self.dead))
        if not self.may_exit(s.body) and not self.may_exit(s.orelse):
            vs = sorted(a for a in self.assigned(s.body + s.orelse) if a in self.env)
            saved = (self.n, dict(self.env))
            self.pure_only += 1
            try:
                if not vs: bad(s, "if statement without effect")
                tup = lambda: self.vname(vs[0]) if len(vs) == 1 else "(" + ", ".join(self.vname(a) for a in vs) + ")"
                def leaf():
                    for a in vs:
                        if self.env[a] != saved[1][a]: bad(s, "variable %s changes its type in a branch" % a)
                    return tup()
                code = cond(lambda: self.block(s.body, leaf), lambda: self.block(s.orelse, leaf))
                joined = True
            except NotPure:
                joined = False
                self.n = saved[0]
            finally:
                self.pure_only -= 1
                self.env = dict(saved[1])
            if joined:
                pat = self.vname(vs[0]) if len(vs) == 1 else "'(" + ", ".join(self.vname(a) for a in vs) + ")"
                return "(let %s := %s in %s)" % (pat, code, nxt())
        return cond(lambda: self.block(s.body, nxt), lambda: self.block(s.orelse, nxt))

    def for_stmt(self, s, nxt):
        if s.orelse or not isinstance(s.target, ast.Name): bad(s, "for form")
        for n in ast.walk(s):
            if isinstance(n, (ast.Break, ast.Continue)): bad(n, "break / continue")
        var = s.target.id
        if var in self.env: bad(s, "loop variable shadows a variable")
        accs = sorted(a for a in self.assigned(s.body) if a in self.env)
        if var in self.assigned(s.body): bad(s, "loop variable assigned in the body")
        def loop(it, ity):
            if not (isinstance(ity, tuple) and ity[0] == "list"): bad(s, "iteration over a %s" % (ity,))
            lid = self.fresh("loop")
            types = {a: self.env[a] for a in accs}
            bnd = "".join(" (%s : %s)" % (self.vname(a), ctype(types[a])) for a in accs)
            def rec():
                for a in accs:
                    if self.env.get(a) != types[a]: bad(s, "accumulator %s changes its type" % a)
                return "(%s l'__%s)" % (lid, "".join(" " + self.vname(a) for a in accs))
            def body():
                self.env[var] = ity[1]
                return self.block(s.body, rec)
            bcode = self.fork(body)
            ncode = self.fork(nxt)
            return "((fix %s (l__ : list %s)%s {struct l__} : Res.res %s := match l__ with [] => %s | %s :: l'__ => %s end) %s%s)" % (
                lid, ctype(ity[1]), bnd, ctype(self.spec["ret"]), ncode, self.vname(var), bcode, it, "".join(" " + self.vname(a) for a in accs))
        if not self.is_pure(s.iter): bad(s, "iteration over the result of a library call (bind it to a variable first)")
        return self.ev(s.iter, loop)

    def translate(self):
        a = self.node.args
        if a.vararg or a.kwarg or a.kwonlyargs or a.posonlyargs or a.kw_defaults or self.node.decorator_list or isinstance(self.node, ast.AsyncFunctionDef):
            bad(self.node, "signature")
        for d in a.defaults:
            if not isinstance(d, ast.Constant): bad(d, "default value that is not a constant")
        names = [x.arg for x in a.args]
        for n in ast.walk(self.node):
            if isinstance(n, ast.arg) and n.arg in ("Path", "sorted", "str", "L", "w__"): bad(n, "parameter re-binds a name of the tables")
        if len(names) != len(self.spec["params"]): bad(self.node, "number of parameters")
        binders, pre = [], []
        if self.spec["world"]: binders += ["(L : GemtextGlue.gemlib)", "(w__ : Fs.fs)"]
        for n, (t, given) in zip(names, self.spec["params"]):
            self.env[n] = t
            if t == given:
                binders.append("(%s : %s)" % (self.vname(n), ctype(t)))
            elif (t, given) == ("num", "N"):
                binders.append("(%s__0 : N)" % self.vname(n))
                pre.append("let %s := NInt %s__0 in " % (self.vname(n), self.vname(n)))
            else: raise Untranslatable("parameter coercion %s -> %s" % (given, t))
        def off_end():
            raise Untranslatable("%s: control can fall off the end" % self.spec["func"])
        body = self.block(self.node.body, off_end)
        return "Definition %s %s : Res.res %s :=\n  %s%s.\n" % (self.spec["name"], " ".join(binders), ctype(self.spec["ret"]), "".join(pre), body)

HEADER = """(* GENERATED by /verif/translate/py2coq_gemtext.py from /repo/src/nauyaca/content/gemtext.py - do not edit *)
From Coq Require Import List NArith ZArith Bool.
From NV Require Import Prelude.Str Prelude.Res Model.Fs Model.Static Model.Listing Equiv.GemtextGlue.
Import ListNotations.
Open Scope list_scope.

"""

def top_function(tree, func):
    fs = [n for n in tree.body if isinstance(n, (ast.FunctionDef, ast.AsyncFunctionDef)) and n.name == func]
    if len(fs) != 1: raise Untranslatable("function %s not found (or defined twice)" % func)
    return fs[0]

def check_imports(tree):
    """`Path` must be pathlib.Path and must not be re-bound at module level"""
    ok = False
    for n in tree.body:
        if isinstance(n, ast.ImportFrom) and n.module == "pathlib" and n.level == 0 and any(a.name == "Path" and a.asname is None for a in n.names): ok = True
    bound = []
    for n in tree.body:
        if isinstance(n, (ast.Import, ast.ImportFrom)):
            bound += [(a.asname or a.name).split(".")[0] for a in n.names if not (isinstance(n, ast.ImportFrom) and n.module == "pathlib" and a.name == "Path" and a.asname is None)]
        elif isinstance(n, (ast.FunctionDef, ast.AsyncFunctionDef, ast.ClassDef)): bound.append(n.name)
        elif isinstance(n, ast.Expr) and isinstance(n.value, ast.Constant): pass
        else:
            for x in ast.walk(n):
                if isinstance(x, ast.Name) and isinstance(x.ctx, ast.Store): bound.append(x.id)
    for b in ("Path", "sorted", "str"):
        if b in bound: raise Untranslatable("%s is re-bound at module level" % b)
    if not ok: raise Untranslatable("`from pathlib import Path` not found")
    return bound

def main(out_path):
    tree = ast.parse(open(os.path.join(SRC, FILE)).read())
    check_imports(tree)
    chunks, done = [HEADER], {}
    for spec in FUNCS:
        fn = top_function(tree, spec["func"])
        # a translated function must not re-bind the names the tables give a meaning to
        for n in ast.walk(fn):
            if isinstance(n, ast.Name) and isinstance(n.ctx, ast.Store) and n.id in ("Path", "sorted", "str") + tuple(f["func"] for f in FUNCS):
                raise Untranslatable("%s: %s is re-bound" % (spec["func"], n.id))
            if isinstance(n, (ast.FunctionDef, ast.ClassDef, ast.Global, ast.Nonlocal, ast.Import, ast.ImportFrom)) and n is not fn:
                raise Untranslatable("%s: nested definition / import / global" % spec["func"])
        try:
            chunks.append(GFn(spec, fn, dict(done)).translate())
        except Untranslatable as e:
            raise Untranslatable("%s:%s: %s" % (FILE, spec["func"], e))
        chunks.append("\n")
        done[spec["func"]] = spec
    open(out_path, "w").write("".join(chunks))
    print("py2coq_gemtext: %d functions translated" % len(FUNCS))

if __name__ == "__main__":
    try:
        main(sys.argv[1] if len(sys.argv) > 1 else os.path.join(os.path.dirname(os.path.dirname(os.path.abspath(__file__))), "coq", "Gen", "GemtextGen.v"))
    except Untranslatable as e:
        print("UNTRANSLATABLE:", e); sys.exit(2)
