#!/usr/bin/env python3
"""py2coq_server: state-mode extension of py2coq for the methods of GeminiServerProtocol (server/protocol.py).

Each method `m(self, args)` becomes a Gallina function

    gen_m  <callees> <environment>  (s__ : st) args : st * list action

over the *model's* connection record (Model.ServerProto.st): the table ATTRS says which record field an
attribute `self.x` reads (getter) and which update function an assignment to it applies (setter, defined in
coq/Equiv/ServerGlue.v).  Calls of other methods of the class are parameters of the generated function
(`callees`), instantiated in the tie theorems by the model's functions; transport calls append actions.
Constants (MAX_REQUEST_SIZE, CRLF, StatusCode.X) are read from /repo's source.  Anything outside the subset
is refused (exit 2).

Statement forms beyond py2coq's:
  self.f = e / self.f += e                      -> let s__ := <setter> s__ e
  self._callee(args)                            -> let '(s__, b__) := callee s__ args in let a__ := a__ ++ b__
  self.transport.write(x) / .close()            -> a__ ++ [AWrite x] / a__ ++ [AClose] (and the closing flag)
  if CRLF in X: a, b = X.split(CRLF, 1); ...    -> match break_crlf X with Some (a, b) => ... | None => <else>
  try: v = <modelled call> except E: ...        -> match on option / res
  the timer idiom  (if self.timeout_handle: self.timeout_handle.cancel(); self.timeout_handle = None)
                                                -> let s__ := cancel_timer s__
  the task idiom   (task = asyncio.create_task(C); task.add_done_callback(lambda t: self.CB(t, ..)))
                   optionally inside try/except RuntimeError (no running loop: outside the model)
                                                -> let '(s__, id__) := spawn s__ KIND in a__ ++ [ACTION id__ ..]
                   followed by a second clause `except Exception as e: H` (the call inside create_task(..) failed before an
                   awaitable existed): the call is a `res unit` oracle of the connection (CALL_ORACLES)
                                                -> match ORACLE with Ok _ => <spawn as above>
                                                   | Err _ e => a__ ++ [CALL-ACTION]; <H translated> | OutOfModel => AOutOfModel end
  logger.* calls and the statements listed in SKIP (duration bookkeeping for log lines, certificate
  extraction: the peer's fingerprint is a constant of the connection in the model) are ignored."""
import ast, sys, os, copy
sys.path.insert(0, os.path.dirname(os.path.abspath(__file__)))
from py2coq import Fn, Untranslatable, bad, coq_str, coq_type, find_function, SRC

def int_consts(relpath):
    """NAME = <int literal / product of int literals> at module level"""
    out = {}
    tree = ast.parse(open(os.path.join(SRC, relpath)).read())
    for n in tree.body:
        if isinstance(n, ast.Assign) and len(n.targets) == 1 and isinstance(n.targets[0], ast.Name):
            try:
                v = ast.literal_eval(n.value)
            except Exception:
                try:
                    v = eval(compile(ast.Expression(n.value), "c", "eval"), {"__builtins__": {}}, {})
                except Exception:
                    continue
            if isinstance(v, int) and not isinstance(v, bool): out[n.targets[0].id] = v
            if isinstance(v, bytes): out[n.targets[0].id] = v
    return out

def enum_values(relpath, cls):
    out = {}
    tree = ast.parse(open(os.path.join(SRC, relpath)).read())
    for n in tree.body:
        if isinstance(n, ast.ClassDef) and n.name == cls:
            for s in n.body:
                if isinstance(s, ast.Assign) and isinstance(s.targets[0], ast.Name) and isinstance(s.value, ast.Constant) and isinstance(s.value.value, int):
                    out[s.targets[0].id] = s.value.value
    return out

ARM_IDIOM = ("try:\n    loop = asyncio.get_running_loop()\n    self.timeout_handle = loop.call_later(REQUEST_TIMEOUT, self._handle_timeout)\n"
             "except RuntimeError:\n    self.timeout_handle = None")
TIMER_IDIOM = "if self.timeout_handle:\n    self.timeout_handle.cancel()\n    self.timeout_handle = None"

class StFn(Fn):
    def __init__(self, spec, node, consts):
        super().__init__(spec, node)
        self.consts = consts
        self.tmp = 0

    # ---- expressions: constants of the source, N arithmetic, bytes helpers
    def typeof(self, e):
        if isinstance(e, ast.Name) and e.id in self.consts and e.id not in self.env:
            return "N" if isinstance(self.consts[e.id], int) else "str"
        if isinstance(e, ast.Call) and isinstance(e.func, ast.Name) and e.func.id == "len": return "N"
        if isinstance(e, ast.Call) and isinstance(e.func, ast.Name) and e.func.id == "str": return "str"
        if isinstance(e, ast.Call) and isinstance(e.func, ast.Attribute) and e.func.attr == "encode": return "str"
        if isinstance(e, ast.Constant) and isinstance(e.value, bytes): return "str"
        if isinstance(e, ast.Attribute) and self.attr_key(e).startswith("StatusCode."): return "Z"
        return super().typeof(e)

    def expr(self, e):
        if isinstance(e, ast.Name) and e.id in self.consts and e.id not in self.env:
            v = self.consts[e.id]
            if isinstance(v, int): return "%d%%N" % v
            return "[" + "; ".join(str(b) for b in v) + "]%N"
        if isinstance(e, ast.Constant) and isinstance(e.value, bytes):
            return "[" + "; ".join(str(b) for b in e.value) + "]%N"
        if isinstance(e, ast.Constant) and isinstance(e.value, int) and not isinstance(e.value, bool):
            return "%d%%N" % e.value
        if isinstance(e, ast.Attribute):
            k = self.attr_key(e)
            if k.startswith("StatusCode."):
                nm = k.split(".")[1]
                if nm not in self.consts["__status__"]: bad(e, "unknown status code")
                return "%d%%Z" % self.consts["__status__"][nm]
        if isinstance(e, ast.Call):
            f = e.func
            if isinstance(f, ast.Name) and f.id == "len" and len(e.args) == 1:
                return "(N.of_nat (length %s))" % self.expr(e.args[0])
            if isinstance(f, ast.Name) and f.id == "str" and len(e.args) == 1 and self.typeof(e.args[0]) == "str":
                return self.expr(e.args[0])
            if isinstance(f, ast.Attribute) and f.attr == "encode" and len(e.args) == 1 and isinstance(e.args[0], ast.Constant) \
               and e.args[0].value == "utf-8" and not e.keywords and self.typeof(f.value) == "str":
                return "(encode_replace %s)" % self.expr(f.value) if False else "(encode_total %s)" % self.expr(f.value)
        if isinstance(e, ast.BinOp) and self.typeof(e.left) == "N":
            l, r = self.expr(e.left), self.expr(e.right)
            if isinstance(e.op, ast.Add): return "(%s + %s)%%N" % (l, r)
            bad(e, "N operator")
        if isinstance(e, ast.Compare) and len(e.ops) == 1:
            op, l, r = e.ops[0], e.left, e.comparators[0]
            if isinstance(op, (ast.In, ast.NotIn)) and isinstance(l, ast.Name) and l.id == "CRLF" and self.consts.get("CRLF") == b"\r\n" and self.typeof(r) == "str":
                x = "(has_crlf %s)" % self.expr(r)
                return x if isinstance(op, ast.In) else "(negb %s)" % x
            if not isinstance(op, (ast.In, ast.NotIn, ast.Is, ast.IsNot, ast.Eq, ast.NotEq)) and self.typeof(l) == "N":
                a, b = self.expr(l), self.expr(r)
                if self.typeof(r) != "N": bad(e, "comparison of N with %s" % (self.typeof(r),))
                if isinstance(op, ast.Gt): return "(N.ltb %s %s)" % (b, a)
                if isinstance(op, ast.Lt): return "(N.ltb %s %s)" % (a, b)
                if isinstance(op, ast.GtE): return "(N.leb %s %s)" % (b, a)
                if isinstance(op, ast.LtE): return "(N.leb %s %s)" % (a, b)
        if isinstance(e, ast.Subscript) and isinstance(e.slice, ast.Slice) and e.slice.lower is None and e.slice.step is None \
           and e.slice.upper is not None and self.typeof(e.value) == "str" and self.typeof(e.slice.upper) == "N":
            return "(take (N.to_nat %s) %s)" % (self.expr(e.slice.upper), self.expr(e.value))
        return super().expr(e)

    def truthy(self, e):
        t = self.typeof(e)
        if t == "bool" or t == "str" or isinstance(t, tuple): return super().truthy(e)
        bad(e, "truthiness of type %s" % (t,))

    # ---- statements
    def fall(self): return "(s__, a__)"

    def setter(self, key, value):
        a = self.spec["attrs"].get(key)
        if not a or len(a) < 3: return None
        return "(let s__ := %s s__ %s in " % (a[2], value)

    def callee_call(self, v, rest, k, kc):
        key = self.call_key(v)
        name, wrap_args = self.spec["callees"][key]
        args = "".join(" " + self.expr(x) for x in v.args)
        return "(let '(s__, b__) := %s s__%s in let a__ := a__ ++ b__ in %s)" % (name, args, self.block(rest, k, kc))

    def spawn_idiom(self, stmts):
        """[task = asyncio.create_task(CALL); task.add_done_callback(lambda t: self.CB(t, ...))] -> (call, cb) or None"""
        if len(stmts) != 2: return None
        a, b = stmts
        if not (isinstance(a, ast.Assign) and isinstance(a.targets[0], ast.Name) and a.targets[0].id == "task" and isinstance(a.value, ast.Call)
                and ast.unparse(a.value.func) == "asyncio.create_task" and len(a.value.args) == 1 and isinstance(a.value.args[0], ast.Call)): return None
        if not (isinstance(b, ast.Expr) and isinstance(b.value, ast.Call) and ast.unparse(b.value.func) == "task.add_done_callback" and len(b.value.args) == 1
                and isinstance(b.value.args[0], ast.Lambda)): return None
        lam = b.value.args[0]
        if not (isinstance(lam.body, ast.Call) and isinstance(lam.body.func, ast.Attribute) and ast.unparse(lam.body.func.value) == "self"
                and lam.body.args and isinstance(lam.body.args[0], ast.Name) and lam.body.args[0].id == lam.args.args[0].arg): return None
        return a.value.args[0], lam.body

    def emit_spawn(self, call, cb, rest, k, kc):
        cbname = cb.func.attr
        kinds = self.spec.get("spawn_kinds", {})
        acts = self.spec.get("spawn_actions", {})
        ckey = self.call_key(call)
        if cbname not in kinds or ckey not in acts: bad(call, "task idiom with unknown callback/call (%s, %s)" % (cbname, ckey))
        want_args, templ = acts[ckey]
        got = [ast.unparse(x) for x in call.args]
        if got != want_args: bad(call, "task call arguments changed: %s" % got)
        cb_args = [ast.unparse(x) for x in cb.args[1:]]
        if cb_args != kinds[cbname][1]: bad(cb, "callback arguments changed: %s" % cb_args)
        if "{args}" in templ:
            templ = templ.replace("{args}", " ".join(self.expr(x) for x in call.args))
        return "(let '(s__, id__) := spawn s__ %s in let a__ := a__ ++ [%s] in %s)" % (kinds[cbname][0], templ, self.block(rest, k, kc))

    def block(self, stmts, k, kc=None):
        if not stmts: return k
        s, rest = stmts[0], stmts[1:]
        text = ast.unparse(s)
        if text in self.spec.get("skip", []):
            return self.block(rest, k, kc)
        if isinstance(s, ast.AnnAssign) and s.value is not None and isinstance(s.target, ast.Attribute):
            s = ast.Assign(targets=[s.target], value=s.value, lineno=s.lineno)
        if text == TIMER_IDIOM:
            return "(let s__ := cancel_timer s__ in %s)" % self.block(rest, k, kc)
        if text == ARM_IDIOM:
            # loop.call_later(REQUEST_TIMEOUT, self._handle_timeout): the request timer is armed ("no running loop" is
            # outside the model)
            return "(let s__ := upd_timer_handle s__ true in %s)" % self.block(rest, k, kc)
        if isinstance(s, ast.Expr) and isinstance(s.value, ast.Call):
            v = s.value
            key = self.call_key(v) if isinstance(v.func, (ast.Name, ast.Attribute)) else ""
            if key in self.spec.get("callees", {}):
                return self.callee_call(v, rest, k, kc)
            if key == "self.transport.write" and len(v.args) == 1:
                return "(let a__ := a__ ++ [AWrite %s] in %s)" % (self.expr(v.args[0]), self.block(rest, k, kc))
            if key == "self.transport.close" and not v.args:
                return "(let a__ := a__ ++ [AClose] in let s__ := upd_closing s__ true in %s)" % self.block(rest, k, kc)
        if isinstance(s, ast.Return) and s.value is None:
            return self.fall()
        if isinstance(s, (ast.Assign, ast.AugAssign)):
            t = s.targets[0] if isinstance(s, ast.Assign) else s.target
            if isinstance(t, ast.Attribute):
                key = self.attr_key(t)
                val = s.value if isinstance(s, ast.Assign) else ast.BinOp(left=t, op=s.op, right=s.value)
                at0 = self.spec["attrs"].get(key)
                if isinstance(val, ast.Constant) and val.value is None: v = "false" if at0 and at0[1] == "bool" else "None"
                else:
                    v = self.expr(val)
                    at = self.spec["attrs"].get(key)
                    if at and isinstance(at[1], tuple) and at[1][0] == "opt" and not (isinstance(self.typeof(val), tuple) and self.typeof(val)[0] == "opt"):
                        v = "(Some %s)" % v
                st = self.setter(key, v)
                if st is None: bad(s, "assignment to an attribute without setter")
                return st + self.block(rest, k, kc) + ")"
        # if CRLF in X: a, b = X.split(CRLF, 1); ...
        if isinstance(s, ast.If) and isinstance(s.test, ast.Compare) and isinstance(s.test.ops[0], ast.In) and ast.unparse(s.test.left) == "CRLF" \
           and s.body and isinstance(s.body[0], ast.Assign) and isinstance(s.body[0].targets[0], ast.Tuple) and self.consts.get("CRLF") == b"\r\n":
            X = s.test.comparators[0]
            a0 = s.body[0]
            if ast.unparse(a0.value) == "%s.split(CRLF, 1)" % ast.unparse(X) and len(a0.targets[0].elts) == 2 and all(isinstance(x, ast.Name) for x in a0.targets[0].elts):
                n1, n2 = [x.id for x in a0.targets[0].elts]
                self.env[n1] = self.env[n2] = "str"
                after = self.block(rest, k, kc)
                return "(match break_crlf %s with Some (%s, %s) => %s | None => %s end)" % (
                    self.expr(X), n1, n2, self.block(s.body[1:], after, kc), self.block(s.orelse, after, kc))
        if isinstance(s, ast.If):
            after = self.block(rest, k, kc)
            return "(if %s then %s else %s)" % (self.cond(s.test), self.block(s.body, after, kc), self.block(s.orelse, after, kc))
        sp = self.spawn_idiom([s] + rest[:1]) if rest else None
        if sp:
            return self.emit_spawn(sp[0], sp[1], rest[1:], k, kc)
        if isinstance(s, ast.Try) and len(s.handlers) == 2 and not s.orelse and not s.finalbody and self.spawn_idiom(s.body) \
                and [ast.unparse(h.type) if h.type is not None else "" for h in s.handlers] == ["RuntimeError", "Exception"]:
            # try: <task idiom> except RuntimeError: <no loop> except Exception as e: <the CALL itself failed before any task existed>.
            # The call inside create_task(...) is an oracle of the connection (spec["call_oracles"]: a `res unit`-valued environment
            # parameter): Ok _ = it returned an awaitable - the task idiom; Err _ e = it raised Exception with str() = e before an
            # awaitable existed - the invocation is recorded (the oracle's action) and the SECOND handler's statements are translated
            # like any other statements.  A TypeError raised by asyncio.create_task itself (the call returned something that is not a
            # coroutine) reaches the same handler and is folded into Err with asyncio's message.  The FIRST handler (RuntimeError: no
            # running event loop - the protocol object lives inside a running loop; or a handler call that raises a RuntimeError
            # itself) is outside the model and not translated.
            sp = self.spawn_idiom(s.body)
            h2 = s.handlers[1]
            ckey = self.call_key(sp[0])
            oc = self.spec.get("call_oracles", {}).get(ckey)
            if not oc: bad(s, "a call that may fail before producing an awaitable, without an oracle (%s)" % ckey)
            oracle, action = oc
            ok_branch = self.emit_spawn(sp[0], sp[1], rest, k, kc)
            if h2.name: self.env[h2.name] = "str"
            after = self.block(rest, k, kc)
            err_branch = "(let a__ := a__ ++ [%s] in %s)" % (action, self.block(h2.body, after, kc))
            return "(match %s with Ok _ => %s | Err k__ %s => %s | OutOfModel => (s__, a__ ++ [AOutOfModel]) end)" % (
                oracle, ok_branch, h2.name or "e__", err_branch)
        if isinstance(s, ast.Try) and len(s.handlers) == 1 and not s.orelse and not s.finalbody:
            h = s.handlers[0]
            hname = ast.unparse(h.type) if h.type is not None else ""
            sp = self.spawn_idiom(s.body)
            if sp and hname == "RuntimeError":
                # no running event loop: outside the model (the protocol object lives inside a running loop)
                return self.emit_spawn(sp[0], sp[1], rest, k, kc)
            if len(s.body) == 1 and isinstance(s.body[0], ast.Assign) and isinstance(s.body[0].value, ast.Call):
                a = s.body[0]
                key = self.call_key(a.value) if isinstance(a.value.func, ast.Name) or isinstance(a.value.func.value, (ast.Name, ast.Attribute)) else ""
                tgt = a.targets[0]
                # option-valued modelled call (decode)
                oc = self.spec.get("opt_calls", {}).get((key, hname))
                if oc and isinstance(tgt, ast.Name):
                    templ, ty = oc
                    self.env[tgt.id] = ty
                    recv = self.expr(a.value.func.value) if isinstance(a.value.func, ast.Attribute) else ""
                    after = self.block(rest, k, kc)
                    return "(match %s with Some %s => %s | None => %s end)" % (templ.format(recv=recv), tgt.id, after, self.block(h.body, after, kc))
                rc = self.spec.get("res_calls", {}).get((key, hname))
                if rc:
                    templ, ty = rc
                    args = " ".join(self.expr(x) for x in a.value.args)
                    after_ok = None
                    if isinstance(tgt, ast.Name):
                        self.env[tgt.id] = ty
                        var = tgt.id
                        okb = self.block(rest, k, kc)
                    else:
                        var = "v__"
                        st = self.setter(self.attr_key(tgt), "(Some v__)")
                        if st is None: bad(s, "try target")
                        okb = st + self.block(rest, k, kc) + ")"
                    if h.name:
                        self.env[h.name] = "str"
                    hb = self.block(h.body, self.block(rest, k, kc), kc)
                    return "(match %s %s with Ok %s => %s | Err k__ %s => %s | OutOfModel => (s__, a__ ++ [AOutOfModel]) end)" % (
                        templ, args, var, okb, h.name or "m__", hb)
            bad(s, "try form")
        if isinstance(s, ast.Expr) or isinstance(s, (ast.Assign, ast.AugAssign, ast.AnnAssign, ast.Pass)):
            return super().block(stmts, k, kc)
        bad(s, "statement")

    def translate(self):
        params = self.spec["params"]
        for p, t in params + self.spec.get("env_params", []): self.env[p] = t
        body = self.block(self.node.body, self.fall())
        ps = " ".join("(%s : %s)" % (p, coq_type(t)) for p, t in self.spec.get("env_params", []) + params)
        cs = " ".join("(%s : %s)" % (n, ty) for n, ty in self.spec.get("callee_params", []))
        ps_env = " ".join("(%s : %s)" % (p, coq_type(t)) for p, t in self.spec.get("env_params", []))
        ps = " ".join("(%s : %s)" % (p, coq_type(t)) for p, t in params)
        cs = cs + " " + ps_env
        return "Definition %s %s (s__ : st) %s : st * list action :=\n  let a__ : list action := [] in\n  %s.\n" % (self.spec["name"], cs, ps, body)

# ------------------------------------------------------------------ the class table
ATTRS = {
    "self.buffer": ("(buf s__)", "str", "upd_buf"),
    "self.url_line_received": ("(line_rcvd s__)", "bool", "upd_line_rcvd"),
    "self.awaiting_titan_content": ("(await_titan s__)", "bool", "upd_await"),
    "self.titan_request": ("(titan s__)", ("opt", "treq"), "upd_titan"),
    "self.titan_request.size": ("(tsize s__)", "N"),
    "self.titan_request.content": ("(content s__)", "str", "upd_content"),
    "self.titan_request.normalized_url": ("(tnorm s__)", "str"),
    "self._response_sent": ("(sent s__)", "bool", "upd_sent"),
    "self.transport": ("(tr s__)", "bool", "upd_transport"),
    "self.upload_handler": ("has_upload", "bool"),
    "self.middleware": ("has_mw", "bool"),
    "status.value": ("status", "Z"),
    # the request timer's handle: None <-> not armed (the model's three-state timer through upd_timer_handle)
    "self.timeout_handle": ("(timer_live s__)", "bool", "upd_timer_handle"),
}
SKIP_CERT = [
    "client_cert = self.get_peer_certificate()",
    "if client_cert:\n    from ..security.certificates import get_certificate_fingerprint\n    self.titan_request.client_cert = client_cert\n    self.titan_request.client_cert_fingerprint = get_certificate_fingerprint(client_cert)",
    "client_ip = self.peer_name[0] if self.peer_name else 'unknown'",
    "if self.request_start_time:\n    duration = time.time() - self.request_start_time\nelse:\n    duration = 0",
]
ERR = "st -> Z -> str -> st * list action"
ST1 = "st -> st * list action"
STU = "st -> str -> st * list action"
ENV = [("has_mw", "bool"), ("has_upload", "bool"), ("peer_ip", "str"), ("peer_fp", ("opt", "str"))]
SPAWN_KINDS = {"_handle_titan_middleware_result": ("TTitanMw", ["client_ip"]),
               "_handle_titan_upload_result": ("TUpload", ["client_ip"])}
SPAWN_ACTIONS = {
    "self.middleware.process_request": (["self.titan_request.normalized_url", "client_ip", "self.titan_request.client_cert_fingerprint"],
                                        "AMw id__ (tnorm s__) peer_ip peer_fp"),
    "self.upload_handler.handle_upload": (["self.titan_request"], "AUpload id__ (tline s__) (content s__)"),
}

# calls that may fail before they have produced an awaitable: call -> (oracle: environment parameter of type `res unit`, the action
# recording the invocation when the call itself fails)
CALL_ORACLES = {"self.upload_handler.handle_upload": ("upload_call", "AUploadCall (tline s__) (content s__)")}

INIT_SKIP = ["self.request_handler = request_handler", "self.middleware = middleware", "self.upload_handler = upload_handler",
             "self.peer_name: tuple[str, int] | None = None", "self.request_start_time: float | None = None"]
CM_SKIP = ["if self.transport:\n    self.peer_name = self.transport.get_extra_info('peername')", "self.request_start_time = time.time()"]
SPECS = [
    dict(func="__init__", name="gen_init", params=[], skip=INIT_SKIP),
    dict(func="connection_made", name="gen_connection_made", params=[], rename={"transport": "true"}, types={"transport": "bool"}, skip=CM_SKIP),
    dict(func="data_received", name="gen_data_received", params=[("data", "str")],
         callee_params=[("send_error", ERR), ("handle_titan_url", STU), ("handle_gemini", STU), ("process_titan_upload", ST1)],
         callees={"self._send_error_response": ("send_error", None), "self._handle_titan_url": ("handle_titan_url", None),
                  "self._handle_gemini_request": ("handle_gemini", None), "self._process_titan_upload": ("process_titan_upload", None)},
         opt_calls={("url_line.decode", "UnicodeDecodeError"): ("(decode {recv})", "str")}),
    dict(func="_send_error_response", name="gen_send_error_response", params=[("status", "Z"), ("message", "str")],
         callee_params=[("send_response", "st -> resp -> st * list action")],
         callees={"self._send_response": ("send_response", None)},
         calls={"GeminiResponse": ("mk_resp", "resp")}, types={"response": "resp"}, kw_calls={"GeminiResponse": ["status", "meta"]}),
    dict(func="_handle_timeout", name="gen_handle_timeout", params=[], types={"response": "str"},
         calls={"self.transport.is_closing": ("(closing s__)", "bool")}),
    dict(func="connection_lost", name="gen_connection_lost", params=[]),
    dict(func="_handle_titan_url", name="gen_handle_titan_url", params=[("url", "str")], env_params=ENV + [("ip6_check", ("fun", "str", ("opt", "str")))],
         callee_params=[("send_error", ERR), ("process_titan_upload", ST1)],
         callees={"self._send_error_response": ("send_error", None), "self._process_titan_upload": ("process_titan_upload", None)},
         res_calls={("TitanRequest.from_line", "ValueError"): ("titan_from_line ip6_check", "treq")},
         calls={"self.titan_request.is_delete": ("(N.eqb (tsize s__) 0%N)", "bool")}),
    dict(func="_process_titan_upload", name="gen_process_titan_upload", params=[], env_params=ENV,
         callee_params=[("send_error", ERR), ("start_titan_upload", ST1)],
         callees={"self._send_error_response": ("send_error", None), "self._start_titan_upload": ("start_titan_upload", None)},
         drop_args={"self._start_titan_upload": True}),
    dict(func="_start_titan_upload", name="gen_start_titan_upload", params=[], env_params=ENV + [("upload_call", "(res unit)")],
         callee_params=[("send_error", ERR)], callees={"self._send_error_response": ("send_error", None)},
         call_oracles=CALL_ORACLES),
]

HEADER = """(* GENERATED by /verif/translate/py2coq_server.py from /repo/src/nauyaca/server/protocol.py - do not edit *)
From Coq Require Import List NArith ZArith Bool.
From NV Require Import Prelude.Str Prelude.Res Prelude.Utf8 Model.Url Model.Titan Model.ServerProto Equiv.ServerGlue.
Import ListNotations.
Open Scope list_scope.

"""

class SFn(StFn):
    def callee_call(self, v, rest, k, kc):
        key = self.call_key(v)
        if self.spec.get("drop_args", {}).get(key):
            v = ast.Call(func=v.func, args=[], keywords=[])
        return super().callee_call(v, rest, k, kc)
    def expr(self, e):
        if isinstance(e, ast.Call) and isinstance(e.func, ast.Name) and e.func.id in self.spec.get("kw_calls", {}):
            order = self.spec["kw_calls"][e.func.id]
            kw = {x.arg: x.value for x in e.keywords}
            if e.args or sorted(kw) != sorted(order): bad(e, "keyword call shape")
            return "(%s %s)" % (self.spec["calls"][e.func.id][0], " ".join(self.expr(kw[n]) for n in order))
        return super().expr(e)
    def typeof(self, e):
        if isinstance(e, ast.Call) and isinstance(e.func, ast.Name) and e.func.id in self.spec.get("kw_calls", {}):
            return self.spec["calls"][e.func.id][1]
        return super().typeof(e)

CLOSED_ENV = [("reencode_ignore", "str -> str"), ("ip6_check", "str -> option str"), ("handler", "str -> hres"), ("has_mw", "bool"),
              ("has_upload", "bool"), ("upload_call", "res unit"), ("peer_ip", "str"), ("peer_fp", "option str")]

def closed_definitions(specs):
    """cl_<m>: every translated method with its callee parameters instantiated by the (closed) translations of the
    methods it calls - the call graph of the class, read off the `self._x(...)` calls the translator met.  All closed
    definitions take the same eight environment parameters."""
    meth2name = {}
    for sp in specs:
        for k, (n, _) in sp.get("callees", {}).items():
            meth2name[k.split(".", 1)[1]] = n
    by_name = {}
    for sp in specs:
        by_name[meth2name.get(sp["func"], sp["func"].strip("_"))] = sp
    done, out = [], []
    envs = " ".join("(%s : %s)" % e for e in CLOSED_ENV)
    enva = " ".join(n for n, _ in CLOSED_ENV)
    def emit(n, stack=()):
        if n in done: return
        if n in stack: raise Untranslatable("recursive call cycle through %s" % n)
        sp = by_name[n]
        for c, _ in sp.get("callee_params", []):
            if c not in by_name: raise Untranslatable("callee %s of %s is not translated" % (c, n))
            emit(c, stack + (n,))
        args = ["(cl_%s %s)" % (c, enva) for c, _ in sp.get("callee_params", [])] + [e for e, _ in sp.get("env_params", [])]
        out.append("Definition cl_%s %s := %s %s.\n" % (n, envs, sp["name"], " ".join(args)))
        done.append(n)
    for n in by_name: emit(n)
    return "(* the class with its internal calls resolved *)\n" + "".join(out)

def main(out_path):
    consts = int_consts("protocol/constants.py")
    consts["__status__"] = enum_values("protocol/status.py", "StatusCode")
    tree = ast.parse(open(os.path.join(SRC, "server/protocol.py")).read())
    chunks = [HEADER]
    for spec in SPECS:
        spec = dict(spec)
        spec["file"], spec["cls"] = "server/protocol.py", "GeminiServerProtocol"
        at = dict(ATTRS); at.update(spec.get("attrs", {})); spec["attrs"] = at
        spec.setdefault("skip", SKIP_CERT)
        spec.setdefault("spawn_kinds", SPAWN_KINDS); spec.setdefault("spawn_actions", SPAWN_ACTIONS)
        spec["__tree__"] = tree
        fn = copy.deepcopy(find_function(tree, spec["cls"], spec["func"]))
        try:
            chunks.append(SFn(spec, fn, consts).translate())
        except Untranslatable as e:
            raise Untranslatable("server/protocol.py:%s: %s" % (spec["func"], e))
        chunks.append("\n")
    import py2coq_server2
    chunks.append(py2coq_server2.main(None))
    chunks.append(closed_definitions(SPECS + py2coq_server2.SPECS2))
    # the delay of the request timer (module constant REQUEST_TIMEOUT, seconds), in milliseconds
    rt = [n.value.value for n in tree.body if isinstance(n, ast.Assign) and len(n.targets) == 1 and isinstance(n.targets[0], ast.Name)
          and n.targets[0].id == "REQUEST_TIMEOUT" and isinstance(n.value, ast.Constant) and isinstance(n.value.value, (int, float))]
    if len(rt) != 1 or rt[0] * 1000 != int(rt[0] * 1000): raise Untranslatable("REQUEST_TIMEOUT is not a module constant in whole milliseconds")
    chunks.append("\nDefinition gen_request_timeout_ms : N := %d%%N.\n" % int(rt[0] * 1000))
    open(out_path, "w").write("".join(chunks))
    print("py2coq_server: %d methods translated" % (len(SPECS) + len(py2coq_server2.SPECS2)))

if __name__ == "__main__":
    try:
        main(sys.argv[1] if len(sys.argv) > 1 else os.path.join(os.path.dirname(os.path.dirname(os.path.abspath(__file__))), "coq", "Gen", "ServerGen.v"))
    except Untranslatable as e:
        print("UNTRANSLATABLE:", e); sys.exit(2)
