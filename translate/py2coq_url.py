#!/usr/bin/env python3
"""py2coq_url: translator for the URL / request-line functions

    utils/url.py          parse_url, validate_url
    protocol/request.py   GeminiRequest.from_line, TitanRequest.from_line, _parse_titan_params,
                          TitanRequest.normalized_url, TitanRequest.is_delete

-> coq/Gen/UrlGen.v (regenerated from SRC on every run; NV_SRC selects a scratch copy).  The lemmas
"generated definition = model" are stated in coq/Equiv/EquivUrl.v and proved in coq/Proofs/EquivUrl_proofs.v;
hand-written glue (CPython's urlparse/urlunparse on top of the model's urlsplit, the Python-side records) is in
coq/Equiv/UrlGlue.v.  Anything outside the subset raises Untranslatable (exit status 2).

It extends py2coq.Fn (class UFn below).  What is added to the subset of py2coq:

  * exceptions as values, in evaluation order.  An expression that can raise (table entries marked with an
    exception class, calls of translated functions, d[k], int(x), x.encode("utf-8")) is *sequenced*: every such
    sub-expression of a statement is bound, innermost first, by
        match <res term> with Ok r__ => ... | Err k m => Err k m | OutOfModel => OutOfModel end
    before the statement itself, and its occurrences in that statement are replaced by r__.  It must be evaluated
    unconditionally by the statement (not only inside a branch of `a if c else b` or a later operand of and/or);
    otherwise the statement is refused.  The binding lasts for that statement only.
  * try: x = E  except C [as e]: <handler that ends in raise/return>: the Err branch of a sequenced
    sub-expression of E whose exception class is a subclass of C (table EXC_PARENT) is the handler, the others
    propagate.  `raise X from e` is `raise X` (only __cause__ differs).
  * optional values are narrowed: after `if not E: <raise/return>`, inside `if E:`, and in
    `A if E is not None else B`, where E is a local or an attribute path of type Optional[T], E is bound by a
    `match E with Some v => ... | None => ...` and read as v : T in the narrowed region; assigning to the root
    variable of E ends the narrowing.  Truthiness of Optional[str] is "Some non-empty".
  * a, b = X.split(c, 1)  ->  match break_at c X with Some (a, b) => ... | None => Err ValueError (unpacking) end
  * dict[str, str] values (association lists of Model/Titan.v), keyword constructor calls of the records whose
    field lists are read from the source, `x or y` on strings, integers in N / Z, `for` loops that update a dict.
  * all Python locals are emitted as v_<name>, callee parameters as f_<name>: no capture of library names.

TRUSTED TABLES (each entry is part of the trusted base; everything else is derived from the source AST)

  T1 LIB_ATTRS  attributes of the value returned by urllib.parse.urlparse (type `urlparsed`, Equiv/UrlGlue.v):
       .scheme .netloc .path .params .query .fragment -> up_scheme .. up_fragment
       .hostname -> hostname (up_netloc p)              : Optional[str]
       .username / .password -> fst / snd (userinfo (up_netloc p)) : Optional[str]
       .port -> port (up_netloc p)                      : Optional[int] in N, may raise ValueError
  T2 library calls (method `lib_call`):
       urlparse(u)                      -> the parameter f_urlparse : str -> res urlparsed (raises ValueError);
                                           instantiated in the tie theorems by UrlGlue.urlparse ip6
       urlunparse((a, b, c, d, e, f))   -> UrlGlue.urlunparse a b c d e f
       int(s)                           -> Titan.py_int s : res Z (ValueError)
       s.encode("utf-8")                -> UrlGlue.encode_utf8 s : res bytes (UnicodeEncodeError; OutOfModel in the model)
       len(x)                           -> N.of_nat (length x)
       s.startswith(t) -> prefixb t s   s.strip() -> Titan.ustrip s   s.split(c) -> split_on c s   (c one character)
       s[n:] -> drop n s                s.split(c)[0] -> hd [] (split_on c s)   (split never returns an empty list)
       c in s (c one character) -> mem c s
       {} -> []   d[k] = v -> set_param k v d   d[k] -> dict_getitem k d (KeyError)   k in d -> get_param k d is Some
       d.get(k) -> get_param k d        d.get(k, v) -> match get_param k d with Some x => x | None => v end
       f"..{x}.." : str as is, N by dec, Z by str_of_Z
  T3 RECORD_DECL  Coq record, constructor, accessor prefix and Coq field types of ParsedURL / GeminiRequest /
       TitanRequest (declared in Equiv/UrlGlue.v).  Field names, their order, annotations and defaults are read
       from the class definitions and checked against this table; dataclass fields that are not modelled
       (client_cert, client_cert_fingerprint, content) must keep their defaults in every constructor call.
  T4 EXC_PARENT  the exception hierarchy used by try/except.
  T5 per function (SPECS): the labels the models use for the ValueErrors raised (`kinds`: by message prefix, or
       one `default_kind`); they are names, not behaviour.  Callees (parse_url, validate_url,
       _parse_titan_params) are parameters of the generated function, instantiated in the tie theorems by the
       generated callee.
  Constants DEFAULT_PORT, MAX_REQUEST_SIZE: read from protocol/constants.py (must be imported from there).
  Skipped statements: docstrings and `pass` only.

Refused besides what the rules above do not cover: parameters with defaults, decorators other than the expected
ones, a translated function or class defined twice, module-level rebinding of urlparse / urlunparse / int / len /
ValueError, locals that hide a constant, a callee, a record class or a builtin used by the tables, nested
functions, lambdas, comprehensions, while / with / break / global / del, handlers that fall through."""
import ast, sys, os, copy
sys.path.insert(0, os.path.dirname(os.path.abspath(__file__)))
from py2coq import Fn, Untranslatable, bad, coq_str, find_function, SRC

def int_consts(relpath):
    """NAME = <int literal> at module level of a source file (the last binding wins, as in Python)"""
    out = {}
    for n in ast.parse(open(os.path.join(SRC, relpath)).read()).body:
        if isinstance(n, ast.Assign) and len(n.targets) == 1 and isinstance(n.targets[0], ast.Name):
            name = n.targets[0].id
            out.pop(name, None)
            if isinstance(n.value, ast.Constant) and isinstance(n.value.value, int) and not isinstance(n.value.value, bool):
                out[name] = n.value.value
        elif not isinstance(n, (ast.Expr, ast.Import, ast.ImportFrom)):
            for x in ast.walk(n):                      # any other statement that could bind a name makes it unknown
                if isinstance(x, ast.Name) and isinstance(x.ctx, ast.Store): out.pop(x.id, None)
    return out

def K(e):
    return ast.dump(e)

def V(name):
    return "v_" + name

# ------------------------------------------------------------------ T1
LIB_ATTRS = {
    ("urlparsed", "scheme"):   ("(up_scheme {0})", "str", None),
    ("urlparsed", "netloc"):   ("(up_netloc {0})", "str", None),
    ("urlparsed", "path"):     ("(up_path {0})", "str", None),
    ("urlparsed", "params"):   ("(up_params {0})", "str", None),
    ("urlparsed", "query"):    ("(up_query {0})", "str", None),
    ("urlparsed", "fragment"): ("(up_fragment {0})", "str", None),
    ("urlparsed", "hostname"): ("(hostname (up_netloc {0}))", ("opt", "str"), None),
    ("urlparsed", "username"): ("(fst (userinfo (up_netloc {0})))", ("opt", "str"), None),
    ("urlparsed", "password"): ("(snd (userinfo (up_netloc {0})))", ("opt", "str"), None),
    ("urlparsed", "port"):     ("(port (up_netloc {0}))", ("opt", "N"), "ValueError"),
}
# names that must be imported from these modules for the T2 entries to apply
LIB_IMPORTS = {"urlparse": "urllib.parse", "urlunparse": "urllib.parse"}
CONST_MODULE = "protocol.constants"
BUILTINS = ("int", "len", "ValueError")       # must mean the builtins: not defined or imported by the module
# ------------------------------------------------------------------ T3
RECORD_DECL = {
    "ParsedURL": ("purl", "mk_purl", "pu_", [("scheme", "str"), ("hostname", "str"), ("port", "N"), ("path", "str"),
                                             ("query", "str"), ("fragment", "str"), ("normalized", "str")]),
    "GeminiRequest": ("greq", "mk_greq", "gr_", [("raw_url", "str"), ("parsed_url", "purl")]),
    "TitanRequest": ("gtreq", "mk_gtreq", "gt_", [("raw_url", "str"), ("parsed_url", "purl"), ("size", "Z"),
                                                  ("mime_type", "str"), ("token", ("opt", "str"))]),
}
ANNOTATION_OF = {"str": "str", "N": "int", "Z": "int", ("opt", "str"): "str | None", "purl": "ParsedURL"}
# ------------------------------------------------------------------ T4
EXC_PARENT = {"UnicodeEncodeError": "ValueError", "ValueError": "Exception", "KeyError": "LookupError",
              "LookupError": "Exception", "Exception": None}

def is_subclass(c, d):
    while c is not None:
        if c == d: return True
        c = EXC_PARENT.get(c)
    return False

def coq_type(t):
    if isinstance(t, tuple):
        if t[0] == "opt": return "(option %s)" % coq_type(t[1])
        if t[0] == "list": return "(list %s)" % coq_type(t[1])
        raise Untranslatable("type %s" % (t,))
    return {"str": "str", "bytes": "(list N)", "bool": "bool", "N": "N", "Z": "Z", "dict": "params", "unit": "unit",
            "urlparsed": "urlparsed", "purl": "purl", "greq": "greq", "gtreq": "gtreq"}[t]

# ------------------------------------------------------------------ what the source declares
class Module:
    """a parsed source file: imports, classes, module-level functions"""
    def __init__(self, rel):
        self.rel = rel
        self.tree = ast.parse(open(os.path.join(SRC, rel)).read(), rel)
        self.imports, self.funcs, self.classes, self.assigned = {}, set(), {}, set()
        for n in self.tree.body:
            if isinstance(n, ast.ImportFrom):
                for a in n.names: self.imports[a.asname or a.name] = (n.module or "", a.name)
            elif isinstance(n, ast.Import):
                for a in n.names: self.imports[(a.asname or a.name).split(".")[0]] = (a.name, None)
            elif isinstance(n, (ast.FunctionDef, ast.AsyncFunctionDef)):
                if n.name in self.funcs: raise Untranslatable("%s: %s is defined twice" % (rel, n.name))
                self.funcs.add(n.name)
            elif isinstance(n, ast.ClassDef):
                if n.name in self.classes: raise Untranslatable("%s: class %s is defined twice" % (rel, n.name))
                self.classes[n.name] = n
                names = [m.name for m in n.body if isinstance(m, (ast.FunctionDef, ast.AsyncFunctionDef))]
                props = {m.name for m in n.body if isinstance(m, ast.FunctionDef) and any("setter" in ast.unparse(d) for d in m.decorator_list)}
                if len(names) != len(set(names)) or props: raise Untranslatable("%s: a method of %s is defined twice" % (rel, n.name))
            elif isinstance(n, (ast.Assign, ast.AnnAssign, ast.AugAssign)):
                for t in (n.targets if isinstance(n, ast.Assign) else [n.target]):
                    for x in ast.walk(t):
                        if isinstance(x, ast.Name): self.assigned.add(x.id)

    def defines(self, name):
        return name in self.funcs or name in self.classes or name in self.assigned or name in self.imports

    def imported_from(self, name, module_suffix, orig=None):
        m = self.imports.get(name)
        return (m is not None and name not in self.funcs and name not in self.classes and name not in self.assigned
                and (m[0] == module_suffix or m[0].endswith("." + module_suffix)) and m[1] == (orig or name))

    def class_fields(self, cls):
        """[(name, annotation text, default node or None)] of a NamedTuple / dataclass, inherited fields first"""
        c = self.classes.get(cls)
        if c is None: raise Untranslatable("class %s not found in %s" % (cls, self.rel))
        out = []
        for b in c.bases:
            if isinstance(b, ast.Name) and b.id in self.classes: out += self.class_fields(b.id)
            elif isinstance(b, ast.Name) and b.id == "NamedTuple" and self.imported_from("NamedTuple", "typing"): pass
            else: raise Untranslatable("base class of %s: %s" % (cls, ast.unparse(b)))
        if not (any(isinstance(b, ast.Name) and b.id == "NamedTuple" for b in c.bases)
                or any(ast.unparse(d) == "dataclass" for d in c.decorator_list)):
            raise Untranslatable("%s is neither a NamedTuple nor a plain @dataclass" % cls)
        for s in c.body:
            if isinstance(s, ast.AnnAssign) and isinstance(s.target, ast.Name):
                ann = s.annotation.value if isinstance(s.annotation, ast.Constant) and isinstance(s.annotation.value, str) else ast.unparse(s.annotation)
                out.append((s.target.id, ann, s.value))
            elif isinstance(s, ast.Assign):
                raise Untranslatable("un-annotated class attribute in %s" % cls)
        return out

class Record:
    def __init__(self, pyname, fields_src):
        self.pyname = pyname
        self.ty, self.ctor, self.prefix, self.fields = RECORD_DECL[pyname]
        modelled = dict(self.fields)
        self.defaults, self.unmodelled = {}, []
        src_order = []
        for name, ann, dflt in fields_src:
            if name in modelled:
                src_order.append(name)
                if ann != ANNOTATION_OF[modelled[name]]:
                    raise Untranslatable("%s.%s is annotated %s, the record field is %s" % (pyname, name, ann, modelled[name]))
                self.defaults[name] = dflt
            else:
                if dflt is None: raise Untranslatable("%s.%s: a field without default that is not modelled" % (pyname, name))
                self.unmodelled.append(name)
        if src_order != [f for f, _ in self.fields]:
            raise Untranslatable("fields of %s are %s, expected %s" % (pyname, src_order, [f for f, _ in self.fields]))

# ------------------------------------------------------------------ the translator
class UFn(Fn):
    def __init__(self, spec, node, mod, consts, records, cls):
        Fn.__init__(self, spec, node)
        self.mod, self.consts, self.records, self.cls = mod, consts, records, cls
        self.subst = {}            # K(expr) -> (Coq term, type, "narrow" | "hoist")
        self.counter = 0
        self.exc_names = set()
        self.rtype = None

    def fresh(self, stem):
        self.counter += 1
        return "%s%d__" % (stem, self.counter)

    # ---- compile-time integers: literals, the imported constants, + and - of those
    def intlit(self, e):
        if isinstance(e, ast.Constant) and isinstance(e.value, int) and not isinstance(e.value, bool): return e.value
        if isinstance(e, ast.Name) and e.id not in self.env and e.id in self.consts:
            if not self.mod.imported_from(e.id, CONST_MODULE): bad(e, "constant not imported from " + CONST_MODULE)
            return self.consts[e.id]
        if isinstance(e, ast.BinOp) and isinstance(e.op, (ast.Add, ast.Sub)):
            a, b = self.intlit(e.left), self.intlit(e.right)
            if a is not None and b is not None:
                v = a + b if isinstance(e.op, ast.Add) else a - b
                if v < 0: bad(e, "negative compile-time integer")
                return v
        return None

    def num(self, e, t):
        """e at the numeric type t"""
        v = self.intlit(e)
        if v is not None: return "%d%%%s" % (v, t)
        if self.typeof(e) != t: bad(e, "expected %s, found %s" % (t, self.typeof(e)))
        return self.expr(e)

    def unify(self, es):
        ts = [self.typeof(e) for e in es]
        real = [t for t in ts if t not in ("int", "none")]
        if not real: return "N" if "int" in ts else "none"
        if any(t != real[0] for t in real): bad(es[0], "operands of different types %s" % (ts,))
        if "none" in ts and not (isinstance(real[0], tuple) and real[0][0] == "opt"): return ("opt", real[0])
        return real[0]

    def at(self, e, t):
        """e converted to type t (integers to N / Z, T to Optional[T], None)"""
        te = self.typeof(e)
        if te == "int" and t in ("N", "Z"): return self.num(e, t)
        if te == t: return self.expr(e)
        if isinstance(t, tuple) and t[0] == "opt":
            if te == "none": return "None"
            if te == t[1]: return "(Some %s)" % self.expr(e)
        bad(e, "expected %s, found %s" % (t, te))

    # ---- narrowing
    def root(self, e):
        while isinstance(e, ast.Attribute): e = e.value
        return e.id if isinstance(e, ast.Name) else None

    def narrowable(self, e):
        if self.root(e) is None: return False
        t = self.typeof(e)
        return isinstance(t, tuple) and t[0] == "opt" and self.raising(e) is None

    def with_subst(self, key, entry, f):
        saved = dict(self.subst)
        self.subst[key] = entry
        try: return f()
        finally: self.subst = saved

    def without(self, names, f, hoists=True):
        """f() with the narrowings rooted at `names` (and, by default, all statement-scoped bindings) forgotten"""
        saved = dict(self.subst)
        self.subst = {k: v for k, v in saved.items() if not (v[3] in names or (hoists and v[2] == "hoist"))}
        try: return f()
        finally: self.subst = saved

    def assigned(self, stmts):
        out = set()
        for s in stmts:
            for n in ast.walk(s):
                ts = n.targets if isinstance(n, ast.Assign) else [n.target] if isinstance(n, (ast.AugAssign, ast.AnnAssign, ast.For)) else []
                for t in ts:
                    for x in ast.walk(t):
                        if isinstance(x, ast.Name): out.add(x.id)
        return out

    # ---- what can raise
    def raising(self, e):
        """the exception class if evaluating the node e itself (not its operands) can raise"""
        if K(e) in self.subst: return None
        if isinstance(e, ast.Attribute):
            ent = LIB_ATTRS.get((self.typeof(e.value), e.attr))
            return ent[2] if ent else None
        if isinstance(e, ast.Subscript) and isinstance(e.ctx, ast.Load) and self.typeof(e.value) == "dict": return "KeyError"
        if isinstance(e, ast.Call): return self.lib_call(e)[1]
        return None

    def children(self, e):
        """operands in evaluation order; [(node, conditionally evaluated)]"""
        if isinstance(e, (ast.Name, ast.Constant)): return []
        if isinstance(e, ast.IfExp): return [(e.test, False), (e.body, True), (e.orelse, True)]
        if isinstance(e, ast.BoolOp): return [(e.values[0], False)] + [(v, True) for v in e.values[1:]]
        if isinstance(e, ast.Call):
            out = [e.func.value] if isinstance(e.func, ast.Attribute) else []
            if any(isinstance(a, ast.Starred) for a in e.args) or any(k.arg is None for k in e.keywords): bad(e, "star arguments")
            out += e.args + [k.value for k in e.keywords]
        elif isinstance(e, ast.Attribute): out = [e.value]
        elif isinstance(e, ast.Subscript):
            sl = e.slice
            out = [e.value] + ([x for x in (sl.lower, sl.upper, sl.step) if x is not None] if isinstance(sl, ast.Slice) else [sl])
        elif isinstance(e, ast.BinOp): out = [e.left, e.right]
        elif isinstance(e, ast.UnaryOp): out = [e.operand]
        elif isinstance(e, ast.Compare):
            if len(e.ops) != 1: bad(e, "chained comparison")
            out = [e.left, e.comparators[0]]
        elif isinstance(e, ast.JoinedStr):
            out = []
            for v in e.values:
                if isinstance(v, ast.FormattedValue):
                    if v.format_spec is not None or v.conversion != -1: bad(e, "format spec")
                    out.append(v.value)
                elif not isinstance(v, ast.Constant): bad(e, "f-string part")
        elif isinstance(e, (ast.Tuple, ast.List)): out = list(e.elts)
        elif isinstance(e, ast.Dict): out = [x for kv in zip(e.keys, e.values) for x in kv]
        else: bad(e, "expression form")
        return [(x, False) for x in out]

    def collect(self, e, cond, out):
        if K(e) in self.subst: return
        for c, cc in self.children(e): self.collect(c, cond or cc, out)
        exc = self.raising(e)
        if exc is not None:
            seen = any(K(x) == K(e) for x, _ in out)
            if cond and not seen: bad(e, "an expression that can raise is evaluated only conditionally")
            if not seen: out.append((e, exc))

    def seq(self, exprs, body, handler=None):
        """bind the raising sub-expressions of exprs (evaluation order), then body()"""
        nodes = []
        for e in exprs: self.collect(e, False, nodes)
        def go(i):
            if i == len(nodes): return body()
            e, exc = nodes[i]
            term, ty = self.raw(e)
            v = self.fresh("r")
            inner = self.with_subst(K(e), (v, ty, "hoist", None), lambda: go(i + 1))
            err = "Err k__ m__"
            if handler is not None and is_subclass(exc, handler[0]): err = handler[1]()
            return "(match %s with Ok %s => %s | Err k__ m__ => %s | OutOfModel => OutOfModel end)" % (term, v, inner, err)
        return go(0)

    def raw(self, e):
        """the res-valued term of a raising node and the type of its value"""
        if isinstance(e, ast.Attribute):
            ent = LIB_ATTRS[(self.typeof(e.value), e.attr)]
            return ent[0].format(self.expr(e.value)), ent[1]
        if isinstance(e, ast.Subscript):
            if self.typeof(e.slice) != "str": bad(e, "dict key")
            return "(dict_getitem %s %s)" % (self.expr(e.slice), self.expr(e.value)), "str"
        ty, exc, emit = self.lib_call(e)
        return emit(), ty

    # ---- T2: calls
    def one_char(self, e):
        return ord(e.value) if isinstance(e, ast.Constant) and isinstance(e.value, str) and len(e.value) == 1 else None

    def lib_call(self, e):
        """-> (type of the value, exception class or None, thunk giving the Coq term)"""
        f, args = e.func, e.args
        X = self.expr
        if isinstance(f, ast.Name) and f.id not in self.env:
            n = f.id
            rec = self.records.get(self.cls) if n == "cls" and self.spec.get("classmethod") else self.records.get(n)
            if rec is not None and (n == "cls" or n in self.mod.classes or self.mod.imported_from(n, self.spec.get("records_from", "?"))):
                return rec.ty, None, lambda: self.construct(rec, e)
            if e.keywords: bad(e, "keyword arguments")
            if n == "len" and len(args) == 1 and (self.typeof(args[0]) in ("str", "bytes") or self.typeof(args[0])[0] == "list"):
                return "N", None, lambda: "(N.of_nat (length %s))" % X(args[0])
            if n == "int" and len(args) == 1 and self.typeof(args[0]) == "str":
                return "Z", "ValueError", lambda: "(py_int %s)" % X(args[0])
            if n == "urlunparse" and self.mod.imported_from(n, LIB_IMPORTS[n]) and len(args) == 1 and isinstance(args[0], ast.Tuple) \
               and len(args[0].elts) == 6 and all(self.typeof(x) == "str" for x in args[0].elts):
                return "str", None, lambda: "(urlunparse %s)" % " ".join(X(x) for x in args[0].elts)
            c = self.spec.get("callees", {}).get(n)
            if c is not None:
                origin, argtys, rty, exc = c
                ok = (n in self.mod.funcs) if origin == "." else self.mod.imported_from(n, origin)
                if not ok: bad(e, "%s is not the function of %s" % (n, origin))
                if [self.typeof(a) for a in args] != argtys: bad(e, "argument types of %s" % n)
                return rty, exc, lambda: "(f_%s %s)" % (n.lstrip("_"), " ".join(X(a) for a in args))
            bad(e, "call of %s" % n)
        if isinstance(f, ast.Attribute):
            if e.keywords: bad(e, "keyword arguments")
            rt, m, r = self.typeof(f.value), f.attr, f.value
            if rt == "str":
                if m == "startswith" and len(args) == 1 and self.typeof(args[0]) == "str":
                    return "bool", None, lambda: "(prefixb %s %s)" % (X(args[0]), X(r))
                if m == "strip" and not args:
                    return "str", None, lambda: "(ustrip %s)" % X(r)
                if m == "split" and len(args) == 1 and self.one_char(args[0]) is not None:
                    return ("list", "str"), None, lambda: "(split_on %d%%N %s)" % (self.one_char(args[0]), X(r))
                if m == "encode" and len(args) == 1 and isinstance(args[0], ast.Constant) and args[0].value == "utf-8":
                    return "bytes", "UnicodeEncodeError", lambda: "(encode_utf8 %s)" % X(r)
            if rt == "dict" and m == "get" and args and self.typeof(args[0]) == "str":
                if len(args) == 1:
                    return ("opt", "str"), None, lambda: "(get_param %s %s)" % (X(args[0]), X(r))
                if len(args) == 2 and self.typeof(args[1]) == "str":
                    return "str", None, lambda: "(match get_param %s %s with Some x__ => x__ | None => %s end)" % (X(args[0]), X(r), X(args[1]))
            bad(e, "method call on %s" % (rt,))
        bad(e, "call target")

    def construct(self, rec, e):
        if e.args: bad(e, "positional constructor arguments")
        kw = {}
        for k in e.keywords:
            if k.arg in kw: bad(e, "repeated keyword")
            kw[k.arg] = k.value
        for k in kw:
            if k not in dict(rec.fields): bad(e, "%s(%s=...): not a modelled field" % (rec.pyname, k))
        out = []
        for name, ty in rec.fields:
            v = kw.get(name, rec.defaults.get(name))
            if v is None: bad(e, "%s(...) without %s" % (rec.pyname, name))
            if name not in kw and not isinstance(v, ast.Constant): bad(e, "default of %s.%s" % (rec.pyname, name))
            out.append(self.at(v, ty))
        return "(%s %s)" % (rec.ctor, " ".join(out))

    # ---- types
    def typeof(self, e):
        k = K(e)
        if k in self.subst: return self.subst[k][1]
        if self.intlit(e) is not None: return "int"
        if isinstance(e, ast.Constant):
            if isinstance(e.value, bool): return "bool"
            if isinstance(e.value, str): return "str"
            if e.value is None: return "none"
            bad(e, "constant")
        if isinstance(e, ast.Name):
            if e.id in self.env: return self.env[e.id]
            bad(e, "unknown name")
        if isinstance(e, ast.Attribute):
            tb = self.typeof(e.value)
            if (tb, e.attr) in LIB_ATTRS: return LIB_ATTRS[(tb, e.attr)][1]
            for rec in self.records.values():
                if rec.ty == tb and e.attr in dict(rec.fields): return dict(rec.fields)[e.attr]
            bad(e, "unknown attribute of %s" % (tb,))
        if isinstance(e, ast.JoinedStr): return "str"
        if isinstance(e, ast.Call): return self.lib_call(e)[0]
        if isinstance(e, ast.Dict) and not e.keys: return "dict"
        if isinstance(e, ast.Subscript):
            tv = self.typeof(e.value)
            if tv == "dict": return "str"
            if tv == "str" and isinstance(e.slice, ast.Slice): return "str"
            if tv == ("list", "str") and self.intlit(e.slice) == 0: return "str"
            bad(e, "subscript")
        if isinstance(e, (ast.Compare,)) or (isinstance(e, ast.UnaryOp) and isinstance(e.op, ast.Not)): return "bool"
        if isinstance(e, ast.BoolOp): return self.unify(e.values)
        if isinstance(e, ast.IfExp):
            nar = self.narrow_test(e.test)
            if nar is not None:
                ne, positive, _ = nar
                inner = self.typeof(ne)[1]
                tb = self.with_subst(K(ne), ("?", inner, "narrow", self.root(ne)), lambda: self.typeof(e.body if positive else e.orelse))
                to = self.typeof(e.orelse if positive else e.body)
                ts = [t for t in (tb, to) if t != "int"]
                if not ts: return "N"
                if any(t != ts[0] for t in ts): bad(e, "branches of different types")
                return ts[0]
            return self.unify([e.body, e.orelse])
        if isinstance(e, ast.BinOp):
            t = self.unify([e.left, e.right])
            if isinstance(e.op, ast.Add) and t in ("str", "N", "Z"): return t
            if isinstance(e.op, ast.Sub) and t == "Z": return t
            bad(e, "binary operator at type %s" % (t,))
        bad(e, "cannot type expression")

    # ---- truthiness
    def truthy_term(self, x, t):
        if t == "bool": return x
        if t in ("str", "bytes", "dict") or (isinstance(t, tuple) and t[0] == "list"):
            return "(match %s with [] => false | _ => true end)" % x
        if t == "N": return "(negb (N.eqb %s 0%%N))" % x
        if t == "Z": return "(negb (Z.eqb %s 0%%Z))" % x
        if isinstance(t, tuple) and t[0] == "opt":
            return "(match %s with Some t__ => %s | None => false end)" % (x, self.truthy_term("t__", t[1]))
        raise Untranslatable("truthiness of type %s" % (t,))

    def truthy(self, e):
        t = self.typeof(e)
        if t == "int": bad(e, "truthiness of a compile-time integer")
        return self.truthy_term(self.expr(e), t)

    def cond(self, e):
        if isinstance(e, ast.BoolOp):
            op = " && " if isinstance(e.op, ast.And) else " || "
            return "(" + op.join(self.cond(v) for v in e.values) + ")"
        if isinstance(e, ast.UnaryOp) and isinstance(e.op, ast.Not):
            return "(negb %s)" % self.cond(e.operand)
        if isinstance(e, ast.Compare): return self.expr(e)
        return self.truthy(e)

    def narrow_test(self, t):
        """`E is None` / `E is not None` with E narrowable -> (E, True if the test holds when E is Some, "is");
           `E` / `not E` -> (E, ..., "truthy")"""
        neg = False
        while isinstance(t, ast.UnaryOp) and isinstance(t.op, ast.Not):
            t, neg = t.operand, not neg
        if isinstance(t, ast.Compare) and len(t.ops) == 1 and isinstance(t.ops[0], (ast.Is, ast.IsNot)) \
           and isinstance(t.comparators[0], ast.Constant) and t.comparators[0].value is None and self.narrowable(t.left):
            return t.left, (isinstance(t.ops[0], ast.IsNot)) != neg, "is"
        if not isinstance(t, (ast.Compare, ast.BoolOp)) and self.narrowable(t):
            return t, not neg, "truthy"
        return None

    # ---- expressions
    def expr(self, e):
        k = K(e)
        if k in self.subst: return self.subst[k][0]
        if self.raising(e) is not None: bad(e, "an expression that can raise in a position that is not sequenced")
        if self.intlit(e) is not None: return "%d%%N" % self.intlit(e)
        if isinstance(e, ast.Constant):
            if isinstance(e.value, bool): return "true" if e.value else "false"
            if isinstance(e.value, str): return coq_str(e.value)
            if e.value is None: return "None"
            bad(e, "constant")
        if isinstance(e, ast.Name):
            if e.id not in self.env: bad(e, "unknown name")
            return V(e.id)
        if isinstance(e, ast.Attribute):
            tb = self.typeof(e.value)
            if (tb, e.attr) in LIB_ATTRS: return LIB_ATTRS[(tb, e.attr)][0].format(self.expr(e.value))
            for rec in self.records.values():
                if rec.ty == tb and e.attr in dict(rec.fields): return "(%s%s %s)" % (rec.prefix, e.attr, self.expr(e.value))
            bad(e, "unknown attribute")
        if isinstance(e, ast.JoinedStr):
            parts = []
            for v in e.values:
                if isinstance(v, ast.Constant): parts.append(coq_str(v.value))
                else:
                    if v.format_spec is not None or v.conversion != -1: bad(e, "format spec")
                    t = self.typeof(v.value)
                    if t == "str": parts.append(self.expr(v.value))
                    elif t in ("N", "int"): parts.append("(dec %s)" % self.num(v.value, "N"))
                    elif t == "Z": parts.append("(str_of_Z %s)" % self.expr(v.value))
                    else: bad(e, "f-string of type %s" % (t,))
            return "(" + " ++ ".join(parts) + ")" if parts else "[]"
        if isinstance(e, ast.Call): return self.lib_call(e)[2]()
        if isinstance(e, ast.Dict) and not e.keys: return "[]"
        if isinstance(e, ast.Subscript):
            tv, sl = self.typeof(e.value), e.slice
            if tv == "str" and isinstance(sl, ast.Slice) and sl.upper is None and sl.step is None and sl.lower is not None \
               and isinstance(sl.lower, ast.Constant) and self.intlit(sl.lower) is not None:
                return "(drop %d %s)" % (self.intlit(sl.lower), self.expr(e.value))
            if tv == ("list", "str") and self.intlit(sl) == 0 and isinstance(e.value, ast.Call) and isinstance(e.value.func, ast.Attribute) \
               and e.value.func.attr == "split":
                return "(hd [] %s)" % self.expr(e.value)
            bad(e, "subscript")
        if isinstance(e, ast.UnaryOp) and isinstance(e.op, ast.Not): return self.cond(e)
        if isinstance(e, ast.BoolOp):
            t = self.typeof(e)
            if t == "bool": return self.cond(e)
            if t != "str" or len(e.values) != 2: bad(e, "and/or at type %s" % (t,))
            a, b = self.expr(e.values[0]), self.expr(e.values[1])
            c = self.truthy_term(a, t)
            return "(if %s then %s else %s)" % ((c, a, b) if isinstance(e.op, ast.Or) else (c, b, a))
        if isinstance(e, ast.IfExp):
            t = self.typeof(e)
            nar = self.narrow_test(e.test)
            if nar is not None and nar[2] == "is":
                ne, positive, _ = nar
                v = self.fresh("n")
                some = self.with_subst(K(ne), (v, self.typeof(ne)[1], "narrow", self.root(ne)),
                                       lambda: self.at(e.body if positive else e.orelse, t))
                none = self.at(e.orelse if positive else e.body, t)
                return "(match %s with Some %s => %s | None => %s end)" % (self.expr(ne), v, some, none)
            return "(if %s then %s else %s)" % (self.cond(e.test), self.at(e.body, t), self.at(e.orelse, t))
        if isinstance(e, ast.BinOp):
            t = self.typeof(e)
            if isinstance(e.op, ast.Add):
                if t == "str": return "(%s ++ %s)" % (self.expr(e.left), self.expr(e.right))
                return "(%s + %s)%%%s" % (self.num(e.left, t), self.num(e.right, t), t)
            if isinstance(e.op, ast.Sub) and t == "Z": return "(%s - %s)%%Z" % (self.num(e.left, t), self.num(e.right, t))
            bad(e, "binary operator")
        if isinstance(e, ast.Compare):
            if len(e.ops) != 1: bad(e, "chained comparison")
            op, l, r = e.ops[0], e.left, e.comparators[0]
            if isinstance(op, (ast.Is, ast.IsNot)):
                t = self.typeof(l)
                if not (isinstance(r, ast.Constant) and r.value is None and isinstance(t, tuple) and t[0] == "opt"): bad(e, "is")
                x = "(match %s with None => true | Some _ => false end)" % self.expr(l)
                return x if isinstance(op, ast.Is) else "(negb %s)" % x
            if isinstance(op, (ast.In, ast.NotIn)):
                tr = self.typeof(r)
                if tr == "str" and self.one_char(l) is not None: x = "(mem %d%%N %s)" % (self.one_char(l), self.expr(r))
                elif tr == "dict" and self.typeof(l) == "str":
                    x = "(match get_param %s %s with Some _ => true | None => false end)" % (self.expr(l), self.expr(r))
                else: bad(e, "membership in %s" % (tr,))
                return x if isinstance(op, ast.In) else "(negb %s)" % x
            t = self.unify([l, r])
            if isinstance(op, (ast.Eq, ast.NotEq)):
                if t == "str": x = "(eqb %s %s)" % (self.expr(l), self.expr(r))
                elif t in ("N", "Z"): x = "(%s.eqb %s %s)" % (t, self.num(l, t), self.num(r, t))
                else: bad(e, "equality at type %s" % (t,))
                return x if isinstance(op, ast.Eq) else "(negb %s)" % x
            if t in ("N", "Z"):
                a, b = self.num(l, t), self.num(r, t)
                if isinstance(op, ast.Lt): return "(%s.ltb %s %s)" % (t, a, b)
                if isinstance(op, ast.Gt): return "(%s.ltb %s %s)" % (t, b, a)
                if isinstance(op, ast.LtE): return "(%s.leb %s %s)" % (t, a, b)
                if isinstance(op, ast.GtE): return "(%s.leb %s %s)" % (t, b, a)
            bad(e, "comparison at type %s" % (t,))
        bad(e, "expression")

    # ---- statements
    def terminates(self, stmts):
        if not stmts: return False
        s = stmts[-1]
        if isinstance(s, (ast.Return, ast.Raise, ast.Continue)): return True
        if isinstance(s, ast.If): return self.terminates(s.body) and self.terminates(s.orelse)
        return False

    def path(self, stmts, rest, k, kc):
        """the statements `stmts` followed by the rest of the enclosing block"""
        if self.terminates(stmts): return self.block(stmts, "FALLTHROUGH__", kc)
        after = self.without(self.assigned(stmts), lambda: self.block(rest, k, kc))
        return self.block(stmts, after, kc)

    def rest(self, name, rest, k, kc):
        """the rest of a block after a statement that (re)binds `name`"""
        return self.without({name} if name else set(), lambda: self.block(rest, k, kc))

    def wrap_ok(self, v):
        return "(Ok %s)" % v if self.may_raise else v

    def block(self, stmts, k, kc=None):
        if not stmts: return k
        s, rest = stmts[0], stmts[1:]
        if isinstance(s, ast.Expr) and isinstance(s.value, ast.Constant) and isinstance(s.value.value, str):
            return self.block(rest, k, kc)                                   # docstring
        if isinstance(s, ast.Pass): return self.block(rest, k, kc)
        if isinstance(s, ast.Expr):
            if isinstance(s.value, ast.Call) and self.raising(s.value) is not None:
                self.need_res(s)
                return self.seq([s.value], lambda: self.rest(None, rest, k, kc))   # a callee run for its exceptions only
            bad(s, "expression statement")
        if isinstance(s, ast.AnnAssign) and s.value is not None and isinstance(s.target, ast.Name):
            s = ast.Assign(targets=[s.target], value=s.value, lineno=s.lineno)
        if isinstance(s, ast.AugAssign) and isinstance(s.target, ast.Name) and s.target.id in self.env:
            s = ast.Assign(targets=[ast.Name(id=s.target.id, ctx=ast.Store())], lineno=s.lineno,
                           value=ast.BinOp(left=ast.Name(id=s.target.id, ctx=ast.Load()), op=s.op, right=s.value))
        if isinstance(s, ast.Assign):
            return self.assign(s, rest, k, kc, None)
        if isinstance(s, ast.Return):
            if s.value is None:
                if self.rtype != "unit": bad(s, "return without value")
                return self.wrap_ok("tt")
            return self.seq([s.value], lambda: self.wrap_ok(self.at(s.value, self.rtype)))
        if isinstance(s, ast.Raise):
            return self.raise_(s)
        if isinstance(s, ast.If):
            return self.if_(s, rest, k, kc)
        if isinstance(s, ast.Continue):
            if rest: bad(s, "code after continue")
            if kc is None: bad(s, "continue outside a loop")
            return kc
        if isinstance(s, ast.For):
            return self.for_(s, rest, k, kc)
        if isinstance(s, ast.Try):
            if len(s.handlers) != 1 or s.orelse or s.finalbody or len(s.body) != 1 or not isinstance(s.body[0], ast.Assign): bad(s, "try form")
            h = s.handlers[0]
            if not (isinstance(h.type, ast.Name) and h.type.id in EXC_PARENT): bad(s, "exception class of the handler")
            if not self.terminates(h.body): bad(s, "a handler that falls through")
            def handler():
                if h.name: self.exc_names.add(h.name)
                try: return self.without(set(), lambda: self.block(h.body, "FALLTHROUGH__", kc))
                finally: self.exc_names.discard(h.name)
            return self.assign(s.body[0], rest, k, kc, (h.type.id, handler))
        bad(s, "statement")

    def need_res(self, node):
        if not self.may_raise: bad(node, "an exception in a function declared total")

    def assign(self, s, rest, k, kc, handler):
        if len(s.targets) != 1: bad(s, "multiple targets")
        t, val = s.targets[0], s.value
        if isinstance(t, ast.Name):
            probe = []
            self.collect(val, False, probe)
            if probe: self.need_res(s)
            if handler is not None and not probe: bad(s, "try around an expression that cannot raise")
            if t.id in self.exc_names: bad(s, "assignment to the exception variable")
            def body():
                ty = self.typeof(val)
                if ty == "int": ty = "N"
                if ty == "none": bad(s, "assignment of None to an untyped variable")
                if t.id in self.env and self.env[t.id] != ty: bad(s, "%s changes type from %s to %s" % (t.id, self.env[t.id], ty))
                x = self.at(val, ty)
                self.env[t.id] = ty
                return "(let %s := %s in %s)" % (V(t.id), x, self.rest(t.id, rest, k, kc))
            return self.seq([val], body, handler)
        # a, b = X.split(c, 1)
        if isinstance(t, ast.Tuple) and len(t.elts) == 2 and all(isinstance(x, ast.Name) for x in t.elts) and handler is None \
           and isinstance(val, ast.Call) and isinstance(val.func, ast.Attribute) and val.func.attr == "split" and len(val.args) == 2 \
           and not val.keywords and self.one_char(val.args[0]) is not None and self.intlit(val.args[1]) == 1 \
           and isinstance(val.args[1], ast.Constant) and self.typeof(val.func.value) == "str":
            self.need_res(s)
            a, b = t.elts[0].id, t.elts[1].id
            if a == b: bad(s, "unpacking into the same name twice")
            def body():
                x = self.expr(val.func.value)
                for n in (a, b):
                    if self.env.get(n, "str") != "str": bad(s, "%s changes type" % n)
                    self.env[n] = "str"
                inner = self.without({a, b}, lambda: self.block(rest, k, kc))
                return ("(match break_at %d%%N %s with Some (%s, %s) => %s | None => Err (lit \"ValueError\") (lit \"not enough values to unpack (expected 2, got 1)\") end)"
                        % (self.one_char(val.args[0]), x, V(a), V(b), inner))
            return self.seq([val.func.value], body)
        # d[k] = v
        if isinstance(t, ast.Subscript) and isinstance(t.value, ast.Name) and self.env.get(t.value.id) == "dict" and handler is None \
           and not isinstance(t.slice, ast.Slice):
            d = t.value.id
            def body():
                if self.typeof(t.slice) != "str" or self.typeof(val) != "str": bad(s, "dict[str, str] item types")
                return "(let %s := set_param %s %s %s in %s)" % (V(d), self.expr(t.slice), self.expr(val), V(d), self.rest(d, rest, k, kc))
            probe = []
            for x in (val, t.slice): self.collect(x, False, probe)      # Python evaluates the right-hand side first
            if probe: self.need_res(s)
            return self.seq([val, t.slice], body)
        bad(s, "assignment target")

    def raise_(self, s):
        self.need_res(s)
        if s.cause is not None and not (isinstance(s.cause, ast.Name) and s.cause.id in self.exc_names): bad(s, "raise ... from")
        e = s.exc
        if not (isinstance(e, ast.Call) and isinstance(e.func, ast.Name) and e.func.id == "ValueError" and "ValueError" not in self.env
                and len(e.args) == 1 and not e.keywords): bad(s, "raise")
        msg = e.args[0]
        if self.typeof(msg) != "str": bad(s, "exception message")
        first = msg.values[0].value if isinstance(msg, ast.JoinedStr) and msg.values and isinstance(msg.values[0], ast.Constant) else \
                (msg.value if isinstance(msg, ast.Constant) else "")
        kind = next((v for p, v in self.spec.get("kinds", {}).items() if first.startswith(p)), self.spec.get("default_kind", "ValueError"))
        return self.seq([msg], lambda: "(Err %s %s)" % (coq_str(kind), self.expr(msg)))

    def if_(self, s, rest, k, kc):
        nar = self.narrow_test(s.test)
        if nar is None:
            return self.seq([s.test], lambda: "(if %s then %s else %s)" % (
                self.cond(s.test), self.without(set(), lambda: self.path(s.body, rest, k, kc)),
                self.without(set(), lambda: self.path(s.orelse, rest, k, kc))))
        ne, positive, how = nar
        yes, no = (s.body, s.orelse) if positive else (s.orelse, s.body)      # `yes` runs when E is Some (and truthy)
        inner = self.typeof(ne)[1]
        v = self.fresh("n")
        def body():
            x = self.expr(ne)
            no_t = self.without(set(), lambda: self.path(no, rest, k, kc))
            yes_t = self.with_subst(K(ne), (v, inner, "narrow", self.root(ne)), lambda: self.without(set(), lambda: self.path(yes, rest, k, kc)))
            if how == "is":
                return "(match %s with Some %s => %s | None => %s end)" % (x, v, yes_t, no_t)
            no_some = self.with_subst(K(ne), (v, inner, "narrow", self.root(ne)), lambda: self.without(set(), lambda: self.path(no, rest, k, kc)))
            return "(match %s with Some %s => (if %s then %s else %s) | None => %s end)" % (x, v, self.truthy_term(v, inner), yes_t, no_some, no_t)
        return self.seq([ne], body)

    def for_(self, s, rest, k, kc):
        if s.orelse or not isinstance(s.target, ast.Name): bad(s, "for form")
        ti = self.typeof(s.iter)
        if not (isinstance(ti, tuple) and ti[0] == "list"): bad(s, "iteration over %s" % (ti,))
        var = s.target.id
        changed = self.assigned([s])
        accs = [a for a in self.spec.get("accs", []) if a in changed]
        for a in accs:
            if a not in self.env: bad(s, "accumulator %s is not initialised before the loop" % a)
        def body():
            lid = self.fresh("loop")
            it = self.expr(s.iter)
            before = dict(self.env)
            self.env[var] = ti[1]
            rec = "(%s l'__%s)" % (lid, "".join(" " + V(a) for a in accs))
            saved, self.subst = self.subst, {}
            try:
                b = self.block(s.body, rec, rec)
            finally:
                self.subst = saved
            # names first assigned inside the loop are not visible after it (they may be unbound in Python too)
            for n in list(self.env):
                if n not in before: del self.env[n]
            for n in changed - set(accs):
                if n in before: bad(s, "the loop assigns %s, which is not a declared accumulator" % n)
            after = self.without(changed, lambda: self.block(rest, k, kc))
            binders = "".join(" (%s : %s)" % (V(a), coq_type(self.env[a])) for a in accs)
            return ("((fix %s (l__ : list %s)%s {struct l__} := match l__ with [] => %s | %s :: l'__ => %s end) %s%s)"
                    % (lid, coq_type(ti[1]), binders, after, V(var), b, it, "".join(" " + V(a) for a in accs)))
        return self.seq([s.iter], body)

    # ---- the definition
    def ann_type(self, a):
        if a is None: raise Untranslatable("missing annotation")
        if isinstance(a, ast.Constant) and a.value is None: return "unit"
        txt = a.value if isinstance(a, ast.Constant) and isinstance(a.value, str) else ast.unparse(a)
        if txt in ("str", "bool"): return txt
        if txt == "dict[str, str]": return "dict"
        if txt in self.records: return self.records[txt].ty
        raise Untranslatable("annotation %s" % txt)

    def translate(self):
        fn = self.node
        a = fn.args
        if a.vararg or a.kwarg or a.kwonlyargs or a.posonlyargs or a.defaults or a.kw_defaults: raise Untranslatable("parameter list")
        decos = [ast.unparse(d) for d in fn.decorator_list]
        if decos != self.spec.get("decorators", []): raise Untranslatable("decorators %s" % decos)
        params = []
        for i, p in enumerate(a.args):
            if i == 0 and p.arg == "cls" and "classmethod" in decos: continue
            if i == 0 and p.arg == "self" and self.cls and decos in ([], ["property"]):
                params.append((p.arg, self.records[self.cls].ty)); continue
            params.append((p.arg, self.ann_type(p.annotation)))
        for p, t in params: self.env[p] = t
        reserved = set(BUILTINS) | set(LIB_IMPORTS) | set(self.consts) | set(self.records) | set(self.spec.get("callees", {})) | {"cls"}
        clash = (self.assigned(fn.body) | {p for p, _ in params}) & reserved
        if clash: raise Untranslatable("local names %s hide names the translation gives a meaning to" % sorted(clash))
        for n in ast.walk(fn):
            if isinstance(n, (ast.Global, ast.Nonlocal, ast.Lambda, ast.FunctionDef, ast.AsyncFunctionDef, ast.ClassDef, ast.NamedExpr,
                              ast.ListComp, ast.DictComp, ast.SetComp, ast.GeneratorExp, ast.Yield, ast.YieldFrom, ast.Await,
                              ast.Import, ast.ImportFrom, ast.Delete, ast.With, ast.While, ast.Break)) and n is not fn:
                raise Untranslatable("%s inside the function" % type(n).__name__)
        self.rtype = self.ann_type(fn.returns)
        end = self.wrap_ok("tt") if self.rtype == "unit" else "FALLTHROUGH__"
        body = self.block(fn.body, end)
        if "FALLTHROUGH__" in body: raise Untranslatable("control can fall off the end")
        cps = "".join(" (f_%s : %s -> %s)" % (n.lstrip("_"), " -> ".join(coq_type(t) for t in c[1]),
                                               ("res %s" % coq_type(c[2])) if c[3] else coq_type(c[2]))
                      for n, c in self.spec.get("callees", {}).items())
        ps = "".join(" (%s : %s)" % (V(p), coq_type(t)) for p, t in params)
        rt = coq_type(self.rtype)
        return "Definition %s%s%s : %s :=\n  %s.\n" % (self.spec["name"], cps, ps, "res %s" % rt if self.may_raise else rt, body)

# ------------------------------------------------------------------ T5: the functions
# callees: python name -> (module it must come from ("." = this module), argument types, result type, exception class or None)
PARSE_URL = ("utils.url", ["str"], "purl", "ValueError")
SPECS = [
    dict(file="utils/url.py", cls=None, func="parse_url", name="gen_parse_url", may_raise=True,
         callees={"urlparse": ("urllib.parse", ["str"], "urlparsed", "ValueError")},
         kinds={"URL cannot be empty": "empty", "URL missing scheme": "no_scheme", "Invalid scheme": "bad_scheme",
                "URL missing hostname": "no_host", "URL must not contain userinfo": "userinfo", "URL must not contain fragment": "fragment"}),
    dict(file="utils/url.py", cls=None, func="validate_url", name="gen_validate_url", may_raise=True,
         callees={"parse_url": (".", ["str"], "purl", "ValueError")}, kinds={"URL too long": "too_long"}),
    dict(file="protocol/request.py", cls="GeminiRequest", func="from_line", name="gen_gemini_from_line", may_raise=True,
         decorators=["classmethod"], classmethod=True,
         callees={"validate_url": ("utils.url", ["str"], "unit", "ValueError"), "parse_url": PARSE_URL}),
    dict(file="protocol/request.py", cls=None, func="_parse_titan_params", name="gen_parse_titan_params", may_raise=True, accs=["params"]),
    dict(file="protocol/request.py", cls="TitanRequest", func="from_line", name="gen_titan_from_line", may_raise=True,
         decorators=["classmethod"], classmethod=True, default_kind="titan",
         callees={"_parse_titan_params": (".", ["str"], "dict", "ValueError"), "parse_url": PARSE_URL}),
    dict(file="protocol/request.py", cls="TitanRequest", func="normalized_url", name="gen_titan_normalized_url", may_raise=False,
         decorators=["property"]),
    dict(file="protocol/request.py", cls="TitanRequest", func="is_delete", name="gen_titan_is_delete", may_raise=False),
]

HEADER = """(* GENERATED by /verif/translate/py2coq_url.py from /repo/src/nauyaca/utils/url.py and protocol/request.py - do not edit *)
From Coq Require Import List NArith ZArith Bool.
From NV Require Import Prelude.Str Prelude.Res Prelude.Utf8 Prelude.Repr Model.Url Model.Titan Equiv.UrlGlue.
Import ListNotations.
Open Scope list_scope.

"""

def main(out_path):
    consts = int_consts("protocol/constants.py")
    mods = {}
    def module(rel):
        if rel not in mods: mods[rel] = Module(rel)
        return mods[rel]
    url_mod, req_mod = module("utils/url.py"), module("protocol/request.py")
    for n, m in LIB_IMPORTS.items():
        if not url_mod.imported_from(n, m): raise Untranslatable("utils/url.py: %s is not imported from %s" % (n, m))
    records = {"ParsedURL": Record("ParsedURL", url_mod.class_fields("ParsedURL")),
               "GeminiRequest": Record("GeminiRequest", req_mod.class_fields("GeminiRequest")),
               "TitanRequest": Record("TitanRequest", req_mod.class_fields("TitanRequest"))}
    if ast.unparse(url_mod.classes["ParsedURL"].bases[0]) != "NamedTuple" or records["ParsedURL"].unmodelled:
        raise Untranslatable("ParsedURL must be a NamedTuple with exactly the modelled fields")
    for m in (url_mod, req_mod):
        for b in BUILTINS:
            if m.defines(b): raise Untranslatable("%s redefines the builtin %s" % (m.rel, b))
    chunks = [HEADER]
    for spec in SPECS:
        spec = dict(spec)
        mod = module(spec["file"])
        spec["records_from"] = "utils.url"
        fn = copy.deepcopy(find_function(mod.tree, spec["cls"], spec["func"]))
        if spec["cls"] is None and spec["func"] not in mod.funcs: raise Untranslatable("%s is not a module-level function" % spec["func"])
        try:
            chunks.append(UFn(spec, fn, mod, consts, records, spec["cls"]).translate())
        except Untranslatable as e:
            raise Untranslatable("%s:%s.%s: %s" % (spec["file"], spec["cls"], spec["func"], e))
        chunks.append("\n")
    open(out_path, "w").write("".join(chunks))
    print("py2coq_url: %d functions translated" % len(SPECS))

if __name__ == "__main__":
    try:
        main(sys.argv[1] if len(sys.argv) > 1 else os.path.join(os.path.dirname(os.path.dirname(os.path.abspath(__file__))), "coq", "Gen", "UrlGen.v"))
    except Untranslatable as e:
        print("UNTRANSLATABLE:", e); sys.exit(2)
