#!/usr/bin/env python3
"""py2coq_reload: translator for the `nauyaca serve --reload` path -> coq/Gen/ReloadGen.v  (property C09, last sentence:
"the policy as written in a TOML configuration file through to the running server").

With --reload the parent process starts no server.  It filters the reload flags out of sys.argv[2:] and hands the rest
to the supervisor, which starts `python -m nauyaca serve <rest>` as a child; an argument lost on that path (`--config
file.toml`) is a policy lost.  Regenerated from the current source text:

  __main__.py  serve      the filter.  Located as: the ONLY `for <x> in sys.argv[<n>:]` of `serve`, a direct statement of the
                          `if reload:` branch (reload: the parameter declared with "--reload"); its state variables (every
                          name the loop body assigns or appends to) must each be initialised, by a constant, in the
                          statements directly before the loop (`server_args: list[str] = ["serve"]`, `skip_next = False`;
                          `import sys` may stand between them).  That slice becomes
                            gen_server_args (argv_tail : list str) : list str
                          a fold_left over the state (booleans first, then the list) - `continue` ends the iteration with
                          the state as it is - and gen_argv_lower (the <n> of the slice of sys.argv),
                            gen_server_args_of_argv argv := gen_server_args (skipn gen_argv_lower argv).
                          gen_declared_reload_flags: every option name declared for the parameters reload / reload_dir /
                          reload_ext, with "takes a value" (annotation other than bool).
  server/reload/supervisor.py  Supervisor._build_command ->
                            gen_build_command (exe : str) (server_args : list str) : list str
                          (sys.executable = exe, self.server_args = server_args).

Subset (anything else: Untranslatable, exit 2)
  loop body    if / elif / else, `continue` (last statement of its block), `x = True|False`, `xs.append(e)`, pass;
               conditions: a boolean state variable, not / and / or, `e == c`, `e != c`, `e.startswith(c)`,
               `e.endswith(c)`, `e in (c1, c2, ..)` with e the loop variable or a string constant, c string constants.
  _build_command  `x = [..]`, `x.extend(e)` / `x += e` / `x.append(e)`, `a + b` on lists, `[.., *xs]`, return; a docstring.
               A generator or comprehension with a condition is refused.

Structural checks, emitted as boolean constants that Equiv/EquivReload.v proves `= true` (a change breaks a named lemma)
  serve_passes_filtered_args        `serve` calls run_with_reload exactly once, with exactly the filtered list variable as
                                    its second argument; the variable occurs nowhere else in `serve` outside the slice
                                    (so nothing reads, aliases or changes it between the loop and the call), the boolean
                                    state variables occur nowhere outside it
  run_with_reload_resolves          the name is imported from .server.reload, whose __init__ takes it from .supervisor; it
                                    is not rebound in __main__.py
  run_with_reload_passes_unchanged  run_with_reload's second parameter occurs once in its body: as the second argument of
                                    the one `Supervisor(..)` call, whose result's `.run()` is called
  init_stores_unchanged             Supervisor.__init__: one top-level `self.server_args = <second parameter>`, the
                                    parameter occurs nowhere else in __init__
  server_args_assigned_once         in the whole file the attribute `server_args` is written once (that statement) and read
                                    only in _build_command; no setattr / __dict__ / vars / __setattr__ / delattr
  run_calls_start_server            Supervisor.run calls self._start_server()
  popen_gets_build_command          _start_server: `cmd = self._build_command()` (or the call in place) is the first
                                    positional argument of the file's only subprocess.Popen call; `cmd` is bound once and
                                    otherwise only read by `" ".join(cmd)` / len / str / repr / list; _build_command is
                                    defined once and never assigned; no * / ** arguments
  popen_no_shell                    no `shell=` other than the constant False, no `executable=`
  popen_inherits_env_cwd            no env / cwd / preexec_fn / user / group / extra_groups / umask / pass_fds keyword:
                                    the child sees the parent's environment and working directory (relative --config paths)

TRUSTED (everything else is read from the AST)
  FILES / NAMES   where serve, Supervisor, run_with_reload live; the parameter names reload / reload_dir / reload_ext.
  sys.argv        is the process's argument vector and sys.argv[1] is the sub-command name "serve" whenever `serve` runs
                  (the Typer app has no callback, hence no global options before the sub-command); `sys` is the module
                  (checked: only ever bound by `import sys`, sys.argv never assigned in __main__.py).
  typer           binds `reload` to the presence of --reload.  What click itself makes of the argument list (which tokens
                  it takes as option values) is NOT modelled: the filter works on the raw tokens and so does the model.
  Not modelled    the statements of the `if reload:` branch outside the slice (document root / watch directories: they
                  can only end the process or bind other locals - checked: they do not mention the state variables),
                  the file watcher, restarts, signal handling, what subprocess.Popen does with a list (execvp of
                  its elements, no shell), the order of evaluation inside typer before `serve` runs."""
import ast, sys, os
sys.path.insert(0, os.path.dirname(os.path.abspath(__file__)))
import py2coq
from py2coq import Fn, Untranslatable, bad, coq_str, SRC

# ------------------------------------------------------------------ trusted tables
MAIN_FILE, SERVE_FUNC = "__main__.py", "serve"
RELOAD_PARAMS = ["reload", "reload_dir", "reload_ext"]
PKG_INIT, PKG_MODULE = "server/reload/__init__.py", "server.reload"
SUP_FILE, SUP_CLASS, SUP_ENTRY, SUP_MODULE = "server/reload/supervisor.py", "Supervisor", "run_with_reload", "supervisor"
ATTR = "server_args"
READ_ONLY_CALLS = {"len", "str", "repr", "list", "tuple"}
POPEN_SHELL = {"shell", "executable"}
POPEN_ENV = {"env", "cwd", "preexec_fn", "user", "group", "extra_groups", "umask", "pass_fds"}
REFLECTION = {"setattr", "delattr", "vars", "__dict__", "__setattr__", "__delattr__", "__getattribute__", "globals", "locals", "exec", "eval"}
COQ_RESERVED = {"end", "fun", "fix", "let", "match", "then", "forall", "exists", "Type", "Set", "Prop", "cofix", "at", "using", "where", "struct",
                "return", "as", "in", "if", "else", "with", "for", "tt", "true", "false", "None", "Some", "nil", "cons", "fst", "snd", "map",
                "unit", "bool", "list", "option", "str", "lit", "eqb", "prefixb", "suffixb", "existsb", "negb", "fold_left", "skipn", "app",
                "exe", "argv_tail", "argv"}

def parse(rel):
    p = os.path.join(SRC, rel)
    return ast.parse(open(p).read(), p)

def names_in(node, name):
    return [n for n in ast.walk(node) if isinstance(n, ast.Name) and n.id == name]

def is_self_attr(e, attr):
    return isinstance(e, ast.Attribute) and e.attr == attr and isinstance(e.value, ast.Name) and e.value.id == "self"

def check_ident(node, name):
    if name in COQ_RESERVED or name.endswith("__") or name.startswith("gen_") or not name.isidentifier() or not name.isascii():
        bad(node, "local name %s clashes with the generated vocabulary" % name)

# ------------------------------------------------------------------ statements
class R(Fn):
    """py2coq.Fn restricted to the statement forms listed in the docstring, with typed checks the base class leaves to coqc"""
    ALLOWED_LOOP = (ast.If, ast.Continue, ast.Assign, ast.Expr, ast.Pass)

    def __init__(self, spec, node, mode):
        super().__init__(spec, node)
        self.mode = mode                   # "loop" | "fn"

    def str_const(self, e):
        return isinstance(e, ast.Constant) and isinstance(e.value, str)

    def typeof(self, e):
        if isinstance(e, ast.List) and any(isinstance(x, ast.Starred) for x in e.elts): return ("list", "str")
        if isinstance(e, ast.BoolOp): return "bool"
        return super().typeof(e)

    def expr(self, e):
        if isinstance(e, ast.Call):
            f = e.func
            if not (isinstance(f, ast.Attribute) and f.attr in ("startswith", "endswith")): bad(e, "call")
            if e.keywords or len(e.args) != 1 or not self.str_const(e.args[0]): bad(e, "startswith / endswith take one string constant here")
            if self.typeof(f.value) != "str": bad(e, "startswith / endswith on a value that is not a str")
        if isinstance(e, ast.Compare):
            if len(e.ops) != 1: bad(e, "chained comparison")
            op, l, r = e.ops[0], e.left, e.comparators[0]
            if isinstance(op, (ast.Eq, ast.NotEq)):
                if self.typeof(l) != "str" or self.typeof(r) != "str": bad(e, "== is translated on strings only")
            elif isinstance(op, (ast.In, ast.NotIn)):
                if not (isinstance(r, (ast.Tuple, ast.List)) and r.elts and all(self.str_const(x) for x in r.elts) and self.typeof(l) == "str"):
                    bad(e, "`in` is translated for a str in a display of string constants only")
            else: bad(e, "comparison")
        if isinstance(e, ast.List) and any(isinstance(x, ast.Starred) for x in e.elts):
            parts, cur = [], []
            for x in e.elts:
                if isinstance(x, ast.Starred):
                    if self.typeof(x.value) != ("list", "str"): bad(e, "* of a value that is not a list of str")
                    if cur: parts.append("[" + "; ".join(cur) + "]"); cur = []
                    parts.append(self.expr(x.value))
                else:
                    if self.typeof(x) != "str": bad(e, "list element that is not a str")
                    cur.append(self.expr(x))
            if cur: parts.append("[" + "; ".join(cur) + "]")
            return "(" + " ++ ".join(parts) + ")"
        if isinstance(e, ast.List):
            for x in e.elts:
                if self.typeof(x) != "str": bad(e, "list element that is not a str")
        if isinstance(e, ast.BinOp):
            if not isinstance(e.op, ast.Add) or self.typeof(e.left) != ("list", "str") or self.typeof(e.right) != ("list", "str"):
                bad(e, "only + on lists of str")
        if isinstance(e, (ast.Subscript, ast.JoinedStr, ast.IfExp, ast.Await)): bad(e, "expression")
        return super().expr(e)

    def cond(self, e):
        if isinstance(e, ast.Name) and self.typeof(e) != "bool": bad(e, "truth value of a non-boolean")
        if not isinstance(e, (ast.Name, ast.BoolOp, ast.UnaryOp, ast.Compare, ast.Call)): bad(e, "condition")
        return super().cond(e)

    def block(self, stmts, k, kc=None):
        if not stmts: return k
        s, rest = stmts[0], stmts[1:]
        if self.mode == "loop" and not isinstance(s, self.ALLOWED_LOOP): bad(s, "statement form inside the filter loop")
        if isinstance(s, ast.AnnAssign):
            if s.value is None or not isinstance(s.target, ast.Name): bad(s, "annotation")
            s = ast.copy_location(ast.Assign(targets=[s.target], value=s.value), s)
        if isinstance(s, ast.Assign):
            if len(s.targets) != 1 or not isinstance(s.targets[0], ast.Name): bad(s, "assignment target")
            name = s.targets[0].id
            check_ident(s, name)
            if self.mode == "fn" and name in ("server_args", "sys", "self"): bad(s, "local name %s shadows an input" % name)
            t = self.typeof(s.value)
            if self.mode == "loop":
                if self.env.get(name) != "bool" or not (isinstance(s.value, ast.Constant) and isinstance(s.value.value, bool)):
                    bad(s, "inside the loop only a boolean state variable may be assigned, a constant")
            else:
                if name in self.env and self.env[name] != t: bad(s, "rebinding at another type")
                if t != ("list", "str") and t != "str": bad(s, "local of type %s" % (t,))
            self.env[name] = t
            return "(let %s := %s in %s)" % (name, self.expr(s.value), self.block(rest, k, kc))
        if isinstance(s, ast.AugAssign):
            if self.mode == "loop" or not (isinstance(s.target, ast.Name) and isinstance(s.op, ast.Add) and self.env.get(s.target.id) == ("list", "str")
                                           and self.typeof(s.value) == ("list", "str")):
                bad(s, "augmented assignment")
            return "(let %s := (%s ++ %s) in %s)" % (s.target.id, s.target.id, self.expr(s.value), self.block(rest, k, kc))
        if isinstance(s, ast.Expr):
            v = s.value
            if isinstance(v, ast.Constant) and isinstance(v.value, str): return self.block(rest, k, kc)
            if isinstance(v, ast.Call) and isinstance(v.func, ast.Attribute) and isinstance(v.func.value, ast.Name) and not v.keywords and len(v.args) == 1 \
               and self.env.get(v.func.value.id) == ("list", "str"):
                name, a = v.func.value.id, v.args[0]
                if v.func.attr == "append":
                    if self.typeof(a) != "str": bad(s, "append of a value that is not a str")
                    return "(let %s := %s ++ [%s] in %s)" % (name, name, self.expr(a), self.block(rest, k, kc))
                if v.func.attr == "extend" and self.mode == "fn":
                    if isinstance(a, (ast.GeneratorExp, ast.ListComp, ast.SetComp, ast.DictComp)): bad(s, "extend by a generator / comprehension")
                    if self.typeof(a) != ("list", "str"): bad(s, "extend by a value that is not a list of str")
                    return "(let %s := %s ++ %s in %s)" % (name, name, self.expr(a), self.block(rest, k, kc))
            bad(s, "expression statement")
        if isinstance(s, ast.Return):
            if self.mode == "loop" or s.value is None or self.typeof(s.value) != ("list", "str"): bad(s, "return")
            if rest: bad(s, "code after return")
            return self.expr(s.value)
        if isinstance(s, (ast.If, ast.Continue, ast.Pass)):
            if isinstance(s, ast.If) and self.mode != "loop": bad(s, "statement")
            return super().block(stmts, k, kc)
        bad(s, "statement")

# ------------------------------------------------------------------ (a) the filter
def option_names(default):
    """typer.Option(<default>, "--a", "-b", ...): the declared names"""
    if not (isinstance(default, ast.Call) and ast.unparse(default.func) == "typer.Option"): return None
    out = []
    for a in default.args[1:]:
        if not (isinstance(a, ast.Constant) and isinstance(a.value, str)): return None
        out.append(a.value)
    return out

def locate_filter(tree):
    serve = [n for n in tree.body if isinstance(n, ast.FunctionDef) and n.name == SERVE_FUNC]
    if len(serve) != 1: raise Untranslatable("%s: expected one module-level def %s" % (MAIN_FILE, SERVE_FUNC))
    serve = serve[0]
    if not any(ast.unparse(d) in ("app.command()", "app.command('serve')") for d in serve.decorator_list):
        raise Untranslatable("%s is not registered with @app.command()" % SERVE_FUNC)
    a = serve.args
    if a.vararg or a.kwarg or a.posonlyargs or a.kwonlyargs or len(a.defaults) != len(a.args): raise Untranslatable("signature of %s" % SERVE_FUNC)
    params = {p.arg: (p.annotation, d) for p, d in zip(a.args, a.defaults)}
    declared = []
    for p in RELOAD_PARAMS:
        if p not in params: raise Untranslatable("%s has no parameter %s" % (SERVE_FUNC, p))
        names = option_names(params[p][1])
        if not names: raise Untranslatable("parameter %s is not declared by typer.Option(default, names..)" % p)
        for n in names:
            for part in n.split("/"):      # "--x/--no-x" declares two names
                declared.append((part, ast.unparse(params[p][0]) != "bool"))
    # other parameters must not declare a name in the --reload family (the filter would see them)
    for p, (_, d) in params.items():
        if p in RELOAD_PARAMS: continue
        for n in option_names(d) or []:
            if any(part == f or part.startswith(f + "=") for part in n.split("/") for f, _ in declared):
                raise Untranslatable("parameter %s re-declares a reload flag" % p)
    argv_uses = [n for n in ast.walk(serve) if isinstance(n, ast.Attribute) and n.attr == "argv"]
    loops = [n for n in ast.walk(serve) if isinstance(n, (ast.For, ast.AsyncFor)) and any(isinstance(x, ast.Attribute) and x.attr == "argv" for x in ast.walk(n.iter))]
    if len(loops) != 1 or len(argv_uses) != 1: raise Untranslatable("%s: expected exactly one use of sys.argv, as the iterable of one for loop" % SERVE_FUNC)
    loop = loops[0]
    it = loop.iter
    if not (isinstance(loop, ast.For) and isinstance(it, ast.Subscript) and ast.unparse(it.value) == "sys.argv" and isinstance(it.slice, ast.Slice)
            and it.slice.upper is None and it.slice.step is None and isinstance(it.slice.lower, ast.Constant)
            and type(it.slice.lower.value) is int and it.slice.lower.value >= 0):
        raise Untranslatable("the loop does not iterate over sys.argv[<n>:] (line %d)" % loop.lineno)
    if loop.orelse or not isinstance(loop.target, ast.Name): raise Untranslatable("form of the for loop (line %d)" % loop.lineno)
    # the enclosing block: `if reload:` directly in serve
    guard = [s for s in serve.body if isinstance(s, ast.If) and loop in s.body]
    if len(guard) != 1 or not (isinstance(guard[0].test, ast.Name) and guard[0].test.id == RELOAD_PARAMS[0]):
        raise Untranslatable("the filter loop is not a direct statement of the `if %s:` branch of %s" % (RELOAD_PARAMS[0], SERVE_FUNC))
    if names_in(serve, RELOAD_PARAMS[0]) and any(isinstance(n.ctx, ast.Store) for n in names_in(serve, RELOAD_PARAMS[0])):
        raise Untranslatable("parameter %s is rebound" % RELOAD_PARAMS[0])
    blk = guard[0].body
    li = blk.index(loop)
    # `sys` is the module
    for n in ast.walk(tree):
        if isinstance(n, ast.Name) and n.id == "sys" and isinstance(n.ctx, (ast.Store, ast.Del)): raise Untranslatable("`sys` is rebound")
        if isinstance(n, ast.Attribute) and n.attr == "argv" and isinstance(n.ctx, (ast.Store, ast.Del)): raise Untranslatable("sys.argv is assigned")
        if isinstance(n, (ast.Import, ast.ImportFrom)):
            for al in n.names:
                if (al.asname or al.name.split(".")[0]) == "sys" and not (isinstance(n, ast.Import) and al.name == "sys" and al.asname is None):
                    raise Untranslatable("`sys` is bound to something other than the module")
        if isinstance(n, (ast.FunctionDef, ast.AsyncFunctionDef, ast.Lambda)):
            aa = n.args
            if any(x.arg == "sys" for x in aa.args + aa.kwonlyargs + aa.posonlyargs + [y for y in (aa.vararg, aa.kwarg) if y]): raise Untranslatable("`sys` is a parameter")
    imported = any(isinstance(n, ast.Import) and any(al.name == "sys" for al in n.names) for n in list(tree.body) + blk[:li])
    if not imported: raise Untranslatable("`import sys` not found at module level or before the loop")
    # state variables and their initialisers
    state = []
    for n in ast.walk(loop):
        if n is loop.target: continue
        if isinstance(n, ast.Name) and isinstance(n.ctx, (ast.Store, ast.Del)) and n.id not in state: state.append(n.id)
        if isinstance(n, ast.Call) and isinstance(n.func, ast.Attribute) and isinstance(n.func.value, ast.Name) and n.func.value.id != loop.target.id \
           and n.func.value.id not in state:
            state.append(n.func.value.id)
    if loop.target.id in state: raise Untranslatable("the loop variable is assigned in the loop")
    inits, i0 = {}, li
    j = li - 1
    while j >= 0:
        s = blk[j]
        if isinstance(s, ast.Import) and [al.name for al in s.names] == ["sys"] and s.names[0].asname is None:
            j -= 1; continue
        tgt = s.targets[0] if isinstance(s, ast.Assign) and len(s.targets) == 1 else (s.target if isinstance(s, ast.AnnAssign) and s.value is not None else None)
        if isinstance(tgt, ast.Name) and tgt.id in state and tgt.id not in inits:
            v = s.value
            if isinstance(v, ast.Constant) and isinstance(v.value, bool): inits[tgt.id] = ("bool", "true" if v.value else "false")
            elif isinstance(v, ast.List) and all(isinstance(x, ast.Constant) and isinstance(x.value, str) for x in v.elts):
                inits[tgt.id] = (("list", "str"), "[" + "; ".join(coq_str(x.value) for x in v.elts) + "]")
            else: raise Untranslatable("initial value of %s is not a constant (line %d)" % (tgt.id, s.lineno))
            i0 = j; j -= 1; continue
        break
    missing = [x for x in state if x not in inits]
    if missing: raise Untranslatable("state variable(s) %s of the filter loop are not initialised by a constant directly before it" % ", ".join(missing))
    lists = [x for x in state if inits[x][0] == ("list", "str")]
    if len(lists) != 1: raise Untranslatable("expected exactly one list built by the loop, found %s" % lists)
    for x in state + [loop.target.id]: check_ident(loop, x)
    return dict(serve=serve, blk=blk, i0=i0, li=li, loop=loop, lower=it.slice.lower.value, state=state, inits=inits, out=lists[0], declared=declared)

def translate_filter(F):
    loop, inits = F["loop"], F["inits"]
    order = sorted([x for x in F["state"] if inits[x][0] == "bool"]) + [F["out"]]
    types = {x: inits[x][0] for x in order}
    types[loop.target.id] = "str"
    w = R(dict(types=types, params=[]), loop, "loop")
    tup = "(" + ", ".join(order) + ")"
    ttype = " * ".join("bool" if types[x] == "bool" else "list str" for x in order)
    body = w.block(loop.body, tup, tup)
    lets = "".join("  let %s := %s in\n" % (x, inits[x][1]) for x in order)
    return ("Definition gen_argv_lower : nat := %d%%nat.\n\n"
            "Definition gen_server_args (argv_tail : list str) : list str :=\n%s"
            "  let '%s := fold_left (fun (st__ : %s) (%s : str) => let '%s := st__ in\n    %s) argv_tail %s in\n  %s.\n\n"
            "Definition gen_server_args_of_argv (argv : list str) : list str := gen_server_args (skipn gen_argv_lower argv).\n"
            % (F["lower"], lets, tup, ttype, loop.target.id, tup, body, tup, F["out"])), order

# ------------------------------------------------------------------ (b) _build_command
def class_def(tree, name):
    cs = [n for n in tree.body if isinstance(n, ast.ClassDef) and n.name == name]
    if len(cs) != 1: raise Untranslatable("expected one module-level class %s" % name)
    return cs[0]

def methods(cls, name):
    return [n for n in cls.body if isinstance(n, (ast.FunctionDef, ast.AsyncFunctionDef)) and n.name == name]

def translate_build(cls):
    ms = methods(cls, "_build_command")
    if len(ms) != 1 or not isinstance(ms[0], ast.FunctionDef): raise Untranslatable("expected one def _build_command in %s" % SUP_CLASS)
    fn = ms[0]
    a = fn.args
    if [x.arg for x in a.args] != ["self"] or a.vararg or a.kwarg or a.kwonlyargs or a.posonlyargs or fn.decorator_list:
        raise Untranslatable("signature / decorators of _build_command")
    for n in ast.walk(fn):
        if isinstance(n, ast.Name) and n.id == "self" and not isinstance(n.ctx, ast.Load): raise Untranslatable("self is rebound in _build_command")
    spec = dict(params=[], types={}, attrs={"sys.executable": ("exe", "str"), "self." + ATTR: ("server_args", ("list", "str"))})
    w = R(spec, fn, "fn")
    body = w.block(fn.body, "FALLTHROUGH__")
    if "FALLTHROUGH__" in body: raise Untranslatable("_build_command: control can fall off the end")
    return "Definition gen_build_command (exe : str) (server_args : list str) : list str :=\n  %s.\n" % body

# ------------------------------------------------------------------ (c) structural checks
def call_args_ok(c):
    return not any(isinstance(x, ast.Starred) for x in c.args) and all(k.arg is not None for k in c.keywords)

def second_arg(c, pname):
    """the expression a call passes for its 2nd positional parameter (named pname)"""
    if not call_args_ok(c): return None
    kw = {k.arg: k.value for k in c.keywords}
    if len(c.args) >= 2: return None if pname in kw else c.args[1]
    return kw.get(pname)

def checks(main_tree, F, sup_tree, init_tree):
    out = {}
    serve = F["serve"]
    slice_nodes = set()
    for s in F["blk"][F["i0"]:F["li"] + 1]:
        slice_nodes.update(id(n) for n in ast.walk(s))
    outside = lambda name: [n for n in names_in(serve, name) if id(n) not in slice_nodes]
    sup_cls = class_def(sup_tree, SUP_CLASS)
    entry = [n for n in sup_tree.body if isinstance(n, ast.FunctionDef) and n.name == SUP_ENTRY]
    entry_param = entry[0].args.args[1].arg if len(entry) == 1 and len(entry[0].args.args) == 2 else None
    # 1. serve -> run_with_reload
    calls = [n for n in ast.walk(serve) if isinstance(n, ast.Call) and isinstance(n.func, ast.Name) and n.func.id == SUP_ENTRY]
    ok = len(calls) == 1 and entry_param is not None
    if ok:
        a2 = second_arg(calls[0], entry_param)
        occ = outside(F["out"])
        ok = isinstance(a2, ast.Name) and a2.id == F["out"] and len(occ) == 1 and occ[0] is a2
        ok = ok and all(not outside(x) for x in F["state"] if x != F["out"])
        # the call comes after the loop, in the same block (not inside a loop that could run it twice is irrelevant: same list)
        ok = ok and any(calls[0] in list(ast.walk(s)) for s in F["blk"][F["li"] + 1:])
        ok = ok and len([n for n in names_in(serve, SUP_ENTRY)]) == 1
    out["serve_passes_filtered_args"] = ok
    # 1b. the name resolves to supervisor.run_with_reload
    imps = [n for n in ast.walk(main_tree) if isinstance(n, ast.ImportFrom) and any((al.asname or al.name) == SUP_ENTRY for al in n.names)]
    ok = len(imps) == 1 and imps[0].level == 1 and imps[0].module == PKG_MODULE and any(al.name == SUP_ENTRY and al.asname in (None, SUP_ENTRY) for al in imps[0].names)
    if ok and calls:
        call_stmt = [i for i, s in enumerate(F["blk"]) if any(n is calls[0] for n in ast.walk(s))]
        ok = any(s is imps[0] for s in main_tree.body) or (len(call_stmt) == 1 and any(s is imps[0] for s in F["blk"][:call_stmt[0]]))
    else: ok = False
    ok = ok and not any(isinstance(n, ast.Name) and n.id == SUP_ENTRY and isinstance(n.ctx, (ast.Store, ast.Del)) for n in ast.walk(main_tree))
    ok = ok and not any(isinstance(n, (ast.FunctionDef, ast.AsyncFunctionDef, ast.ClassDef)) and n.name == SUP_ENTRY for n in ast.walk(main_tree))
    i2 = [n for n in init_tree.body if isinstance(n, ast.ImportFrom) and any((al.asname or al.name) == SUP_ENTRY for al in n.names)]
    ok = ok and len(i2) == 1 and i2[0].level == 1 and i2[0].module == SUP_MODULE and any(al.name == SUP_ENTRY and al.asname in (None, SUP_ENTRY) for al in i2[0].names)
    ok = ok and not any(isinstance(n, ast.Name) and n.id == SUP_ENTRY and isinstance(n.ctx, (ast.Store, ast.Del)) for n in ast.walk(init_tree))
    ok = ok and not any(isinstance(n, (ast.FunctionDef, ast.AsyncFunctionDef, ast.ClassDef)) and n.name == SUP_ENTRY for n in ast.walk(init_tree))
    ok = ok and len(entry) == 1 and not entry[0].decorator_list
    ok = ok and not any(isinstance(n, ast.Name) and n.id in (SUP_ENTRY, SUP_CLASS) and isinstance(n.ctx, (ast.Store, ast.Del)) for n in ast.walk(sup_tree))
    ok = ok and len([n for n in ast.walk(sup_tree) if isinstance(n, (ast.FunctionDef, ast.AsyncFunctionDef, ast.ClassDef)) and n.name in (SUP_ENTRY, SUP_CLASS)]) == 2
    ok = ok and not sup_cls.decorator_list and not sup_cls.keywords and [ast.unparse(b) for b in sup_cls.bases] in ([], ["object"])
    out["run_with_reload_resolves"] = bool(ok)
    # 2. run_with_reload -> Supervisor(..)
    ok = entry_param is not None
    init = methods(sup_cls, "__init__")
    init_param = init[0].args.args[2].arg if len(init) == 1 and len(init[0].args.args) == 3 and not init[0].args.vararg and not init[0].args.kwarg else None
    if ok:
        e = entry[0]
        ok = not e.args.vararg and not e.args.kwarg and not e.args.kwonlyargs and not e.args.posonlyargs
        cs = [n for n in ast.walk(e) if isinstance(n, ast.Call) and isinstance(n.func, ast.Name) and n.func.id == SUP_CLASS]
        occ = names_in(e, entry_param)
        ok = ok and len(cs) == 1 and init_param is not None and len(occ) == 1
        if ok:
            a2 = second_arg(cs[0], init_param)
            ok = a2 is occ[0]
            body = [s for s in e.body if not (isinstance(s, ast.Expr) and isinstance(s.value, ast.Constant))]
            # `x = Supervisor(..); x.run()`  or  `Supervisor(..).run()`
            if len(body) == 2 and isinstance(body[0], ast.Assign) and len(body[0].targets) == 1 and isinstance(body[0].targets[0], ast.Name) and body[0].value is cs[0]:
                x = body[0].targets[0].id
                ok = ok and isinstance(body[1], ast.Expr) and ast.unparse(body[1].value) == "%s.run()" % x
            elif len(body) == 1 and isinstance(body[0], ast.Expr) and isinstance(body[0].value, ast.Call) and isinstance(body[0].value.func, ast.Attribute) \
                    and body[0].value.func.attr == "run" and body[0].value.func.value is cs[0] and not body[0].value.args and not body[0].value.keywords:
                pass
            else: ok = False
    out["run_with_reload_passes_unchanged"] = bool(ok)
    # 3. __init__ stores it
    ok = init_param is not None and not init[0].decorator_list and init[0].args.args[0].arg == "self"
    stores = [n for n in ast.walk(sup_tree) if isinstance(n, ast.Attribute) and n.attr == ATTR and isinstance(n.ctx, (ast.Store, ast.Del))]
    the_store = None
    if ok:
        tops = [s for s in init[0].body if isinstance(s, (ast.Assign, ast.AnnAssign)) and
                any(is_self_attr(t, ATTR) for t in (s.targets if isinstance(s, ast.Assign) else [s.target]))]
        occ = names_in(init[0], init_param)
        ok = len(tops) == 1 and len(occ) == 1 and tops[0].value is occ[0] and (isinstance(tops[0], ast.AnnAssign) or len(tops[0].targets) == 1)
        ok = ok and not any(isinstance(n, ast.Name) and n.id == "self" and not isinstance(n.ctx, ast.Load) for n in ast.walk(init[0]))
        if ok: the_store = tops[0].targets[0] if isinstance(tops[0], ast.Assign) else tops[0].target
    out["init_stores_unchanged"] = bool(ok)
    # 4. written once, read only by _build_command
    bc = methods(sup_cls, "_build_command")
    bc_nodes = set(id(n) for m in bc for n in ast.walk(m))
    ok = the_store is not None and len(stores) == 1 and stores[0] is the_store
    for n in ast.walk(sup_tree):
        if isinstance(n, ast.Attribute) and n.attr == ATTR and isinstance(n.ctx, ast.Load) and not (id(n) in bc_nodes and is_self_attr(n, ATTR)): ok = False
        if isinstance(n, ast.Name) and n.id in REFLECTION: ok = False
        if isinstance(n, ast.Attribute) and n.attr in REFLECTION: ok = False
        if isinstance(n, ast.Constant) and n.value == ATTR: ok = False
    out["server_args_assigned_once"] = bool(ok)
    # 5. run -> _start_server -> Popen(cmd)
    run = methods(sup_cls, "run")
    out["run_calls_start_server"] = bool(len(run) == 1 and any(isinstance(n, ast.Call) and is_self_attr(n.func, "_start_server") and not n.args and not n.keywords
                                                             for n in ast.walk(run[0])) and len(methods(sup_cls, "_start_server")) == 1)
    popens = [n for n in ast.walk(sup_tree) if isinstance(n, ast.Call) and ((isinstance(n.func, ast.Attribute) and n.func.attr in ("Popen", "run", "call", "check_call", "check_output")
                                                                              and ast.unparse(n.func.value) == "subprocess")
                                                                             or (isinstance(n.func, ast.Name) and n.func.id == "Popen"))]
    other_spawn = [n for n in ast.walk(sup_tree) if isinstance(n, ast.Attribute) and isinstance(n.value, ast.Name) and n.value.id == "os"
                   and (n.attr.startswith("exec") or n.attr.startswith("spawn") or n.attr in ("system", "popen", "fork", "posix_spawn", "posix_spawnp"))]
    ss = methods(sup_cls, "_start_server")
    ok = len(ss) == 1 and len(popens) == 1 and not other_spawn and ast.unparse(popens[0].func) == "subprocess.Popen" and len(bc) == 1
    ok = ok and any(isinstance(n, ast.Import) and any(al.name == "subprocess" and al.asname is None for al in n.names) for n in sup_tree.body)
    ok = ok and not any(isinstance(n, ast.Name) and n.id == "subprocess" and not isinstance(n.ctx, ast.Load) for n in ast.walk(sup_tree))
    ok = ok and not any(isinstance(n, ast.Attribute) and n.attr in ("_build_command", "Popen") and not isinstance(n.ctx, ast.Load) for n in ast.walk(sup_tree))
    pk = {}
    if ok:
        p = popens[0]
        ok = call_args_ok(p) and id(p) in set(id(n) for n in ast.walk(ss[0]))
        pk = {k.arg: k.value for k in p.keywords}
        first = p.args[0] if p.args else pk.get("args")
        if p.args and "args" in pk: ok = False
        is_bc = lambda e: isinstance(e, ast.Call) and is_self_attr(e.func, "_build_command") and not e.args and not e.keywords
        if ok and is_bc(first): pass
        elif ok and isinstance(first, ast.Name):
            v = first.id
            binds = [s for s in ss[0].body if isinstance(s, ast.Assign) and len(s.targets) == 1 and isinstance(s.targets[0], ast.Name) and s.targets[0].id == v]
            st = [n for n in names_in(ss[0], v) if not isinstance(n.ctx, ast.Load)]
            ok = len(binds) == 1 and len(st) == 1 and is_bc(binds[0].value) and binds[0].lineno < p.lineno
            # every other read of cmd leaves it as it is
            parents = {}
            for n in ast.walk(ss[0]):
                for c in ast.iter_child_nodes(n): parents[id(c)] = n
            for n in names_in(ss[0], v):
                if n is first or not isinstance(n.ctx, ast.Load): continue
                par = parents.get(id(n))
                fine = isinstance(par, ast.Call) and n in par.args and not par.keywords and (
                    (isinstance(par.func, ast.Attribute) and par.func.attr == "join" and isinstance(par.func.value, ast.Constant) and isinstance(par.func.value.value, str))
                    or (isinstance(par.func, ast.Name) and par.func.id in READ_ONLY_CALLS))
                if not fine: ok = False
        else: ok = False
        ok = ok and not any(isinstance(n, ast.Name) and n.id == "self" and not isinstance(n.ctx, ast.Load) for n in ast.walk(ss[0]))
    out["popen_gets_build_command"] = bool(ok)
    ok2 = bool(popens) and len(popens) == 1
    if ok2:
        sh = pk.get("shell") if pk else {k.arg: k.value for k in popens[0].keywords}.get("shell")
        allk = {k.arg for k in popens[0].keywords}
        ok2 = call_args_ok(popens[0]) and (sh is None or (isinstance(sh, ast.Constant) and sh.value is False)) and "executable" not in allk
        out["popen_inherits_env_cwd"] = bool(call_args_ok(popens[0]) and not (allk & POPEN_ENV))
    else:
        out["popen_inherits_env_cwd"] = False
    out["popen_no_shell"] = bool(ok2)
    return out

# ------------------------------------------------------------------ output
HEADER = """(* GENERATED by /verif/translate/py2coq_reload.py from /repo/src/nauyaca (__main__.py serve, server/reload/supervisor.py) - do not edit *)
From Coq Require Import List NArith Bool String.
From NV Require Import Prelude.Str.
Import ListNotations.
Open Scope list_scope.

"""

def cstring(s):
    if not all(32 <= ord(c) < 127 and c != '"' for c in s): raise Untranslatable("name %r" % s)
    return '"%s"%%string' % s

def main(out_path):
    main_tree, sup_tree, init_tree = parse(MAIN_FILE), parse(SUP_FILE), parse(PKG_INIT)
    F = locate_filter(main_tree)
    # the statements of the branch outside the slice do not mention the boolean state variables (checked again, with the list, in checks())
    t1, order = translate_filter(F)
    t2 = translate_build(class_def(sup_tree, SUP_CLASS))
    cs = checks(main_tree, F, sup_tree, init_tree)
    chunks = [HEADER]
    chunks.append("(* %s, lines %d-%d: the filter of `serve --reload` (state: %s) *)\n%s\n" % (
        MAIN_FILE, F["blk"][F["i0"]].lineno, F["loop"].end_lineno, ", ".join(order), t1))
    chunks.append("(* option names declared for %s, with \"takes a value\" *)\nDefinition gen_declared_reload_flags : list (str * bool) := [%s].\n\n" % (
        " / ".join(RELOAD_PARAMS), "; ".join("(%s, %s)" % (coq_str(n), "true" if v else "false") for n, v in F["declared"])))
    chunks.append("(* %s %s._build_command *)\n%s\n" % (SUP_FILE, SUP_CLASS, t2))
    chunks.append("(* structural checks of the path serve -> %s -> %s.__init__ -> _start_server -> subprocess.Popen (see the translator's docstring) *)\n" % (SUP_ENTRY, SUP_CLASS))
    for k in ["serve_passes_filtered_args", "run_with_reload_resolves", "run_with_reload_passes_unchanged", "init_stores_unchanged", "server_args_assigned_once",
              "run_calls_start_server", "popen_gets_build_command", "popen_no_shell", "popen_inherits_env_cwd"]:
        chunks.append("Definition %s : bool := %s.\n" % (k, "true" if cs[k] else "false"))
    chunks.append("Definition filtered_var : string := %s.\n" % cstring(F["out"]))
    open(out_path, "w").write("".join(chunks))
    failed = [k for k, v in cs.items() if not v]
    print("py2coq_reload: filter loop (%d state variables, argv[%d:]), _build_command, %d structural checks%s" % (
        len(order), F["lower"], len(cs), (" - FALSE: " + ", ".join(failed)) if failed else ""))

if __name__ == "__main__":
    try:
        main(sys.argv[1] if len(sys.argv) > 1 else os.path.join(os.path.dirname(os.path.dirname(os.path.abspath(__file__))), "coq", "Gen", "ReloadGen.v"))
    except Untranslatable as e:
        print("UNTRANSLATABLE:", e); sys.exit(2)
    except Exception as e:      # fail closed: a source shape the translator did not foresee is refused, never guessed at
        print("UNTRANSLATABLE: internal error %s: %s" % (type(e).__name__, e)); sys.exit(2)
